#!/usr/bin/env python3
"""Generic driver for yardl-generated Python packages.

usage: driver.py <python-output-dir> <package-name> <jobs.json> <results.json>

It contains no serialization logic of its own: every job only wires generated readers to
generated writers (or calls generated protocol methods) and reports what happened.
"""
import importlib
import io
import json
import sys
import traceback


def load(outdir, pkg):
    sys.path.insert(0, outdir)
    return importlib.import_module(pkg)


def classes(mod, proto, fmt):
    prefix = {"binary": "Binary", "ndjson": "NDJson"}[fmt]
    return getattr(mod, prefix + proto + "Reader"), getattr(mod, prefix + proto + "Writer")


def step_methods(mod, proto):
    """(read method, write method, is_stream) per step, in declaration order."""
    base = getattr(mod, proto + "ReaderBase")
    schema = json.loads(base.schema)
    reads = [k for k in base.__dict__ if k.startswith("read_")]
    out = []
    for name, step in zip(reads, schema["protocol"]["sequence"]):
        t = step["type"]
        is_stream = isinstance(t, dict) and "stream" in t
        out.append((name, "write_" + name[len("read_"):], is_stream))
    return out


def chunks(items, k):
    for i in range(0, len(items), k):
        yield items[i:i + k]


def relayout(v, how, depth=0):
    """The same value with every NumPy array in another memory layout (contents unchanged)."""
    import copy
    import numpy as np
    if depth > 12 or v is None or isinstance(v, (str, bytes, int, float, complex, bool, np.generic)):
        return v
    if isinstance(v, np.ndarray):
        if v.dtype == object or v.ndim == 0 or v.size == 0:
            return v
        if how == "F":
            return np.asfortranarray(v)
        big = np.zeros(tuple(2 * n for n in v.shape), dtype=v.dtype)
        view = big[tuple(slice(None, None, 2) for _ in v.shape)]
        view[...] = v
        return view
    if isinstance(v, list):
        return [relayout(x, how, depth + 1) for x in v]
    if isinstance(v, tuple):
        return tuple(relayout(x, how, depth + 1) for x in v)
    if isinstance(v, dict):
        return {k: relayout(x, how, depth + 1) for k, x in v.items()}
    names = list(getattr(v, "__dict__", {}).keys())
    for klass in type(v).__mro__:
        names += [n for n in getattr(klass, "__slots__", ()) if isinstance(n, str)]
    if not names or isinstance(v, type) or type(v).__module__ in ("datetime", "builtins", "enum"):
        return v
    import enum
    if isinstance(v, enum.Enum):
        return v
    try:
        c = copy.copy(v)
        for n in names:
            if hasattr(v, n):
                object.__setattr__(c, n, relayout(getattr(v, n), how, depth + 1))
        return c
    except Exception:
        return v


def op_copy(mod, job):
    R, _ = classes(mod, job["proto"], job["in_fmt"])
    _, W = classes(mod, job["proto"], job["out_fmt"])
    mode = job.get("mode", "copy_to")
    phase = "open"
    with open(job["in"], "rb" if job["in_fmt"] == "binary" else "r") as fin, \
            open(job["out"], "wb" if job["out_fmt"] == "binary" else "w") as fout:
        r = R(fin)
        w = W(fout)
        try:
            if mode == "copy_to":
                phase = "copy"
                r.copy_to(w)
            else:
                how = job.get("relayout", "")
                for rd, wr, is_stream in step_methods(mod, job["proto"]):
                    phase = rd
                    if not is_stream:
                        x = getattr(r, rd)()
                        getattr(w, wr)(relayout(x, how) if how else x)
                        continue
                    items = list(getattr(r, rd)())
                    if how:
                        items = [relayout(x, how) for x in items]
                    phase = wr
                    if mode == "list":
                        getattr(w, wr)(items)
                    elif mode == "lazy":
                        getattr(w, wr)(x for x in items)
                    elif mode == "one":
                        if not items:
                            getattr(w, wr)([])
                        for x in items:
                            getattr(w, wr)([x])
                    elif mode.startswith("chunk"):
                        k = int(mode[5:])
                        if not items:
                            getattr(w, wr)([])
                        for c in chunks(items, k):
                            getattr(w, wr)(c)
                    else:
                        raise ValueError("unknown mode " + mode)
            phase = "close-writer"
            w.close()
            phase = "close-reader"
            r.close()
        except BaseException:
            # do not let close() mask the original error
            try:
                fout.flush()
            except Exception:
                pass
            raise Exception("phase=%s: %s" % (phase, traceback.format_exc(limit=6)))
    return {"ok": True}


def op_read_count(mod, job):
    """Reads a (possibly truncated/foreign) stream; reports how many values were delivered before
    the end or the error, re-encoding the delivered values into out (binary) step by step."""
    R, _ = classes(mod, job["proto"], job["in_fmt"])
    delivered = []
    err = None
    try:
        with open(job["in"], "rb" if job["in_fmt"] == "binary" else "r") as fin:
            r = R(fin)
            for rd, wr, is_stream in step_methods(mod, job["proto"]):
                if is_stream:
                    n = 0
                    delivered.append(n)
                    for _ in getattr(r, rd)():
                        n += 1
                        delivered[-1] = n
                else:
                    getattr(r, rd)()
                    delivered.append(1)
            r.close()
    except BaseException as e:  # noqa
        err = "%s: %s" % (type(e).__name__, str(e)[:300])
    return {"ok": err is None, "error": err, "delivered": delivered}


def op_steps(mod, job):
    """Drives the abstract writer/reader base class (the step state machine) with stub
    implementations and a scripted source; reports what happened op by op, stopping at the first
    exception."""
    proto = job["proto"]
    counts = job["counts"]
    out = []
    if job["side"] == "writer":
        base = getattr(mod, proto + "WriterBase")
        names = [k[len("write_"):] for k in base.__dict__ if k.startswith("write_")]
        schema = json.loads(base.schema)["protocol"]["sequence"]
        is_stream = [isinstance(s["type"], dict) and "stream" in s["type"] for s in schema]
        ns = {"_close": lambda self: None, "_end_stream": lambda self: None}
        for name, st in zip(names, is_stream):
            if st:
                ns["_write_" + name] = lambda self, value: [x for x in value]
            else:
                ns["_write_" + name] = lambda self, value: None
        w = type("StubWriter", (base,), ns)()
        for op in job["ops"]:
            try:
                k = op["step"]
                if op["kind"] == "C":
                    w.close()
                elif op["kind"] == "W":
                    getattr(w, "write_" + names[k])([7] if is_stream[k] else 7)
                elif op["kind"] == "B":
                    getattr(w, "write_" + names[k])([7] * op.get("n", 0))
                else:
                    raise ValueError("bad op")
                out.append({"ok": True})
            except BaseException as e:  # noqa
                out.append({"ok": False, "err": "%s: %s" % (type(e).__name__, str(e)[:200])})
                break
        return {"ok": True, "extra": out}
    base = getattr(mod, proto + "ReaderBase")
    names = [k[len("read_"):] for k in base.__dict__ if k.startswith("read_")]
    schema = json.loads(base.schema)["protocol"]["sequence"]
    is_stream = [isinstance(s["type"], dict) and "stream" in s["type"] for s in schema]
    ns = {"_close": lambda self: None}
    for idx, (name, st) in enumerate(zip(names, is_stream)):
        if st:
            ns["_read_" + name] = (lambda self, _i=idx: (1000 * (_i + 1) + j for j in range(counts[_i])))
        else:
            ns["_read_" + name] = (lambda self, _i=idx: 100 + _i)
    r = type("StubReader", (base,), ns)()
    cur = None
    for op in job["ops"]:
        try:
            k = op["step"]
            if op["kind"] == "C":
                r.close()
                out.append({"ok": True})
            elif op["kind"] == "R":
                v = getattr(r, "read_" + names[k])()
                if is_stream[k]:
                    cur = iter(v)
                    out.append({"ok": True})
                else:
                    out.append({"ok": True, "items": [v]})
            elif op["kind"] == "X":
                # what leaving a `for` loop early does once the iterator is collected
                cur.close()
                cur = None
                out.append({"ok": True})
            elif op["kind"] == "I":
                items = []
                exhausted = False
                n = op.get("n", 0)
                while n < 0 or len(items) < n:
                    try:
                        items.append(next(cur))
                    except StopIteration:
                        exhausted = True
                        break
                if not exhausted and n >= 0 and False:
                    pass
                out.append({"ok": True, "items": items, "result": exhausted})
            else:
                raise ValueError("bad op")
        except BaseException as e:  # noqa
            out.append({"ok": False, "err": "%s: %s" % (type(e).__name__, str(e)[:200])})
            break
    return {"ok": True, "extra": out}


def op_cf(mod, job):
    """Reads the first step (a record) of a binary stream and evaluates the named computed fields."""
    R, _ = classes(mod, job["proto"], "binary")
    out = []
    with open(job["in"], "rb") as fin:
        r = R(fin, True) if False else R(fin)
        rd = step_methods(mod, job["proto"])[0][0]
        rec = getattr(r, rd)()
        for name in job["names"]:
            try:
                v = getattr(rec, name)()
                if isinstance(v, bool):
                    out.append("b:" + str(v))
                elif isinstance(v, int) or type(v).__name__.startswith(("int", "uint")):
                    out.append("i:" + str(int(v)))
                else:
                    out.append("f:" + float(v).hex())
            except BaseException as e:  # noqa
                out.append("x:%s: %s" % (type(e).__name__, str(e)[:120]))
    return {"ok": True, "extra": out}


OPS = {"copy": op_copy, "read_count": op_read_count, "steps": op_steps, "cf": op_cf}


def main():
    outdir, pkg, jobs_path, results_path = sys.argv[1:5]
    results = []
    try:
        mod = load(outdir, pkg)
    except BaseException:
        json.dump({"import_error": traceback.format_exc(limit=8)}, open(results_path, "w"))
        return 0
    for job in (json.load(open(jobs_path)) or []):
        try:
            res = OPS[job["op"]](mod, job)
        except BaseException as e:  # noqa
            res = {"ok": False, "error": "%s: %s" % (type(e).__name__, str(e)[-1500:])}
        results.append(res)
    json.dump({"results": results}, open(results_path, "w"))
    return 0


if __name__ == "__main__":
    sys.exit(main())
