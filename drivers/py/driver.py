#!/usr/bin/env python3
"""Generic driver for yardl-generated Python packages.

usage: driver.py <python-output-dir> <package-name> <jobs.json> <results.json>

It contains no serialization logic of its own: every job only wires generated readers to
generated writers (or calls generated protocol methods) and reports what happened.
"""
import importlib
import io
import json
import sys
import traceback


def load(outdir, pkg):
    sys.path.insert(0, outdir)
    return importlib.import_module(pkg)


def classes(mod, proto, fmt):
    prefix = {"binary": "Binary", "ndjson": "NDJson"}[fmt]
    return getattr(mod, prefix + proto + "Reader"), getattr(mod, prefix + proto + "Writer")


def step_methods(mod, proto):
    """(read method, write method, is_stream) per step, in declaration order."""
    base = getattr(mod, proto + "ReaderBase")
    schema = json.loads(base.schema)
    reads = [k for k in base.__dict__ if k.startswith("read_")]
    out = []
    for name, step in zip(reads, schema["protocol"]["sequence"]):
        t = step["type"]
        is_stream = isinstance(t, dict) and "stream" in t
        out.append((name, "write_" + name[len("read_"):], is_stream))
    return out


def chunks(items, k):
    for i in range(0, len(items), k):
        yield items[i:i + k]


def op_copy(mod, job):
    R, _ = classes(mod, job["proto"], job["in_fmt"])
    _, W = classes(mod, job["proto"], job["out_fmt"])
    mode = job.get("mode", "copy_to")
    phase = "open"
    with open(job["in"], "rb" if job["in_fmt"] == "binary" else "r") as fin, \
            open(job["out"], "wb" if job["out_fmt"] == "binary" else "w") as fout:
        r = R(fin)
        w = W(fout)
        try:
            if mode == "copy_to":
                phase = "copy"
                r.copy_to(w)
            else:
                for rd, wr, is_stream in step_methods(mod, job["proto"]):
                    phase = rd
                    if not is_stream:
                        getattr(w, wr)(getattr(r, rd)())
                        continue
                    items = list(getattr(r, rd)())
                    phase = wr
                    if mode == "list":
                        getattr(w, wr)(items)
                    elif mode == "lazy":
                        getattr(w, wr)(x for x in items)
                    elif mode == "one":
                        if not items:
                            getattr(w, wr)([])
                        for x in items:
                            getattr(w, wr)([x])
                    elif mode.startswith("chunk"):
                        k = int(mode[5:])
                        if not items:
                            getattr(w, wr)([])
                        for c in chunks(items, k):
                            getattr(w, wr)(c)
                    else:
                        raise ValueError("unknown mode " + mode)
            phase = "close-writer"
            w.close()
            phase = "close-reader"
            r.close()
        except BaseException:
            # do not let close() mask the original error
            try:
                fout.flush()
            except Exception:
                pass
            raise Exception("phase=%s: %s" % (phase, traceback.format_exc(limit=6)))
    return {"ok": True}


def op_read_count(mod, job):
    """Reads a (possibly truncated/foreign) stream; reports how many values were delivered before
    the end or the error, re-encoding the delivered values into out (binary) step by step."""
    R, _ = classes(mod, job["proto"], job["in_fmt"])
    delivered = []
    err = None
    try:
        with open(job["in"], "rb" if job["in_fmt"] == "binary" else "r") as fin:
            r = R(fin)
            for rd, wr, is_stream in step_methods(mod, job["proto"]):
                if is_stream:
                    n = 0
                    delivered.append(n)
                    for _ in getattr(r, rd)():
                        n += 1
                        delivered[-1] = n
                else:
                    getattr(r, rd)()
                    delivered.append(1)
            r.close()
    except BaseException as e:  # noqa
        err = "%s: %s" % (type(e).__name__, str(e)[:300])
    return {"ok": err is None, "error": err, "delivered": delivered}


OPS = {"copy": op_copy, "read_count": op_read_count}


def main():
    outdir, pkg, jobs_path, results_path = sys.argv[1:5]
    results = []
    try:
        mod = load(outdir, pkg)
    except BaseException:
        json.dump({"import_error": traceback.format_exc(limit=8)}, open(results_path, "w"))
        return 0
    for job in (json.load(open(jobs_path)) or []):
        try:
            res = OPS[job["op"]](mod, job)
        except BaseException as e:  # noqa
            res = {"ok": False, "error": "%s: %s" % (type(e).__name__, str(e)[-1500:])}
        results.append(res)
    json.dump({"results": results}, open(results_path, "w"))
    return 0


if __name__ == "__main__":
    sys.exit(main())
