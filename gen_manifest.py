#!/usr/bin/env python3
"""Regenerates MANIFEST.json from the table below (kept in one place so it stays valid)."""
import json

CHECKS = {
 "C10": dict(
   technique="grammar-based and mutation fuzzing of the real CLI (rapid generators, shrinking) with a crash/hang/located-diagnostic oracle",
   text="Exploration: tens of thousands of generated inputs per run (raw bytes, random YAML trees with yardl tags, structurally mutated valid packages incl. imported packages, grammar-derived type and expression strings, reference graphs whose type references and enum bases are drawn freely from a small pool of names, random manifests; texts in block style or entirely in flow style with scalars in the first column) are fed to `yardl validate` / `yardl generate`; oracle = exit 0, or exit 1 with an error naming an existing file (and, for model files, a line number that is a line of that file); any panic, fatal error, signal, exit code other than 0/1, >10 s run time or >4 GiB address space is a violation. Cannot show absence; aims generators at every unmarshaller and at the computed-field resolver.",
   note="trusted: the harness's YAML printer and the regexp that recognises yardl's error lines; 10 s / 4 GiB stand for 'promptly' / 'does not exhaust memory'",
   ref="DESIGN.md section 3 (C10)"),
}
CHECKS["C09"] = dict(
   technique="mutation-based property testing: valid generated layouts with one injected rule violation at a generated position; oracle = CLI rejects and names a file of the offending package",
   text="Exploration: each case is a generated valid layout (main package, imports, an import of an import, previous versions, several files) plus exactly one injected violation out of ~55 documented rules, nested inside 0-3 generated wrappers (containers, union cases, generic arguments) and placed in a generated package/file; a third of the cases with the violation in an import arrange the packages in sub-directories so that the relative path a nested package (an import of an import, the import snapshot of a previous version) uses would, taken from the top-level package directory, reach a valid decoy package of the same namespace; the un-mutated control layout must be accepted, the mutated one must exit non-zero with an error naming a file of the package that contains the violation. Thousands of (rule, position) combinations per run.",
   note="trusted: the rule table transcribed from docs/*/language.md and yardl's own messages; only 'rejected + file of the offending package named' is asserted, secondary errors are accepted",
   ref="DESIGN.md section 3 (C09)")
CHECKS["C11"] = dict(
   technique="property-based fault injection: generated invalid packages x generated output configurations x pre-populated output states, oracle = exit status and recursive file-system snapshot equality",
   text="Exploration: each case draws an invalid layout (a rule violation in the main package, an import, an import of an import or a previous version, or a breaking change that only the evolution check sees), an output configuration (any subset of cpp/python/matlab/json; separate, shared or in-package directories; cpp options; -c overrides) and an initial output state (absent, empty, populated by a successful generate of a different valid model so that overwriting and stale-file deletion are observable). Oracle: `yardl generate` exits non-zero and the recursive (path, sha256, mode, size, mtime_ns) snapshot of the whole layout root is identical before and after.",
   note="trusted: the snapshot covers everything under the layout root; $HOME/.yardl is outside and not inspected",
   ref="DESIGN.md section 3 (C11)")
CHECKS["C12"] = dict(
   technique="property-based differential testing of repeated executions (each execution = a new random Go map iteration order), oracle = byte equality of outputs/diagnostics and mtime stability",
   text="Exploration: packages generated to have many entries in every map yardl iterates (up to 14 definitions, unions of several arities, 1-3 previous versions each with several accepted changes, an alias no version changes inside a step union that gains a case, removed protocols, or several simultaneous errors in different files) are generated N times by fresh CLI processes; exit status, stdout/stderr text and the sha256 of every generated file (C++ incl. HDF5, Python, MATLAB, JSON) must be identical across runs, and one more run into the populated tree must leave every mtime unchanged.",
   note="N (8 quick / 20 thorough) samples of the map-order space per package; a nondeterminism needing more samples is missed",
   ref="DESIGN.md section 3 (C12)")
CHECKS["C13"] = dict(
   technique="metamorphic property-based testing: one generated model IR emitted in two spellings, oracle = equal verdict and byte-identical generated trees / identical embedded schemas",
   text="Exploration: a generated model is written twice - plain vs randomly respelled at every decision point (shorthand/expanded per type node, primitive alias names, [null,T], !generic, quoting, flow/block, dimension syntaxes, noise comments and blank lines), or in a random definition order (uniform permutations, dependents-first orders, and a local type that is used only as a type argument of an imported generic placed after its user) and file distribution. Oracle: same accept/reject verdict (1 in 5 models carries an injected violation); pure-syntax respelling => every generated C++/Python/MATLAB file byte-identical; reorder/re-split => the schema literal of every protocol identical in the C++, Python and MATLAB output, and the generated Python package imports for one ordering iff it does for the other; one case in eight takes the model from the run-time generator together with value sequences, generates both layouts and requires the Python code generated from each to copy the same reference-encoded streams to byte-identical binary and NDJSON output (identical wire behaviour; that the common output is the right one is C01/C02's subject).",
   note="trusted: the harness's YAML emitter really produces equivalent spellings (validated by the generator-soundness self test); the wire behaviour of re-ordered models is compared through generated Python only; generated C++ of shuffled orderings is compiled by C08 and exercised by C01/C03",
   ref="DESIGN.md section 3 (C13)")
CHECKS["C06"] = dict(
   technique="property-based testing over generated model pairs (self, meaning-preserving rewrites, one documented edit at a generated position, independent pairs) against a verdict table transcribed from docs/cpp/evolution.md",
   text="Exploration: for each generated valid model an old/new pair is built - identical, rewritten without change of meaning (permuted definitions/files, rename through alias, unused types, comments, respelling), edited by one of 24 documented edits at a generated position in a definition reachable from a protocol, or two independent models sharing names. Oracle: the CLI never aborts, exits 0/1, prints the same diagnostics on 3 runs; self/rewrite pairs are accepted silently; each edit gets the verdict of its documented class (compatible: silent; partially compatible: accepted with >=1 warning; incompatible: rejected with >=1 error). Positions the document is silent about (inside map values/keys, array items, generic arguments, optional-ness of stream items) are checked for totality and determinism only.",
   note="trusted: the edit/class table (harness/model/evolve.go) as a faithful transcription of the document's unambiguous statements",
   ref="DESIGN.md section 3 (C06)")
CHECKS["C18"] = dict(
   technique="exhaustive enumeration of small import graphs plus random larger graphs, checked against a reference loader over the abstract graph, with a permutation (order-independence) metamorphic relation",
   text="Exploration: all directed graphs (self-loops included) on up to 3 packages (quick) / 4 packages (thorough, 65 536 graphs) and random graphs on 5-14 packages with chains around the nesting limit, shortcuts, diamonds, cycles away from the root, namespace clashes, references to namespaces that are not imported, and relative/absolute/redundant path spellings. A reference loader decides reachability, cycles, clashes and chain lengths; yardl must reject exactly when the reference does (cases with a chain of exactly the limit, or a long chain next to a shorter path, are only required to be order-independent), must list exactly the reachable namespaces once each with their own definitions in model.json, must give the same verdict and definitions for reversed and rotated import lists, and - for graphs in which a package is reached by paths of different length (exhaustive part) and one random graph in 48 - the C++ types generated for the root must compile and the Python package import (imported types are usable from their importers).",
   note="trusted: the reference loader (60 lines) and the reading of the limit as packaging.MaxImportRecursionDepth = 10 edges",
   ref="DESIGN.md section 3 (C18)")
RT_NOTE = "trusted: the reference codecs (harness/ref, written from docs/reference/*.md, no yardl code), the std::vector-based array header plugged in through the documented cpp.overrideArrayHeader option and the minimal date.h stand-in (xtensor/date are not installed); generator switches tied to open known findings exclude the affected shapes and count them"
CHECKS["C01"] = dict(
   technique="property-based differential testing of generated C++ and Python binary readers/writers against an independent reference implementation of the published binary format",
   text="Exploration: for each generated package (all type constructors, generics, imports) and several generated value sequences per protocol (edge integers around varint length changes, NaN/inf/-0.0, multi-byte UTF-8, empty containers, occasionally >64 KiB strings and long vectors, random stream block partitions) a reference-encoded stream is read by the generated binary reader and rewritten by the generated binary writer, in Python and in compiled C++ (every other sequence through the C++ batch overloads with a read buffer that fills up exactly where the first block of the stream ends); the output must decode strictly (no trailing bytes, valid block structure, same schema header) under the reference decoder to exactly the values encoded. Both ends being the reference codec, a symmetric reader/writer error cannot cancel out.",
   note=RT_NOTE, ref="DESIGN.md section 3 (C01)")
CHECKS["C02"] = dict(
   technique="property-based testing of generated NDJSON writers/readers against a reference implementation of the documented JSON mapping (type-directed matcher and emitter)",
   text="Exploration: generated packages x value sequences with finite floats; three legs per language (Python, C++): W - generated binary reader -> generated NDJSON writer, every line matched against the documented mapping of the value (union tagging rule, omitted null fields, enum/flag symbols or integers, map forms, array forms, date/time by denoted instant); R - reference NDJSON -> generated reader -> binary -> reference decoder; RT - generated writer -> generated reader. Values must survive exactly.",
   note=RT_NOTE, ref="DESIGN.md section 3 (C02)")
CHECKS["C03"] = dict(
   technique="property-based testing over generated chains of language/format hops with a reference oracle after every hop and canonical-encoding byte equality",
   text="Exploration: a reference-encoded stream (binary or NDJSON) is pushed through a generated chain of 2-5 hops alternating between generated C++ and Python code, each hop writing binary or NDJSON (a quarter of the cases with one stream step repeated past 70-140 kB, a third of the models with a stream of records made of fixed-width bulk data, half of the cases with Python hops that collect every stream into a list before writing it); after every hop the stream must be accepted, carry the original values, and every binary output must be byte-identical to the reference encoding of those values under its own block partition and map order (which makes the C++ and Python binary outputs byte-identical up to those two freedoms).",
   note=RT_NOTE + "; MATLAB cannot be an endpoint (no interpreter)", ref="DESIGN.md section 3 (C03)")
CHECKS["C15"] = dict(
   technique="property-based fault injection: streams of a one-edit neighbour schema and header corruptions fed to generated readers, oracle = error before any value reaches the sink",
   text="Exploration: package pairs (A, B = A + one schema-changing edit, protocol names unchanged) - A's reference-encoded binary and NDJSON streams are fed to B's generated readers (Python, C++); B's own streams are fed with corrupted headers (single-bit flips spread over magic, version, schema-length varint and schema text; truncation inside the header; NDJSON header with wrong version, misspelt key, missing schema, non-JSON, edited schema). The reader must fail and the generated NDJSON writer used as sink must have received no value.",
   note=RT_NOTE, ref="DESIGN.md section 3 (C15)")
CHECKS["C16"] = dict(
   technique="exhaustive/sampled truncation fuzzing of valid streams with a prefix oracle, C++ under AddressSanitizer (thorough tier: also UBSan)",
   text="Exploration: valid reference-encoded streams are cut at every byte position (streams up to 400 bytes past the header) or at positions around every value start, every 64 KiB multiple and 120 generated positions (a third of the cases repeat a stream step's items until the stream spans several 64 KiB reader buffers, another third draws strings of 1-3 buffer lengths and vectors of 9000-25000 elements); each prefix is read by the generated reader (Python; C++ with ASan, in the thorough tier ASan+UBSan) copying into an NDJSON sink. Binary: every strict prefix must end in an error; NDJSON: an error unless the prefix is itself a complete stream under the documented grammar; values delivered before the error must equal, one by one, the values written at those positions; no crash, sanitizer report or hang.",
   note=RT_NOTE, ref="DESIGN.md section 3 (C16)")
CHECKS["C17"] = dict(
   technique="metamorphic property-based testing: the same item sequence under different block partitions, read/write batch sizes and write groupings must read back identically",
   text="Exploration: generated packages with stream steps x item sequences whose neighbours differ in shape x 4-6 variants of (input block partition, C++ CopyTo buffer sizes selecting single-item or batch read/write overloads, Python write grouping: list / lazy generator / one by one / chunks of k, binary or NDJSON on either side; C++ buffer sizes are also drawn from the sizes of the first blocks at hand; a quarter of the cases repeat one stream step past 70-200 kB, 45% of the models have a stream of records made of fixed-width bulk data); every variant must deliver exactly the items written, in order (checked against the reference decoder / mapping).",
   note=RT_NOTE, ref="DESIGN.md section 3 (C17)")
CHECKS["C08"] = dict(
   technique="property-based testing with identifier-hostile model generation and option-set generation; oracle = generated code compiles/imports in the real tool chains",
   text="Exploration: accepted generated packages whose type/field/step/enum-symbol/union-tag/dimension/computed-field/namespace names are drawn from target-language reserved words and generated-helper names (pools pre-screened one position at a time by an exhaustive sweep; a quarter of the cases are samples of that sweep with one word at ten positions at once, incl. !switch variables over optional, union and plain targets, all targets generated and compiled), near-colliding names, definitions in shuffled order incl. a local type used only as argument of an imported generic, hostile documentation comments, x generated option sets, plus `yardl init <name>` scaffolds. Oracle: validate exit 0 => generate exit 0 without panic; generated Python byte-compiles and imports; generated C++ passes g++ -std=c++17 -fsyntax-only; no duplicate attribute in a generated Python class; no case-insensitive MATLAB file collision.",
   note="trusted: g++ 12 / python3-vt as the judges of well-formedness; C++ is compiled only with the harness's array header (documented overrideArrayHeader), HDF5 sources and MATLAB code are generated but not compiled/run (no HDF5, no MATLAB)",
   ref="DESIGN.md section 3 (C08)")
CHECKS["C04"] = dict(
   technique="metamorphic property-based testing of the embedded schema (neutral vs wire-affecting single edits) plus comparison with a reference schema content derived from the model IR and cross-target literal equality",
   text="Exploration: generated packages x one edit at a generated position. (a) the schema literal of every protocol parses and its content (protocol, ordered steps, transitive closure of named types with ordered fields, symbols, values, base, alias targets, generic parameters/arguments), recovered by a form-tolerant extractor, equals the content derived from the IR; (b) neutral edits (comments, computed fields, unrelated definitions incl. users of the protocol's types, permutation, re-splitting) leave the literal byte-identical; (c) each of 14 wire-affecting edit kinds that comes with a guaranteed witness value changes it; (d) the literals in generated C++, Python and MATLAB are byte-identical. That written streams carry this literal is asserted by C01/C02.",
   note="trusted: harness/ref/schema.go (content derivation and extractor, D3 in DESIGN.md)",
   ref="DESIGN.md section 3 (C04)")
CHECKS["C14"] = dict(
   technique="property-based differential testing of generated serializer compositions: plans parsed from generated C++ (binary), Python (binary and NDJSON) and MATLAB (binary) code versus a reference plan derived from the model IR; NDJSON union tagging decisions versus the documented rule",
   text="Exploration: for every protocol step (reader and writer side, every overload) and every record field of generated packages (incl. imported packages, generic records and aliases) the composition of element encodings is parsed out of four generated backends - C++ binary/protocols.cc (Write.../Read... template compositions, alias functions expanded, enum base types, using-aliases and member types taken from types.h), Python binary.py, Python ndjson.py (converter constructors) and the MATLAB +binary classes (column-major shape reversal undone) - and compared with the plan derived from the IR: field order, fixed lengths, array ranks/shapes, map key/value encodings, integer widths, enum base types, union case order and null handling, generic arguments. For every Python NDJSON UnionConverter the tagged/untagged decision and the JSON datatypes that select each case are compared with the documented rule (untagged iff all cases map to distinct JSON datatypes). ~37 000 comparisons per quick run. Constructs outside the parsers' vocabulary are counted and skipped.",
   note="trusted: the constructor tables in harness/ref/plan*.go; MATLAB is only read as text (no interpreter); the C++ NDJSON backend (overload-driven, no composition text) is checked dynamically by C02/C03; unions inside the region of the two open C02 findings (flags case, bare type-parameter case) are counted, not compared",
   ref="DESIGN.md section 3 (C14), 7.8")
CHECKS["C07"] = dict(
   technique="model-based (state-machine) property testing: generated API call sequences checked against a reference step automaton per API",
   text="Exploration: protocol shapes (1-8 steps, any stream pattern, plus hostile sizes 127-130 / 255-257 steps walked to the far end) x generated call sequences - C++ writer (write / batch write / end / close), C++ reader (read / batch read with capacity / close, scripted source), Python writer (write / write iterable / close), Python reader (read / iterate n / close), MATLAB writer (write / end / close) and MATLAB reader (read / has / close) - mostly along the legal path with arbitrary deviations, each ending at its first rejected call. The generated abstract base classes (which own the step state) are driven through stub implementations, C++ compiled, Python executed; the MATLAB base classes, whose step checks use a fixed statement vocabulary, are parsed and executed structurally (no MATLAB interpreter exists here). Every call the reference automaton accepts must succeed with exactly the scripted data and end-of-stream indication; the first call it rejects must raise. Corners the documents leave open are not judged.",
   note="trusted: harness/ref/steps.go (four ~50-line automata) and the stub generators; payloads are int32 (the state machine is payload-independent); the MATLAB leg trusts the ~150-line structural interpreter of harness/ref/matlab_steps.go (a file outside its vocabulary is skipped with a note)",
   ref="DESIGN.md section 3 (C07)")
CHECKS["C20"] = dict(
   technique="schedule-based property testing of `yardl generate --watch` with an injected delay point (build tag verif) that forces chosen regenerations to outlast later ones; oracle = convergence to the one-shot output",
   text="Exploration: generated save schedules (valid changes, YAML syntax errors, rule violations, file deletion/creation, touches; gaps 0-120 ms; last state valid) are replayed against a running watcher whose regenerations are stretched by 0/60/350 ms at a hook inside generateImpl, which forces the interleaving the property names (a slow regeneration of older contents overtaken by a fast one). After quiescence the watcher must still be alive and the output tree must equal that of a one-shot generate of the final contents. Failures are re-run three times from their schedule and only reported if they reproduce.",
   note="trusted: the hook (tooling/internal/cmd/verifhook_on.go, no-op without the tag) only sleeps and logs; real-time effects outside the hook remain, so absence of races is not shown",
   ref="DESIGN.md section 3 (C20)")
CHECKS["C19"] = dict(
   technique="exhaustive enumeration of the operator/operand-type table plus property-based differential testing of generated C++ and Python computed-field code against an exact rational evaluator",
   text="Static part (exhaustive): all 11x11 ordered pairs of numeric primitives x {+,-,*,/,**}: yardl gives a verdict for each; verdict and declared result type are symmetric in the operands; the C++ return type and the Python annotation agree; ** yields float64. Dynamic part: generated well-typed expressions (field access, literals, + - * / **, unary minus, casts, vector indexing, size(), explicit parentheses in every association pattern; structured operands: subscripts of arrays with two dimensions given positionally / by dimension name / by name in reverse order, size(array[, index | 'name']), dimensionIndex, dimensionCount, size(map), member access through nested records; !switch over integer unions, an optional and a nullable union with a record case) over a record with one field per numeric primitive and those structured fields are evaluated on generated operand values by the compiled C++ and the Python code; both must equal the exact rational value whenever the documents define it and it fits the declared type (integers exactly, reals within 1e-6/1e-12/1e-9 relative).",
   note="trusted: harness/ref/expr.go (exact evaluator and the conservative 'in range' gate); evaluations the documents do not define (non-exact integer division, rounding casts, overflow) are not judged; MATLAB code is not executed",
   ref="DESIGN.md section 3 (C19)")
CHECKS["C05"] = dict(
   technique="model-based property testing of version chains: generated models evolved by documented edits, reference encoder/decoder and a three-valued documented-conversion function as oracle against the compiled generated C++ reader/writer",
   text="Exploration: chains M0 -> M1 (-> M2) of generated models, each step 1-2 compatible or partially compatible edits of docs/cpp/evolution.md at generated positions (numeric changes also two levels deep inside optionals and vectors, `size` as source and target; 30% of the protocol steps are drawn from the number/optional/vector shapes that conversions have dedicated code for); the newest package lists every predecessor and is compiled (g++) with a driver that can construct the writer with Version::<label>. Read direction: reference-encoded streams of generated values of every old version -> current reader -> current writer -> reference decoder = documented conversion. Write direction: current values -> writer targeting each old version -> must decode under the old model, carry the old schema in its header and equal the documented conversion. Chains yardl rejects are discarded and counted; the conversion oracle (harness/ref/evolve.go, written from the document) returns exact value / must raise (a value with no counterpart in the target version: integer out of range, text that is not a number, union case that does not exist there) / not documented; the first two are judged.",
   note="trusted: the harness's reference binary codec (itself cross-checked against the generated code by C01) and its transcription of the conversion table in docs/cpp/evolution.md; C++ binary only (the only combination for which evolution is documented); NaN/inf floats, rounding and number->string text are not judged",
   ref="DESIGN.md section 3 (C05)")
NOT_YET = {}

props = [json.loads(l) for l in open("properties.jsonl")]
checks = []
na = []
for p in props:
    pid = p["id"]
    if pid in CHECKS:
        c = CHECKS[pid]
        checks.append({
            "property_id": pid,
            "quick_cmd": "./verif check %s --tier quick" % pid,
            "thorough_cmd": "./verif check %s --tier thorough" % pid,
            "evidence_file": "/verif/evidence/%s.json" % pid,
            "replay_cmd_template": "./verif replay {path}",
            "engine": "harness",
            "level_claimed": {"category": "exploration", "text": c["text"], "design_ref": c["ref"]},
            "level_note": c["note"],
            "technique": c["technique"],
        })
    else:
        na.append({"property_id": pid, "reason": NOT_YET.get(pid, "check not built yet (work in progress; see DESIGN.md for the planned property-based check)")})

m = {
 "version": 1,
 "setup_cmd": "./verif setup",
 "hooks": {
   "guard": "verif",
   "enable": "go build -tags verif ./cmd/yardl (done by ./verif before every check)",
   "baseline_off_cmd": "cd /repo/tooling && GOFLAGS=-mod=mod GOPROXY=off go test -json -vet=off -count=1 -timeout 25m ./...",
   "source_commits": ["048e554"],
   "add_only": True,
 },
 "engines": [{"name": "harness", "path": "/verif/harness", "serves_properties": sorted(CHECKS), "kind_free_text": "Go module: rapid v1.3.0 property-based tests driving the yardl CLI / public packages / generated code against reference models"}],
 "checks": checks,
 "not_applicable": na,
 "notes": "All checks are property-based tests / fuzzers (pgregory.net/rapid) run in 8-16 parallel shards seeded from VERIF_SEED; see DESIGN.md.",
}
json.dump(m, open("MANIFEST.json", "w"), indent=1)
print("claimed:", sorted(CHECKS), "not yet:", [x["property_id"] for x in na])
