#!/usr/bin/env python3
"""Regenerates known_findings.json. Fixed entries name the fix: commit in /repo (looked up by its
subject line); open entries are the known findings the checks tolerate (narrowly)."""
import json, os, subprocess
V = os.path.dirname(os.path.dirname(os.path.abspath(__file__)))
log = subprocess.check_output(["git", "-C", "/repo", "log", "--format=%h %s"]).decode().splitlines()
def commit(sub):
    for l in log:
        if sub in l:
            return l.split()[0]
    raise SystemExit("no commit for: " + sub)

FIXED = [
 # (id, property, replay, commit subject substring, what failed, also)
 ("C10-record-as-sequence", "C10", "replays/C10/record-as-sequence.json", "when a !record is given as a sequence", "`X: !record [a]` panics (index out of range)"),
 ("C10-protocol-as-sequence", "C10", "replays/C10/protocol-as-sequence.json", "when a !protocol is given as a sequence", "`P: !protocol [a]` panics"),
 ("C10-enum-as-sequence", "C10", "replays/C10/enum-as-sequence.json", "when an !enum or !flags is given as a sequence", "`E: !enum [a]` panics"),
 ("C10-generic-as-sequence", "C10", "replays/C10/generic-as-sequence.json", "when a !generic is given as a sequence", "`A: !generic [a]` panics"),
 ("C10-seq-tag-on-scalar", "C10", "replays/C10/seq-tag-on-scalar.json", "unbounded recursion on a node tagged !!seq", "`A: !!seq \"x\"` overflows the stack"),
 ("C10-enum-value-not-integer", "C10", "replays/C10/enum-value-not-integer.json", "give integer parse errors", "non-integer enum value / vector length / dimension reported without a line"),
 ("C10-vector-length-not-integer", "C10", "replays/C10/vector-length-not-integer.json", "give integer parse errors", "non-integer vector length reported without a line"),
 ("C10-dimension-count-negative", "C10", "replays/C10/dimension-count-negative.json", "negative or absurdly large array dimension count", "`dimensions: -1` panics (makeslice)"),
 ("C10-dimension-count-huge", "C10", "replays/C10/dimension-count-huge.json", "negative or absurdly large array dimension count", "`dimensions: 99999999999` exhausts memory"),
 ("C10-expr-subscript-after-as", "C10", "replays/C10/expr-subscript-after-as.json", "looping forever on a subscript", "computed field `a as int[` never terminates"),
 ("C10-expr-bad-int-literal", "C10", "replays/C10/expr-bad-int-literal.json", "invalid integer literal in an expression", "integer literal `0999...` in an expression panics"),
 ("C10-null-type-name", "C10", "replays/C10/null-type-name.json", "type definition has a null name", "definition with a null name panics"),
 ("C10-generic-null-argument", "C10", "replays/C10/generic-null-argument.json", "null type argument of a !generic", "null !generic argument panics"),
 ("C10-union-of-single-null-case", "C10", "replays/C10/union-of-single-null-case.json", "underlying type is null without panicking", "`[[null], T]` panics in TypesEqual"),
 ("C10-ndjson-union-case-alias-of-optional", "C10", "replays/C10/ndjson-union-case-alias-of-optional.json", "alias of an optional or union instead of panicking", "accepted model whose union case is an alias of an optional makes `generate` panic"),
 ("C10-map-tag-on-sequence", "C10", "replays/C10/map-tag-on-sequence.json", "explicit !!map tag", "`fields: !!map [a]` panics"),
 ("C10-enum-values-map-tag-on-sequence", "C10", "replays/C10/enum-values-map-tag-on-sequence.json", "explicit !!map tag", "`values: !!map [a]` panics"),
 ("C10-cf-vector-index-no-args", "C10", "replays/C10/cf-vector-index-no-args.json", "wrong number of arguments", "computed field `fv[]` on a fixed vector panics"),
 ("C10-cf-map-index-no-args", "C10", "replays/C10/cf-map-index-no-args.json", "wrong number of arguments", "computed field `m[]` on a map panics"),
 ("C10-cf-labeled-index-unnamed-dims", "C10", "replays/C10/cf-labeled-index-unnamed-dims.json", "labeled index into an array with unnamed dimensions", "`a[x:0, y:1]` on `int[,]` panics"),
 ("C10-cf-map-lookup-wrong-type", "C10", "replays/C10/cf-map-lookup-wrong-type.json", "file position to index-argument errors", "error printed as ':0:0:' with no file"),
 ("C09-import-parse-error-swallowed", "C09", "replays/C09/import-parse-error-swallowed.json", "propagate parse errors from imported packages", "parse error in an imported package is dropped: exit 0 and code is generated", ["C11"]),
 ("C09-stream-nested-in-vector", "C09", "replays/C09/stream-nested-in-vector.json", "reject a !stream nested inside", "!stream nested in a vector/optional/map/stream step accepted"),
 ("C09-stream-nested-in-generic-arg", "C09", "replays/C09/stream-nested-in-generic-arg.json", "reject a !stream nested inside", "!stream nested in a generic argument of a step accepted"),
 ("C09-union-in-generic-arg", "C09", "replays/C09/union-duplicate-case-in-generic-arg.json", "validate unions that appear inside generic type arguments", "ill-formed union inside a generic argument accepted"),
 ("C09-map-key-named-record", "C09", "replays/C09/map-key-named-record.json", "reject map keys that resolve to a non-primitive", "named non-primitive map key accepted"),
 ("C09-map-key-generic-arg-record", "C09", "replays/C09/map-key-generic-arg-record.json", "reject map keys that resolve to a non-primitive", "non-primitive map key supplied through a generic argument accepted"),
]
OPEN = [
 {"id": "C10-yaml-error-without-line", "property": "C10", "status": "open",
  "what": "a YAML error for which the YAML library reports no position (syntax error on the first line of a model file, control character or invalid UTF-8 anywhere) is printed as '<file>: yaml: ...' without a line number",
  "replay": "replays/C10/yaml-error-without-line.json"},
]
extra = os.path.join(V, "tools", "findings_extra.json")
if os.path.exists(extra):
    e = json.load(open(extra))
    FIXED += [tuple(x) for x in e.get("fixed", [])]
    OPEN += e.get("open", [])
out = list(OPEN)
for f in FIXED:
    fid, prop, replay, sub, what = f[:5]
    c = commit(sub)
    d = {"id": fid, "property": prop, "status": "fixed", "commit": c, "what": what, "replay": replay,
         "record": "fixed: property=%s %s %s" % (prop, c, what)}
    if len(f) > 5:
        d["also"] = f[5]
    out.append(d)
for o in OPEN:
    o.setdefault("record", "open: property=%s %s" % (o["property"], o["what"]))
json.dump({"findings": out}, open(os.path.join(V, "known_findings.json"), "w"), indent=1)
print(len(out), "findings")
