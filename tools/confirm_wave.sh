#!/bin/sh
# usage: tools/confirm_wave.sh <suffix e.g. m5> [ids...]
# For each seeded/<ID>-<suffix>: in a scratch worktree of /repo HEAD, check that the patch applies, builds and passes
# the existing tests, then run the sub-agent's demonstration with the patched and with the unpatched binary.
suffix=$1; shift
ids="$*"
[ -n "$ids" ] || ids=$(cd seeded && ls -d C*-$suffix | sed "s/-$suffix//")
export GOFLAGS=-mod=mod GOPROXY=off
wt=/var/tmp/confirm-wt; bin=/var/tmp/confirm-bin; mkdir -p $bin
git -C /repo worktree remove --force $wt 2>/dev/null
git -C /repo worktree add -q --detach $wt HEAD || exit 2
(cd $wt/tooling && go build -o $bin/yardl-orig ./cmd/yardl) || exit 2
for id in $ids; do
  d=$(pwd)/seeded/$id-$suffix
  git -C $wt checkout -- . ; git -C $wt clean -fdq
  if ! git -C $wt apply $d/patch.diff 2>/dev/null; then echo "$id APPLY-FAILED"; continue; fi
  if ! (cd $wt/tooling && go build ./... && go build -o $bin/yardl-mut ./cmd/yardl) >/dev/null 2>&1; then echo "$id BUILD-FAILED"; continue; fi
  t=$(cd $wt/tooling && go test -vet=off -count=1 ./... 2>&1)
  if echo "$t" | grep -q "^FAIL\|^--- FAIL"; then echo "$id TESTS-FAILED"; continue; fi
  scratch=/var/tmp/confirm-demo; rm -rf $scratch; cp -r $d/demo $scratch
  (cd $scratch && HOME=/var/tmp/confirm-home timeout 900 bash ./run.sh $bin/yardl-mut >/var/tmp/confirm-mut.log 2>&1); rm=$?
  rm -rf $scratch; cp -r $d/demo $scratch
  (cd $scratch && HOME=/var/tmp/confirm-home timeout 900 bash ./run.sh $bin/yardl-orig >/var/tmp/confirm-orig.log 2>&1); ro=$?
  rm -rf $scratch
  echo "$id applies,builds,tests-pass demo-with-patch=$rm demo-without=$ro"
done
git -C /repo worktree remove --force $wt
rm -rf $bin /var/tmp/confirm-home
