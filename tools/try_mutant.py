#!/usr/bin/env python3
"""Sensitivity experiment: apply a patch to /repo, run checks against the broken tree, undo it.

usage: tools/try_mutant.py <patch.diff> <property-id> [<property-id> ...] [--tier quick|thorough] [-R]

-R applies the patch in reverse (used to re-introduce a defect that a "fix:" commit repaired).
Evidence and replay files of these runs go to /var/tmp/verif-mutant-out (VERIF_OUT), never to
/verif. Exit status: 0 if at least one check reported a violation (mutant caught), 1 if none did.
"""
import os
import subprocess
import sys

VERIF = os.path.dirname(os.path.dirname(os.path.abspath(__file__)))
REPO = os.environ.get("VERIF_REPO", "/repo")


def sh(*a, **kw):
    return subprocess.run(a, stdout=subprocess.PIPE, stderr=subprocess.STDOUT, text=True, **kw)


def main():
    args = sys.argv[1:]
    tier = "quick"
    reverse = False
    if "--tier" in args:
        i = args.index("--tier")
        tier = args[i + 1]
        del args[i:i + 2]
    if "-R" in args:
        reverse = True
        args.remove("-R")
    patch, ids = os.path.abspath(args[0]), args[1:]
    if sh("git", "-C", REPO, "status", "--porcelain").stdout.strip():
        print("refusing: %s has uncommitted changes" % REPO)
        return 2
    ap = ["git", "-C", REPO, "apply"] + (["-R"] if reverse else []) + [patch]
    r = sh(*ap)
    if r.returncode != 0:
        print("patch does not apply:\n" + r.stdout)
        return 2
    caught = False
    out = os.environ.get("VERIF_OUT", "/var/tmp/verif-mutant-out")
    try:
        for pid in ids:
            env = dict(os.environ, VERIF_OUT=out)
            r = sh(os.path.join(VERIF, "verif"), "check", pid, "--tier", tier, env=env)
            lines = r.stdout.strip().splitlines()
            viol = [l for l in lines if l.startswith("VIOLATION")]
            print("%s: exit %d | %s" % (pid, r.returncode, lines[-1] if lines else ""))
            for v in viol[:3]:
                print("   " + v)
            if r.returncode == 1 and viol:
                caught = True
            if r.returncode == 2:
                print("   (harness trouble)\n   " + "\n   ".join(lines[-6:]))
    finally:
        sh("git", "-C", REPO, "checkout", "--", ".")
        sh("git", "-C", REPO, "clean", "-fdq")
    print("CAUGHT" if caught else "MISSED")
    return 0 if caught else 1


if __name__ == "__main__":
    sys.exit(main())
