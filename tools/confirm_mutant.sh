#!/bin/sh
# usage: tools/confirm_mutant.sh <mutant-dir>   (contains patch.diff)
# Confirms in a scratch worktree of /repo that the patch applies, builds and passes the existing tests.
set -u
d=$(cd "$1" && pwd)
wt=/tmp/confirm-wt-$$
export GOFLAGS=-mod=mod GOPROXY=off GOTOOLCHAIN=local PATH=/root/go/pkg/mod/golang.org/toolchain@v0.0.1-go1.24.0.linux-amd64/bin:$PATH
git -C /repo worktree add -q --detach "$wt" HEAD || exit 2
trap 'git -C /repo worktree remove --force "$wt"' EXIT
git -C "$wt" apply "$d/patch.diff" || { echo "APPLY-FAILED $d"; exit 1; }
(cd "$wt/tooling" && go build ./... ) || { echo "BUILD-FAILED $d"; exit 1; }
out=$(cd "$wt/tooling" && go test -vet=off -count=1 ./... 2>&1)
if echo "$out" | grep -q "^FAIL\|^--- FAIL"; then echo "TESTS-FAILED $d"; echo "$out" | grep -a "FAIL" | head; exit 1; fi
echo "CONFIRMED(applies,builds,tests-pass) $d: $(git -C "$wt" diff --stat | tail -1)"
