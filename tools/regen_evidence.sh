#!/bin/sh
# Re-runs every quick check with the default seed so the committed evidence files describe
# exactly what a fresh quick run produces.
cd "$(dirname "$0")/.." || exit 2
unset VERIF_CHECKS VERIF_SHARDS VERIF_LEG VERIF_IGNORE_KNOWN VERIF_SCALE
export VERIF_SEED=1 VERIF_TIER=quick
rc=0
for p in C01 C02 C03 C04 C05 C06 C07 C08 C09 C10 C11 C12 C13 C14 C15 C16 C17 C18 C19 C20; do
  ./verif check $p --tier quick 2>&1 | tail -1
  [ ${PIPESTATUS:-0} -eq 0 ] || rc=1
done
exit $rc
