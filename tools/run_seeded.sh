#!/bin/sh
# Runs, for every seeded change, the check(s) recorded for it in seeded/RESULTS.tsv (column 2) at the
# quick tier and prints one line per change. Applies each patch to /repo and reverts it afterwards.
cd "$(dirname "$0")/.." || exit 2
grep -v "^#" "${1:-seeded/RESULTS.tsv}" | while IFS="$(printf '\t')" read -r id check tier result note; do
  [ -n "$id" ] || continue
  out=$(tools/try_mutant.py seeded/$id/patch.diff $check 2>&1 | tail -1)
  echo "$id $check -> $out"
done
