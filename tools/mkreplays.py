#!/usr/bin/env python3
"""Writes the hand-minimised replay files of findings that were repaired by fix: commits
(and of open findings whose replay is small enough to write by hand)."""
import json, os
V = os.path.dirname(os.path.dirname(os.path.abspath(__file__)))
MAN = "namespace: Main\n"
GEN = MAN + "json:\n  outputDir: ../out/json\npython:\n  outputDir: ../out/py\ncpp:\n  sourcesOutputDir: ../out/cpp\n  generateHDF5: false\nmatlab:\n  outputDir: ../out/m\n"
HOST = """Inner: !record
  fields:
    b: int
Host: !record
  fields:
    a: int
    v: int*
    fv: int*3
    unarr: int[,]
    m: string->int
  computedFields:
    c0: "%s"
"""

def w(prop, name, check, case, msg):
    d = os.path.join(V, "replays", prop)
    os.makedirs(d, exist_ok=True)
    json.dump({"property": prop, "check": check, "message": msg, "case": case}, open(os.path.join(d, name + ".json"), "w"), indent=1)

def c10(name, model, msg, cmd="validate", gen="hand"):
    w("C10", name, "c10", {"gen": gen, "cmd": cmd, "layout": {"main": {"_package.yml": GEN if cmd == "generate" else MAN, "m.yml": model}}}, msg)

c10("record-as-sequence", "X: !record [a]\n", "panic: index out of range in RecordDefinition.UnmarshalYAML")
c10("protocol-as-sequence", "P: !protocol [a]\n", "panic: index out of range in ProtocolDefinition.UnmarshalYAML")
c10("enum-as-sequence", "E: !enum [a]\n", "panic: index out of range in EnumDefinition.UnmarshalYAML")
c10("generic-as-sequence", "A: !generic [a]\n", "panic: index out of range in UnmarshalGenericNode")
c10("seq-tag-on-scalar", "A: !!seq \"x\"\n", "fatal error: stack overflow (UnmarshalTypeYAML <-> UnmarshalTypeCases)")
c10("enum-value-not-integer", "E: !enum\n  values:\n    a: 1\n    b: red\n", "error 'math/big: cannot unmarshal' without a line")
c10("vector-length-not-integer", "A: !vector\n  items: int\n  length: abc\n", "error without a line")
c10("dimension-count-negative", "A: !array\n  items: int\n  dimensions: -1\n", "panic: makeslice: len out of range")
c10("dimension-count-huge", "A: !array\n  items: int\n  dimensions: 99999999999\n", "fatal error: out of memory")
c10("expr-subscript-after-as", HOST % "a as int[", "parser loops forever")
c10("expr-bad-int-literal", HOST % "099999999999999999999", "panic: unexpected error type")
c10("null-type-name", "null: int\n", "panic: nil pointer dereference (definition without a name)")
c10("generic-null-argument", "G<T>: T*\nA: !generic\n  name: G\n  args:\n    -\n", "panic: nil pointer dereference")
c10("union-of-single-null-case", "A<T>: [[null], T]\n", "panic: unexpected type <nil> in TypesEqual")
c10("ndjson-union-case-alias-of-optional", "O: uint8?\nR: !record\n  fields:\n    u: [null, float64, O, int16]\nP: !protocol\n  sequence:\n    r: R\n", "panic: unexpected union type (GetJsonDataType)", cmd="generate")
c10("map-tag-on-sequence", "R: !record\n  fields: !!map [a]\n", "panic: index out of range in UnmarshalFieldsOrProtocolStepsYAML")
c10("enum-values-map-tag-on-sequence", "E: !enum\n  values: !!map [a]\n", "panic: index out of range in UnmarshalEnumValues")
c10("cf-vector-index-no-args", HOST % "fv[]", "panic: index out of range in resolveComputedFields")
c10("cf-map-index-no-args", HOST % "m[]", "panic: index out of range in resolveComputedFields")
c10("cf-labeled-index-unnamed-dims", HOST % "unarr[x:0, y:1]", "panic: nil pointer dereference in resolveComputedFields")
c10("cf-map-lookup-wrong-type", HOST % "m[a]", "error printed as ':0:0:' without a file")

def c09(name, rule, where, nesting, bad_dir, layout, control, msg, cmd="validate"):
    w("C09", name, "c09", {"rule": rule, "where": where, "nesting": nesting, "bad_dir": bad_dir, "layout": layout, "control": control, "cmd": cmd, "manifest": ""}, msg)

IMP_OK = {"_package.yml": "namespace: Imp\n", "i.yml": "Q: !record\n  fields:\n    a: int\n"}
MAIN_IMP = {"_package.yml": "namespace: Main\nimports:\n  - ../imp\n", "m.yml": "R: !record\n  fields:\n    q: Imp.Q\nP: !protocol\n  sequence:\n    r: R\n"}
c09("import-parse-error-swallowed", "bad-type-name", "import", "file0", "imp",
    {"main": MAIN_IMP, "imp": {"_package.yml": "namespace: Imp\n", "i.yml": "Q: !record\n  fields:\n    a: int\nX-y: int\n"}},
    {"main": MAIN_IMP, "imp": IMP_OK}, "a parse error in an imported package is dropped: exit 0")
def one(model):
    return {"main": {"_package.yml": MAN, "m.yml": model}}
BASE = "G<T>: !record\n  fields:\n    t: T\nR: !record\n  fields:\n    a: int\n"
c09("stream-nested-in-vector", "stream-nested", "main", "vector,step,file0", "main",
    one(BASE + "P: !protocol\n  sequence:\n    s: !vector\n      items: !stream\n        items: int\n"), one(BASE + "P: !protocol\n  sequence:\n    s: int*\n"), "stream nested in a vector step accepted")
c09("stream-nested-in-generic-arg", "stream-nested", "main", "genericarg,step,file0", "main",
    one(BASE + "P: !protocol\n  sequence:\n    s: !generic\n      name: G\n      args:\n        - !stream\n          items: int\n"), one(BASE + "P: !protocol\n  sequence:\n    s: G<int>\n"), "stream nested in a generic argument accepted")
c09("union-duplicate-case-in-generic-arg", "union-duplicate-case", "main", "genericarg,alias,file0", "main",
    one(BASE + "A: !generic\n  name: G\n  args:\n    - [int, bool, int]\n"), one(BASE + "A: G<int>\n"), "duplicate union case inside a generic argument accepted")
c09("map-key-named-record", "map-key-named-record", "main", "alias,file0", "main",
    one(BASE + "M: R->int\n"), one(BASE + "M: string->int\n"), "record used as a map key through its name accepted")
c09("map-key-generic-arg-record", "map-key-named-record", "main", "genericarg,alias,file0", "main",
    one(BASE + "GM<K, V>: K->V\nM: GM<R, int>\n"), one(BASE + "GM<K, V>: K->V\nM: GM<string, int>\n"), "record supplied as the key argument of a generic map accepted")
print("ok")
