#!/usr/bin/env python3
"""Copies the verdicts of seeded/RESULTS.tsv into each seeded/<id>/meta.json (field "verification").

RESULTS.tsv is the hand-kept record (mutant, check that catches it, tier/budget, result, note);
an optional log of tools/run_seeded.sh (lines "<id> <check> -> CAUGHT|MISSED") given as argv[1]
is recorded as the outcome of the latest complete re-run at the quick tier.
"""
import json
import os
import sys

ROOT = os.path.dirname(os.path.dirname(os.path.abspath(__file__)))
rerun = {}
if len(sys.argv) > 1:
    for line in open(sys.argv[1]):
        p = line.split()
        if len(p) >= 4 and p[2] == "->":
            rerun[p[0]] = p[3]
for line in open(os.path.join(ROOT, "seeded", "RESULTS.tsv")):
    if line.startswith("#") or not line.strip():
        continue
    f = line.rstrip("\n").split("\t")
    mid, check, tier, result, note = (f + [""] * 5)[:5]
    mp = os.path.join(ROOT, "seeded", mid, "meta.json")
    try:
        meta = json.load(open(mp))
    except (OSError, ValueError):
        meta = {}
    meta["verification"] = {
        "confirmed": "patch applies to the tree it was written against, builds, and the pinned suite (435 tests) passes with it (tools/confirm_mutant.sh)",
        "caught_by": check,
        "budget": tier,
        "result": result,
        "how": note,
    }
    if mid in rerun:
        meta["verification"]["latest_quick_rerun"] = rerun[mid]
    json.dump(meta, open(mp, "w"), indent=1)
    print(mid, check, result, rerun.get(mid, ""))
