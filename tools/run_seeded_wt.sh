#!/bin/sh
# Like run_seeded.sh, but against a scratch worktree of /repo (so /repo itself stays untouched and
# other work can go on): tools/run_seeded_wt.sh <table.tsv> [<worktree dir>]
cd "$(dirname "$0")/.." || exit 2
tab="${1:-seeded/RESULTS.tsv}"
wt="${2:-/var/tmp/verif-mutwt}"
git -C /repo worktree remove --force "$wt" 2>/dev/null
git -C /repo worktree add --detach "$wt" HEAD >/dev/null 2>&1 || exit 2
export VERIF_REPO="$wt" VERIF_WORK="${wt}-work" VERIF_OUT="${wt}-out"
grep -v "^#" "$tab" | while IFS="$(printf '\t')" read -r id check tier result note; do
  [ -n "$id" ] || continue
  out=$(tools/try_mutant.py seeded/$id/patch.diff $check 2>&1 | tail -1)
  echo "$id $check -> $out"
done
git -C /repo worktree remove --force "$wt"
rm -rf "${wt}-work"
