#!/bin/sh
# ad-hoc sensitivity run in a second scratch worktree (kept between calls, reset to /repo HEAD each time):
#   tools/mut2.sh <patch.diff> <ID> [<ID>...] [--tier T]
cd "$(dirname "$0")/.." || exit 2
wt="${MUT_WT:-/var/tmp/verif-mutwt2}"
if [ ! -d "$wt" ]; then git -C /repo worktree add --detach "$wt" HEAD >/dev/null 2>&1 || exit 2; fi
git -C "$wt" checkout -q --detach "$(git -C /repo rev-parse HEAD)" && git -C "$wt" checkout -- . && git -C "$wt" clean -fdq
VERIF_REPO="$wt" VERIF_WORK="${wt}-work" VERIF_OUT="${wt}-out" tools/try_mutant.py "$@"
