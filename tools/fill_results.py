#!/usr/bin/env python3
"""usage: tools/fill_results.py <table.tsv> <run log>
Copies the outcome of a tools/run_seeded*.sh run (lines "<id> <checks> -> CAUGHT|MISSED|...") into the
result column of the table, and into seeded/<id>/meta.json (field "verification")."""
import json, os, sys
ROOT = os.path.dirname(os.path.dirname(os.path.abspath(__file__)))
tab, log = sys.argv[1], sys.argv[2]
res = {}
for line in open(log):
    p = line.split()
    if "->" in p:
        res[p[0]] = " ".join(p[p.index("->") + 1:])
out = []
for line in open(tab):
    if line.startswith("#") or not line.strip():
        out.append(line)
        continue
    f = (line.rstrip("\n").split("\t") + [""] * 5)[:5]
    if f[0] in res:
        f[3] = {"CAUGHT": "caught", "MISSED": "missed"}.get(res[f[0]], res[f[0]])
    out.append("\t".join(f) + "\n")
    mp = os.path.join(ROOT, "seeded", f[0], "meta.json")
    try:
        meta = json.load(open(mp))
    except (OSError, ValueError):
        meta = {}
    meta["verification"] = {
        "confirmed": "patch applies, builds, the pinned suite passes with it, the demonstration fails with it and passes without (tools/confirm_wave.sh / confirm_mutant.sh)",
        "caught_by": f[1], "budget": f[2], "result": f[3], "how": f[4],
    }
    json.dump(meta, open(mp, "w"), indent=1)
open(tab, "w").writelines(out)
print("updated", tab, "from", log, ":", sum(1 for v in res.values() if v == "CAUGHT"), "caught,", sum(1 for v in res.values() if v == "MISSED"), "missed")
