#!/bin/sh
# usage: tools/import_wave.sh <src root e.g. /tmp/w5> <suffix e.g. m7> <ID>...
# copies a sub-agent's deliverables into seeded/<ID>-<suffix>/ (no binaries, no build output)
src=$1; suffix=$2; shift 2
for id in "$@"; do
  d=seeded/$id-$suffix; mkdir -p $d
  cp $src/$id/patch.diff $src/$id/meta.json $d/ 2>/dev/null
  cp $src/$id/demo.md $d/ 2>/dev/null
  rm -rf $d/demo; cp -r $src/$id/demo $d/demo
  find $d/demo -type f \( -name 'yardl-*' -o -name '*.o' -o -name '*.pyc' -o -perm -u+x -size +200k \) -delete
  find $d/demo -type d -name __pycache__ -prune -exec rm -rf {} +
  du -sh $d | tr '\n' ' '; echo
done
