// Package core is the plumbing shared by all checks: evidence counters, violation/replay
// files, known-finding matching, seeds.
package core

import (
	"crypto/sha256"
	"encoding/binary"
	"encoding/json"
	"fmt"
	"os"
	"path/filepath"
	"sort"
	"strconv"
	"strings"
	"sync"
	"time"
)

// ---------------------------------------------------------------------------------------
// Known findings (committed file, never written at run time)

type Finding struct {
	ID       string `json:"id"`
	Property string `json:"property"`
	Status   string `json:"status"` // "open" or "fixed"
	What     string `json:"what"`
	Replay   string `json:"replay,omitempty"`
	Commit   string `json:"commit,omitempty"`
	// Also lists further properties whose checks trip over the same root cause.
	Also []string `json:"also,omitempty"`
}

type FindingsFile struct {
	Findings []Finding `json:"findings"`
}

var (
	findingsOnce sync.Once
	findings     map[string]Finding
)

func VerifDir() string {
	if v := os.Getenv("VERIF_DIR"); v != "" {
		return v
	}
	return "/verif"
}

func loadFindings() {
	findings = map[string]Finding{}
	data, err := os.ReadFile(filepath.Join(VerifDir(), "known_findings.json"))
	if err != nil {
		return
	}
	var ff FindingsFile
	if err := json.Unmarshal(data, &ff); err != nil {
		panic("known_findings.json: " + err.Error())
	}
	for _, f := range ff.Findings {
		findings[f.ID] = f
	}
}

// Open reports whether finding id is listed as open (i.e. known and not fixed).
// VERIF_IGNORE_KNOWN=1 makes every finding count as not listed (used when measuring what the
// checks see on the raw tree).
func Open(id string) bool {
	findingsOnce.Do(loadFindings)
	if os.Getenv("VERIF_IGNORE_KNOWN") == "1" {
		return false
	}
	f, ok := findings[id]
	return ok && f.Status == "open"
}

func AllFindings() []Finding {
	findingsOnce.Do(loadFindings)
	var out []Finding
	for _, f := range findings {
		out = append(out, f)
	}
	sort.Slice(out, func(i, j int) bool { return out[i].ID < out[j].ID })
	return out
}

// ---------------------------------------------------------------------------------------
// Recorder

type Violation struct {
	Property string `json:"property"`
	Check    string `json:"check"`
	Message  string `json:"message"`
	Replay   string `json:"replay"`
}

type Recorder struct {
	mu          sync.Mutex
	Property    string
	Rule        string
	evaluations int64
	nontrivial  map[uint64]struct{}
	classes     map[string]int64
	samples     []any
	maxSamples  int
	known       map[string]int64
	knownWhat   map[string]string
	violations  []Violation
	skipped     map[string]int64
	notes       []string
	exhaustive  bool
	start       time.Time
	assumptions []string
}

var (
	recMu sync.Mutex
	recs  = map[string]*Recorder{}
)

// Rec returns the recorder of a property (one per test process and property).
func Rec(property string) *Recorder {
	recMu.Lock()
	defer recMu.Unlock()
	r, ok := recs[property]
	if !ok {
		r = &Recorder{Property: property, nontrivial: map[uint64]struct{}{}, classes: map[string]int64{},
			known: map[string]int64{}, knownWhat: map[string]string{}, skipped: map[string]int64{}, maxSamples: 4, start: time.Now()}
		recs[property] = r
	}
	return r
}

func (r *Recorder) SetRule(s string) {
	r.mu.Lock()
	r.Rule = s
	r.mu.Unlock()
}

func (r *Recorder) Assume(s ...string) {
	r.mu.Lock()
	r.assumptions = s
	r.mu.Unlock()
}

func (r *Recorder) Eval() {
	r.mu.Lock()
	r.evaluations++
	r.mu.Unlock()
}

func (r *Recorder) EvalN(n int) {
	r.mu.Lock()
	r.evaluations += int64(n)
	r.mu.Unlock()
}

func Hash(parts ...any) uint64 {
	h := sha256.New()
	for _, p := range parts {
		switch v := p.(type) {
		case string:
			h.Write([]byte(v))
		case []byte:
			h.Write(v)
		default:
			b, _ := json.Marshal(v)
			h.Write(b)
		}
		h.Write([]byte{0})
	}
	return binary.LittleEndian.Uint64(h.Sum(nil)[:8])
}

// Nontrivial registers a distinct non-trivial case by the hash of its canonical content.
func (r *Recorder) Nontrivial(key uint64) {
	r.mu.Lock()
	r.nontrivial[key] = struct{}{}
	r.mu.Unlock()
}

func (r *Recorder) Class(name string) {
	r.mu.Lock()
	r.classes[name]++
	r.mu.Unlock()
}

func (r *Recorder) ClassN(name string, n int) {
	r.mu.Lock()
	r.classes[name] += int64(n)
	r.mu.Unlock()
}

func (r *Recorder) Skip(leg string) {
	r.mu.Lock()
	r.skipped[leg]++
	r.mu.Unlock()
}

func (r *Recorder) Note(s string) {
	r.mu.Lock()
	if len(r.notes) < 20 {
		r.notes = append(r.notes, s)
	}
	r.mu.Unlock()
}

func (r *Recorder) Exhaustive() {
	r.mu.Lock()
	r.exhaustive = true
	r.mu.Unlock()
}

// Sample keeps a few actual cases (first ones plus reservoir-free: keeps the first maxSamples
// non-trivial ones offered).
func (r *Recorder) Sample(s any) {
	r.mu.Lock()
	if len(r.samples) < r.maxSamples {
		r.samples = append(r.samples, s)
	}
	r.mu.Unlock()
}

// Known records a hit of an open known finding (not a violation).
func (r *Recorder) Known(id, what string) {
	r.mu.Lock()
	r.known[id]++
	r.knownWhat[id] = what
	r.mu.Unlock()
}

// Violate writes the replay file and records the violation. It returns the message so callers
// can pass it to t.Fatalf.
func (r *Recorder) Violate(check string, c any, format string, args ...any) string {
	msg := fmt.Sprintf(format, args...)
	dir := os.Getenv("VERIF_REPLAY_OUT")
	if dir == "" {
		dir = filepath.Join(VerifDir(), "replays", "new")
	}
	os.MkdirAll(dir, 0o755)
	shard := os.Getenv("VERIF_SHARD")
	path := filepath.Join(dir, fmt.Sprintf("%s-%s-s%s.json", r.Property, check, shard))
	body := map[string]any{"property": r.Property, "check": check, "message": msg, "case": c}
	data, _ := json.MarshalIndent(body, "", " ")
	os.WriteFile(path, data, 0o644)
	r.mu.Lock()
	// one entry per check: later (shrunk) failures overwrite earlier ones
	replaced := false
	for i := range r.violations {
		if r.violations[i].Check == check {
			r.violations[i] = Violation{r.Property, check, msg, path}
			replaced = true
		}
	}
	if !replaced {
		r.violations = append(r.violations, Violation{r.Property, check, msg, path})
	}
	r.mu.Unlock()
	return msg
}

// ShardOut is what one test process reports to the runner.
type ShardOut struct {
	Property    string            `json:"property"`
	Rule        string            `json:"rule"`
	Evaluations int64             `json:"evaluations"`
	Nontrivial  []uint64          `json:"nontrivial"`
	Classes     map[string]int64  `json:"classes"`
	Samples     []any             `json:"samples"`
	Known       map[string]int64  `json:"known"`
	KnownWhat   map[string]string `json:"known_what"`
	Violations  []Violation       `json:"violations"`
	Skipped     map[string]int64  `json:"skipped"`
	Notes       []string          `json:"notes"`
	Exhaustive  bool              `json:"exhaustive"`
	Assumptions []string          `json:"assumptions"`
	WallS       float64           `json:"wall_s"`
}

// Flush writes all recorders to $VERIF_SHARD_OUT (a directory), one file per property.
func Flush() {
	dir := os.Getenv("VERIF_SHARD_OUT")
	if dir == "" {
		return
	}
	os.MkdirAll(dir, 0o755)
	recMu.Lock()
	defer recMu.Unlock()
	for _, r := range recs {
		r.mu.Lock()
		out := ShardOut{Property: r.Property, Rule: r.Rule, Evaluations: r.evaluations, Classes: r.classes,
			Samples: r.samples, Known: r.known, KnownWhat: r.knownWhat, Violations: r.violations, Skipped: r.skipped,
			Notes: r.notes, Exhaustive: r.exhaustive, Assumptions: r.assumptions, WallS: time.Since(r.start).Seconds()}
		for k := range r.nontrivial {
			out.Nontrivial = append(out.Nontrivial, k)
		}
		r.mu.Unlock()
		data, _ := json.Marshal(out)
		os.WriteFile(filepath.Join(dir, fmt.Sprintf("%s-shard%s.json", r.Property, os.Getenv("VERIF_SHARD"))), data, 0o644)
	}
}

// ---------------------------------------------------------------------------------------

func Tier() string {
	if v := os.Getenv("VERIF_TIER"); v != "" {
		return v
	}
	return "quick"
}

func Thorough() bool { return Tier() == "thorough" }

// Budget returns quick or thorough value, scaled by VERIF_SCALE (percent) if present.
func Budget(quick, thorough int) int {
	n := quick
	if Thorough() {
		n = thorough
	}
	if v := os.Getenv("VERIF_SCALE"); v != "" {
		if f, err := strconv.ParseFloat(v, 64); err == nil {
			n = int(float64(n) * f)
			if n < 1 {
				n = 1
			}
		}
	}
	return n
}

func Trunc(s string, n int) string {
	if len(s) <= n {
		return s
	}
	return s[:n] + fmt.Sprintf("…(+%d bytes)", len(s)-n)
}

func Lines(s string) []string {
	return strings.Split(strings.TrimRight(s, "\n"), "\n")
}
