package model

import (
	"fmt"

	"pgregory.net/rapid"
)

// EvoEdit is one schema-evolution edit, classified as docs/cpp/evolution.md classifies it.
//
//	compatible: accepted, no diagnostics
//	warning:    accepted ("partially compatible"), at least one warning
//	error:      rejected ("incompatible")
//
// Apply edits p in place (p is the NEW version; the caller keeps the old one) and reports
// where it was applied, or ok=false when the edit has no applicable position in p.
type EvoEdit struct {
	Name  string
	Class string
	Apply func(t *rapid.T, p *Package, env *Env) (where string, ok bool)
}

func pickInt(t *rapid.T, label string, n int) int {
	if n <= 1 {
		return 0
	}
	return rapid.IntRange(0, n-1).Draw(t, label)
}

// reachableDefs lists p's own definitions of the given kind that some protocol of p uses.
func reachableDefs(p *Package, env *Env, kind DefKind) []*Def {
	r := env.Reachable(p.Protocols()...)
	var out []*Def
	for _, d := range p.Defs {
		if d.Kind == kind && r[p.Namespace+"."+d.Name] {
			out = append(out, d)
		}
	}
	return out
}

// fieldSlots: (def, field index) of record fields reachable from a protocol and of protocol steps.
type fieldPos struct {
	Def *Def
	Idx int
}

func fieldPositions(p *Package, env *Env, records, steps bool) []fieldPos {
	var out []fieldPos
	if records {
		for _, d := range reachableDefs(p, env, DRecord) {
			for i := range d.Fields {
				out = append(out, fieldPos{d, i})
			}
		}
	}
	if steps {
		for _, d := range p.Protocols() {
			for i := range d.Fields {
				out = append(out, fieldPos{d, i})
			}
		}
	}
	return out
}

// payload returns a pointer-ish accessor to the "value type" of a field or step: for a stream
// step the item type, otherwise the type itself.
func payload(f *Field) (get func() *Type, set func(*Type)) {
	if f.Type.Kind == KStream {
		return func() *Type { return f.Type.Elem }, func(x *Type) { f.Type.Elem = x }
	}
	return func() *Type { return f.Type }, func(x *Type) { f.Type = x }
}

// lastNumericChange: "from->to" of the most recent change-numeric-primitive edit (for the evidence histogram).
var lastNumericChange string

// LastNumericChange returns and clears the record of the most recent numeric primitive change.
func LastNumericChange() string { s := lastNumericChange; lastNumericChange = ""; return s }

var numericChain = map[string][]string{
	"int8": {"int16", "int32", "int64", "float32", "float64"}, "int16": {"int32", "int64", "float64", "int8"}, "int32": {"int64", "float64", "int16", "uint32", "size"},
	"int64": {"int32", "float64", "uint64", "size"}, "uint8": {"uint16", "uint32", "int16", "size"}, "uint16": {"uint32", "int32", "uint8"}, "uint32": {"uint64", "int64", "float64", "size"},
	"uint64": {"uint32", "int64", "float64", "size"}, "size": {"uint32", "int64", "uint64", "uint16", "float64"}, "float32": {"float64", "int32"}, "float64": {"float32", "int64", "size"},
}

// addAlias appends `Base<n>: ty` to the package and returns a reference to it.
func addAlias(p *Package, base string, ty *Type) *Type {
	name := base
	for i := 2; p.Find(name) != nil; i++ {
		name = fmt.Sprintf("%s%d", base, i)
	}
	p.Defs = append(p.Defs, &Def{Kind: DAlias, Name: name, Type: ty})
	return Ref(p.Namespace, name)
}

func newFieldName(d *Def, base string) string {
	for i := 0; ; i++ {
		n := base
		if i > 0 {
			n = fmt.Sprintf("%s%d", base, i)
		}
		clash := false
		for _, f := range d.Fields {
			if f.Name == n {
				clash = true
			}
		}
		for _, c := range d.Computed {
			if c.Name == n {
				clash = true
			}
		}
		if !clash {
			return n
		}
	}
}

func usesField(d *Def, name string) bool {
	for _, c := range d.Computed {
		if c.Expr == name || c.Expr == "size("+name+")" {
			return true
		}
	}
	return false
}

// EvoEdits is the table of edits transcribed from docs/cpp/evolution.md (only instances the
// document states unambiguously).
var EvoEdits = []EvoEdit{
	// ---- compatible ---------------------------------------------------------------
	{"add-optional-step", "compatible", func(t *rapid.T, p *Package, env *Env) (string, bool) {
		ps := p.Protocols()
		if len(ps) == 0 {
			return "", false
		}
		d := ps[pickInt(t, "proto", len(ps))]
		var ty *Type
		elem := Prim([]string{"int32", "string", "float32", "uint8", "int64"}[pickInt(t, "addedElem", 5)]) // no bool: vectors and streams of bool are behind the known finding C08-cpp-vector-of-bool
		kind := pickInt(t, "addedKind", 3)
		switch kind {
		case 0:
			ty = Optional(elem)
		case 1:
			ty = Vector(elem)
		default:
			ty = Stream(elem)
		}
		// the new step's type may be given a name first (an alias is only a name for the type)
		if kind != 2 && pickInt(t, "addedViaAlias", 3) == 0 {
			ty = addAlias(p, "AddedStepType", ty)
		}
		// anywhere in the sequence, not only at its end
		pos := pickInt(t, "addedStepPos", len(d.Fields)+1)
		nf := Field{Name: newFieldName(d, "addedStep"), Type: ty}
		d.Fields = append(d.Fields[:pos:pos], append([]Field{nf}, d.Fields[pos:]...)...)
		return d.Name, true
	}},
	{"add-optional-field", "compatible", func(t *rapid.T, p *Package, env *Env) (string, bool) {
		rs := reachableDefs(p, env, DRecord)
		if len(rs) == 0 {
			return "", false
		}
		d := rs[pickInt(t, "rec", len(rs))]
		pos := pickInt(t, "pos", len(d.Fields)+1)
		oty := Optional(Prim([]string{"int32", "string", "float64"}[pickInt(t, "addedOptElem", 3)]))
		if pickInt(t, "addedOptViaAlias", 3) == 0 {
			oty = addAlias(p, "AddedOptType", oty)
		}
		nf := Field{Name: newFieldName(d, "addedOpt"), Type: oty}
		d.Fields = append(d.Fields[:pos:pos], append([]Field{nf}, d.Fields[pos:]...)...)
		return d.Name, true
	}},
	{"remove-optional-field", "compatible", func(t *rapid.T, p *Package, env *Env) (string, bool) {
		var c []fieldPos
		for _, fp := range fieldPositions(p, env, true, false) {
			f := fp.Def.Fields[fp.Idx]
			if f.Type.Kind == KOptional && len(fp.Def.Fields) > 1 && !usesField(fp.Def, f.Name) && len(fp.Def.TypeParams) == 0 {
				c = append(c, fp)
			}
		}
		if len(c) == 0 {
			return "", false
		}
		fp := c[pickInt(t, "fld", len(c))]
		name := fp.Def.Name + "." + fp.Def.Fields[fp.Idx].Name
		fp.Def.Fields = append(fp.Def.Fields[:fp.Idx:fp.Idx], fp.Def.Fields[fp.Idx+1:]...)
		return name, true
	}},
	{"add-alias", "compatible", func(t *rapid.T, p *Package, env *Env) (string, bool) {
		p.Defs = append(p.Defs, &Def{Kind: DAlias, Name: "AddedAlias", Type: Vector(Prim("int32"))})
		return "AddedAlias", true
	}},
	{"rename-through-alias", "compatible", func(t *rapid.T, p *Package, env *Env) (string, bool) {
		var c []*Def
		r := env.Reachable(p.Protocols()...)
		for _, d := range p.Defs {
			if (d.Kind == DRecord || d.Kind == DEnum || d.Kind == DFlags) && r[p.Namespace+"."+d.Name] {
				c = append(c, d)
			}
		}
		if len(c) == 0 {
			return "", false
		}
		d := c[pickInt(t, "ren", len(c))]
		old := d.Name
		nn := old + "Renamed"
		// update every reference in p
		for _, s := range Slots(p) {
			x := s.Get()
			if x.Kind == KRef && x.Ns == p.Namespace && x.Name == old {
				x.Name = nn
			}
		}
		d.Name = nn
		al := &Def{Kind: DAlias, Name: old, TypeParams: append([]string(nil), d.TypeParams...), File: d.File}
		var args []*Type
		for _, tp := range d.TypeParams {
			args = append(args, Param(tp))
		}
		al.Type = Ref(p.Namespace, nn, args...)
		p.Defs = append(p.Defs, al)
		return old, true
	}},
	{"reorder-fields", "compatible", func(t *rapid.T, p *Package, env *Env) (string, bool) {
		var c []*Def
		for _, d := range reachableDefs(p, env, DRecord) {
			if len(d.Fields) >= 2 {
				c = append(c, d)
			}
		}
		if len(c) == 0 {
			return "", false
		}
		d := c[pickInt(t, "rec", len(c))]
		i := pickInt(t, "i", len(d.Fields)-1)
		d.Fields[i], d.Fields[i+1] = d.Fields[i+1], d.Fields[i]
		return d.Name, true
	}},
	// ---- partially compatible (warning) ---------------------------------------------
	{"change-numeric-primitive", "warning", func(t *rapid.T, p *Package, env *Env) (string, bool) {
		var c []fieldPos
		// the primitive itself, or the primitive inside one optional or vector ("recursively detects changes")
		// ... or inside two of them (a vector of optionals, an optional vector, a vector of vectors)
		var descend func(x *Type, depth int) (*Type, func(*Type) *Type)
		descend = func(x *Type, depth int) (*Type, func(*Type) *Type) {
			if x == nil {
				return nil, nil
			}
			if x.Kind == KPrim {
				return x, func(n *Type) *Type { return n }
			}
			if depth < 2 && (x.Kind == KOptional || x.Kind == KVector) {
				leaf, rb := descend(x.Elem, depth+1)
				if leaf == nil {
					return nil, nil
				}
				return leaf, func(n *Type) *Type { cp := *x; cp.Elem = rb(n); return &cp }
			}
			return nil, nil
		}
		inner := func(x *Type) *Type {
			if leaf, _ := descend(x, 0); leaf != nil {
				return leaf
			}
			return x
		}
		for _, fp := range fieldPositions(p, env, true, true) {
			get, _ := payload(&fp.Def.Fields[fp.Idx])
			if x := inner(get()); x.Kind == KPrim && numericChain[x.Prim] != nil && !usesField(fp.Def, fp.Def.Fields[fp.Idx].Name) {
				c = append(c, fp)
			}
		}
		if len(c) == 0 {
			return "", false
		}
		fp := c[pickInt(t, "fld", len(c))]
		get, set := payload(&fp.Def.Fields[fp.Idx])
		cur := get()
		alts := numericChain[inner(cur).Prim]
		np := Prim(alts[pickInt(t, "to", len(alts))])
		if pickInt(t, "toSize", 6) == 0 {
			// `size` is a primitive of its own in the conversion tables although it is laid out like uint64
			for _, a := range alts {
				if a == "size" {
					np = Prim("size")
				}
			}
		}
		defer func(from string) { lastNumericChange = from + "->" + np.Prim }(inner(cur).Prim)
		_, rebuild := descend(cur, 0)
		set(rebuild(np))
		return fp.Def.Name + "." + fp.Def.Fields[fp.Idx].Name, true
	}},
	{"number-to-string", "warning", func(t *rapid.T, p *Package, env *Env) (string, bool) {
		var c []fieldPos
		for _, fp := range fieldPositions(p, env, true, true) {
			get, _ := payload(&fp.Def.Fields[fp.Idx])
			if x := get(); x.Kind == KPrim && (numericChain[x.Prim] != nil || x.Prim == "string") && !usesField(fp.Def, fp.Def.Fields[fp.Idx].Name) {
				c = append(c, fp)
			}
		}
		if len(c) == 0 {
			return "", false
		}
		fp := c[pickInt(t, "fld", len(c))]
		get, set := payload(&fp.Def.Fields[fp.Idx])
		if get().Prim == "string" {
			set(Prim([]string{"int32", "float64", "uint64"}[pickInt(t, "to", 3)]))
		} else {
			set(Prim("string"))
		}
		return fp.Def.Name + "." + fp.Def.Fields[fp.Idx].Name, true
	}},
	{"make-optional", "warning", func(t *rapid.T, p *Package, env *Env) (string, bool) {
		var c []fieldPos
		for _, fp := range fieldPositions(p, env, true, true) {
			if fp.Def.Fields[fp.Idx].Type.Kind == KStream {
				continue // the document only speaks of fields and (its example) plain steps
			}
			get, _ := payload(&fp.Def.Fields[fp.Idx])
			x := get()
			u := env.Underlying(x)
			if x.Kind != KOptional && x.Kind != KUnion && x.Kind != KParam && u.Kind != KOptional && u.Kind != KUnion && !usesField(fp.Def, fp.Def.Fields[fp.Idx].Name) {
				// yardl rejects `[null, <vector/array/map of an inline union>]` ("unions may not
				// immediately contain other unions", although a container lies in between); the
				// same type through an alias is accepted. Not a position this edit can use.
				if (x.Kind == KVector || x.Kind == KArray || x.Kind == KMap) && x.Elem != nil && (x.Elem.Kind == KUnion || x.Elem.Kind == KOptional) {
					continue
				}
				c = append(c, fp)
			}
		}
		if len(c) == 0 {
			return "", false
		}
		fp := c[pickInt(t, "fld", len(c))]
		get, set := payload(&fp.Def.Fields[fp.Idx])
		set(Optional(get()))
		return fp.Def.Name + "." + fp.Def.Fields[fp.Idx].Name, true
	}},
	{"make-non-optional", "warning", func(t *rapid.T, p *Package, env *Env) (string, bool) {
		var c []fieldPos
		for _, fp := range fieldPositions(p, env, true, true) {
			if fp.Def.Fields[fp.Idx].Type.Kind == KStream {
				continue // the document only speaks of fields and (its example) plain steps
			}
			get, _ := payload(&fp.Def.Fields[fp.Idx])
			if x := get(); x.Kind == KOptional && !usesField(fp.Def, fp.Def.Fields[fp.Idx].Name) {
				// the payload must not itself be an optional/union behind an alias: `T??` -> `T?` is
				// not the "making a field optional" of the document
				if u := env.Underlying(x.Elem); u.Kind == KOptional || u.Kind == KUnion {
					continue
				}
				c = append(c, fp)
			}
		}
		if len(c) == 0 {
			return "", false
		}
		fp := c[pickInt(t, "fld", len(c))]
		get, set := payload(&fp.Def.Fields[fp.Idx])
		set(get().Elem)
		return fp.Def.Name + "." + fp.Def.Fields[fp.Idx].Name, true
	}},
	{"optional-to-union", "warning", func(t *rapid.T, p *Package, env *Env) (string, bool) {
		var c []fieldPos
		for _, fp := range fieldPositions(p, env, true, true) {
			if fp.Def.Fields[fp.Idx].Type.Kind == KStream {
				continue // the document only speaks of fields and (its example) plain steps
			}
			get, _ := payload(&fp.Def.Fields[fp.Idx])
			if x := get(); x.Kind == KOptional && x.Elem.Kind == KPrim && x.Elem.Prim != "bool" && !usesField(fp.Def, fp.Def.Fields[fp.Idx].Name) {
				c = append(c, fp)
			}
		}
		if len(c) == 0 {
			return "", false
		}
		fp := c[pickInt(t, "fld", len(c))]
		get, set := payload(&fp.Def.Fields[fp.Idx])
		e := get().Elem
		set(&Type{Kind: KUnion, Cases: []*Type{nil, e, Prim("bool")}, Tags: []string{"", e.Prim, "bool"}})
		return fp.Def.Name + "." + fp.Def.Fields[fp.Idx].Name, true
	}},
	{"add-required-field", "warning", func(t *rapid.T, p *Package, env *Env) (string, bool) {
		rs := reachableDefs(p, env, DRecord)
		if len(rs) == 0 {
			return "", false
		}
		d := rs[pickInt(t, "rec", len(rs))]
		d.Fields = append(d.Fields, Field{Name: newFieldName(d, "addedReq"), Type: Prim("int32")})
		return d.Name, true
	}},
	{"remove-required-field", "warning", func(t *rapid.T, p *Package, env *Env) (string, bool) {
		var c []fieldPos
		for _, fp := range fieldPositions(p, env, true, false) {
			f := fp.Def.Fields[fp.Idx]
			if f.Type.Kind == KPrim && len(fp.Def.Fields) > 1 && !usesField(fp.Def, f.Name) {
				c = append(c, fp)
			}
		}
		if len(c) == 0 {
			return "", false
		}
		fp := c[pickInt(t, "fld", len(c))]
		name := fp.Def.Name + "." + fp.Def.Fields[fp.Idx].Name
		fp.Def.Fields = append(fp.Def.Fields[:fp.Idx:fp.Idx], fp.Def.Fields[fp.Idx+1:]...)
		return name, true
	}},
	{"add-union-case", "warning", func(t *rapid.T, p *Package, env *Env) (string, bool) {
		var c []fieldPos
		for _, fp := range fieldPositions(p, env, true, true) {
			get, _ := payload(&fp.Def.Fields[fp.Idx])
			if x := get(); x.Kind == KUnion && !x.ExplicitTags && !usesField(fp.Def, fp.Def.Fields[fp.Idx].Name) {
				c = append(c, fp)
			}
		}
		if len(c) == 0 {
			return "", false
		}
		fp := c[pickInt(t, "fld", len(c))]
		get, _ := payload(&fp.Def.Fields[fp.Idx])
		u := get()
		for _, cand := range []string{"complexfloat64", "date", "time", "datetime", "complexfloat32"} {
			dup := false
			for _, cs := range u.Cases {
				if cs != nil && env.canonSafe(cs) == cand {
					dup = true
				}
			}
			if !dup {
				u.Cases = append(u.Cases, Prim(cand))
				u.Tags = append(u.Tags, cand)
				return fp.Def.Name + "." + fp.Def.Fields[fp.Idx].Name, true
			}
		}
		return "", false
	}},
	{"remove-union-case", "warning", func(t *rapid.T, p *Package, env *Env) (string, bool) {
		var c []fieldPos
		for _, fp := range fieldPositions(p, env, true, true) {
			get, _ := payload(&fp.Def.Fields[fp.Idx])
			if x := get(); x.Kind == KUnion && len(x.Cases)-btoi(x.HasNull()) >= 3 && !usesField(fp.Def, fp.Def.Fields[fp.Idx].Name) {
				c = append(c, fp)
			}
		}
		if len(c) == 0 {
			return "", false
		}
		fp := c[pickInt(t, "fld", len(c))]
		get, _ := payload(&fp.Def.Fields[fp.Idx])
		u := get()
		u.Cases = u.Cases[:len(u.Cases)-1]
		u.Tags = u.Tags[:len(u.Tags)-1]
		return fp.Def.Name + "." + fp.Def.Fields[fp.Idx].Name, true
	}},
	// ---- incompatible (error) -------------------------------------------------------
	{"remove-step", "error", func(t *rapid.T, p *Package, env *Env) (string, bool) {
		var c []*Def
		for _, d := range p.Protocols() {
			if len(d.Fields) >= 2 {
				c = append(c, d)
			}
		}
		if len(c) == 0 {
			return "", false
		}
		d := c[pickInt(t, "proto", len(c))]
		i := pickInt(t, "step", len(d.Fields))
		d.Fields = append(d.Fields[:i:i], d.Fields[i+1:]...)
		return d.Name, true
	}},
	{"reorder-steps", "error", func(t *rapid.T, p *Package, env *Env) (string, bool) {
		var c []*Def
		for _, d := range p.Protocols() {
			if len(d.Fields) >= 2 {
				c = append(c, d)
			}
		}
		if len(c) == 0 {
			return "", false
		}
		d := c[pickInt(t, "proto", len(c))]
		i := pickInt(t, "i", len(d.Fields)-1)
		d.Fields[i], d.Fields[i+1] = d.Fields[i+1], d.Fields[i]
		return d.Name, true
	}},
	{"change-enum-value", "error", func(t *rapid.T, p *Package, env *Env) (string, bool) {
		var c []*Def
		for _, d := range append(reachableDefs(p, env, DEnum), reachableDefs(p, env, DFlags)...) {
			c = append(c, d)
		}
		if len(c) == 0 {
			return "", false
		}
		d := c[pickInt(t, "enum", len(c))]
		// re-number explicitly: swap the values of two symbols, or (single symbol) pick another value
		d.ListValues = false
		for i := range d.Values {
			d.Values[i].Explicit = true
		}
		if len(d.Values) >= 2 {
			a, b := &d.Values[0], &d.Values[len(d.Values)-1]
			a.Value, b.Value = b.Value, a.Value
			a.UValue, b.UValue = b.UValue, a.UValue
		} else {
			v := &d.Values[0]
			if d.Kind == DFlags {
				if v.UValue == 1 {
					v.UValue, v.Value = 2, 2
				} else {
					v.UValue, v.Value = 1, 1
				}
			} else {
				if v.Value == 1 || v.UValue == 1 {
					v.UValue, v.Value = 2, 2
				} else {
					v.UValue, v.Value = 1, 1
				}
			}
		}
		return d.Name, true
	}},
	{"remove-enum-symbol", "error", func(t *rapid.T, p *Package, env *Env) (string, bool) {
		var c []*Def
		for _, d := range append(reachableDefs(p, env, DEnum), reachableDefs(p, env, DFlags)...) {
			if len(d.Values) >= 2 {
				c = append(c, d)
			}
		}
		if len(c) == 0 {
			return "", false
		}
		d := c[pickInt(t, "enum", len(c))]
		d.ListValues = false
		for i := range d.Values {
			d.Values[i].Explicit = true
		}
		d.Values = d.Values[:len(d.Values)-1]
		return d.Name, true
	}},
	{"change-enum-base", "error", func(t *rapid.T, p *Package, env *Env) (string, bool) {
		var c []*Def
		for _, d := range append(reachableDefs(p, env, DEnum), reachableDefs(p, env, DFlags)...) {
			ok := true
			for _, v := range d.Values {
				if v.Value < 0 || v.Value > 100 || v.UValue > 100 {
					ok = false
				}
			}
			if ok {
				c = append(c, d)
			}
		}
		if len(c) == 0 {
			return "", false
		}
		d := c[pickInt(t, "enum", len(c))]
		nb := "int16"
		if d.EffectiveBase() == "int16" {
			nb = "int64"
		}
		if !IsSignedInt(d.EffectiveBase()) {
			nb = "uint16"
			if d.EffectiveBase() == "uint16" {
				nb = "uint32"
			}
		}
		d.Base = nb
		d.BaseRef = nil
		return d.Name, true
	}},
	{"enum-to-flags", "error", func(t *rapid.T, p *Package, env *Env) (string, bool) {
		c := append(reachableDefs(p, env, DEnum), reachableDefs(p, env, DFlags)...)
		if len(c) == 0 {
			return "", false
		}
		d := c[pickInt(t, "enum", len(c))]
		// keep the integer values: make them explicit, flip the kind
		d.ListValues = false
		for i := range d.Values {
			d.Values[i].Explicit = true
		}
		if d.Kind == DEnum {
			d.Kind = DFlags
		} else {
			d.Kind = DEnum
		}
		return d.Name, true
	}},
	{"scalar-to-vector", "error", func(t *rapid.T, p *Package, env *Env) (string, bool) {
		var c []fieldPos
		for _, fp := range fieldPositions(p, env, true, true) {
			get, _ := payload(&fp.Def.Fields[fp.Idx])
			if x := get(); x.Kind == KPrim && !usesField(fp.Def, fp.Def.Fields[fp.Idx].Name) {
				c = append(c, fp)
			}
		}
		if len(c) == 0 {
			return "", false
		}
		fp := c[pickInt(t, "fld", len(c))]
		get, set := payload(&fp.Def.Fields[fp.Idx])
		if pickInt(t, "vecOrArr", 2) == 0 {
			set(Vector(get()))
		} else {
			set(DynArray(get()))
		}
		return fp.Def.Name + "." + fp.Def.Fields[fp.Idx].Name, true
	}},
	{"change-type-argument", "error", func(t *rapid.T, p *Package, env *Env) (string, bool) {
		r := env.Reachable(p.Protocols()...)
		var c []Slot
		for _, s := range Slots(p) {
			x := s.Get()
			inReach := s.Def.Kind == DProtocol || r[p.Namespace+"."+s.Def.Name]
			if inReach && s.Ctx == "arg" && x.Kind == KPrim && s.Depth == 1 {
				c = append(c, s)
			}
		}
		if len(c) == 0 {
			return "", false
		}
		s := c[pickInt(t, "arg", len(c))]
		old := s.Get().Prim
		nw := "complexfloat64"
		if old == nw {
			nw = "date"
		}
		s.Set(Prim(nw))
		if s.Field >= 0 && s.Field < len(s.Def.Fields) && !env.TypeOK(s.Def.Fields[s.Field].Type) {
			s.Set(Prim(old))
			return "", false
		}
		return s.Path, true
	}},
	{"change-type-argument-via-alias", "error", func(t *rapid.T, p *Package, env *Env) (string, bool) {
		// an inline instantiation G<X> is replaced by a new closed alias `ViaAlias: G<Y>` with another argument
		// (or, the other way round, stays inline while ... the net effect is the documented breaking change
		// "changing the type arguments to a generic type", spelled through an alias on one side)
		r := env.Reachable(p.Protocols()...)
		var c []Slot
		for _, s := range Slots(p) {
			x := s.Get()
			inReach := s.Def.Kind == DProtocol || r[p.Namespace+"."+s.Def.Name]
			if !inReach || x.Kind != KRef || len(x.Args) == 0 || len(s.Def.TypeParams) > 0 {
				continue
			}
			if s.Ctx != "" && s.Ctx != "stream" && s.Ctx != "vector" && s.Ctx != "optional" {
				continue
			}
			if x.Args[0] != nil && x.Args[0].Kind == KPrim {
				c = append(c, s)
			}
		}
		if len(c) == 0 {
			return "", false
		}
		s := c[pickInt(t, "viaAliasAt", len(c))]
		inst := s.Get().Clone()
		old := inst.Args[0].Prim
		nw := "complexfloat64"
		if old == nw {
			nw = "date"
		}
		inst.Args[0] = Prim(nw)
		if !env.TypeOK(inst) {
			return "", false
		}
		s.Set(addAlias(p, "ViaAlias", inst))
		return s.Path, true
	}},
}

// ChangeTypeArgBetweenAliases is the two-sided form of change-type-argument-via-alias: at one slot that holds
// an inline instantiation G<X>, the old model gets a closed alias `OldAlias: G<X>` (the same model, spelled
// through an alias) and the new model a closed alias of another name with another argument, `ViaAlias: G<Y>`.
// old and neu must be clones of each other. Net effect: "changing the type arguments to a generic type".
func ChangeTypeArgBetweenAliases(t *rapid.T, old, neu *Package) (string, bool) {
	envN := NewEnv(neu)
	r := envN.Reachable(neu.Protocols()...)
	so, sn := Slots(old), Slots(neu)
	if len(so) != len(sn) {
		return "", false
	}
	var c []int
	for i, s := range sn {
		x := s.Get()
		inReach := s.Def.Kind == DProtocol || r[neu.Namespace+"."+s.Def.Name]
		if !inReach || x.Kind != KRef || len(x.Args) == 0 || len(s.Def.TypeParams) > 0 {
			continue
		}
		if s.Ctx != "" && s.Ctx != "stream" && s.Ctx != "vector" && s.Ctx != "optional" {
			continue
		}
		if x.Args[0] != nil && x.Args[0].Kind == KPrim {
			c = append(c, i)
		}
	}
	if len(c) == 0 {
		return "", false
	}
	i := c[pickInt(t, "betweenAliasesAt", len(c))]
	inst := sn[i].Get().Clone()
	oldInst := so[i].Get().Clone()
	prev := inst.Args[0].Prim
	nw := "complexfloat64"
	if prev == nw {
		nw = "date"
	}
	inst.Args[0] = Prim(nw)
	if !envN.TypeOK(inst) {
		return "", false
	}
	so[i].Set(addAlias(old, "OldAlias", oldInst))
	sn[i].Set(addAlias(neu, "ViaAlias", inst))
	return sn[i].Path, true
}

func maxInt(a, b int) int {
	if a > b {
		return a
	}
	return b
}

// EvoEditsOfClass filters the table.
func EvoEditsOfClass(classes ...string) []EvoEdit {
	var out []EvoEdit
	for _, e := range EvoEdits {
		for _, c := range classes {
			if e.Class == c {
				out = append(out, e)
			}
		}
	}
	return out
}

// ApplyBenignChanges applies up to n accepted (compatible or partially compatible) edits.
func ApplyBenignChanges(t *rapid.T, p *Package, n int) []string {
	env := NewEnv(p)
	edits := EvoEditsOfClass("compatible", "warning")
	var applied []string
	for i := 0; i < n; i++ {
		e := edits[pickInt(t, "benign", len(edits))]
		if e.Name == "rename-through-alias" || e.Name == "add-alias" {
			continue
		}
		if w, ok := e.Apply(t, p, env); ok {
			applied = append(applied, e.Name+"@"+w)
		}
	}
	return applied
}
