package model

import "testing"

func TestShapeNestedOptional(t *testing.T) {
	impa := &Package{Namespace: "ImpA", DirName: "impa", Defs: []*Def{
		{Kind: DAlias, Name: "AAl0", TypeParams: []string{"T"}, Type: Optional(Param("T"))},
		{Kind: DAlias, Name: "AAl1", Type: Ref("ImpA", "AAl0", Prim("int32"))},
	}}
	root := &Package{Namespace: "Mdl", DirName: "main", Imports: []*Package{impa}}
	env := NewEnv(root)
	ty := Optional(Ref("ImpA", "AAl1"))
	hit := false
	env.WalkInstantiated(ty, func(x *Type) {
		if ShapeSwitches["nested-optional-via-alias"](env, x) {
			hit = true
		}
	})
	if !hit {
		t.Fatal("not detected")
	}
}
