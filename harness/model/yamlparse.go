package model

import (
	"fmt"

	"gopkg.in/yaml.v3"
)

// ParseYAMLText converts a YAML document into a YNode tree (tags, scalars, sequences, mappings
// with scalar keys; comments, anchors and styles are dropped, every scalar is re-quoted when it
// was quoted). Used by the fuzzing generators to re-render a text in another layout.
func ParseYAMLText(text string) (*YNode, error) {
	var doc yaml.Node
	if err := yaml.Unmarshal([]byte(text), &doc); err != nil {
		return nil, err
	}
	if doc.Kind != yaml.DocumentNode || len(doc.Content) != 1 {
		return nil, fmt.Errorf("not a single document")
	}
	return fromYAML(doc.Content[0])
}

func fromYAML(n *yaml.Node) (*YNode, error) {
	tag := ""
	if n.Tag != "" && n.Tag[0] == '!' && (len(n.Tag) < 2 || n.Tag[1] != '!') {
		tag = n.Tag
	}
	switch n.Kind {
	case yaml.ScalarNode:
		s := n.Value
		y := YS(s)
		y.Tag = tag
		if n.Style&(yaml.DoubleQuotedStyle|yaml.SingleQuotedStyle) != 0 {
			y.Quote = '"'
		}
		if n.Tag == "!!null" && n.Style == 0 {
			y.Raw = true
			v := "null"
			if s == "" || s == "~" {
				v = "~"
			}
			y.Scalar = &v
		}
		return y, nil
	case yaml.SequenceNode:
		y := YSeq()
		y.Tag = tag
		for _, c := range n.Content {
			x, err := fromYAML(c)
			if err != nil {
				return nil, err
			}
			y.Seq = append(y.Seq, x)
		}
		return y, nil
	case yaml.MappingNode:
		y := YMap()
		y.Tag = tag
		for i := 0; i+1 < len(n.Content); i += 2 {
			k, err := fromYAML(n.Content[i])
			if err != nil {
				return nil, err
			}
			if k.Scalar == nil {
				return nil, fmt.Errorf("non-scalar key")
			}
			v, err := fromYAML(n.Content[i+1])
			if err != nil {
				return nil, err
			}
			y.PutK(k, v)
		}
		return y, nil
	}
	return nil, fmt.Errorf("unsupported node kind %d", n.Kind)
}
