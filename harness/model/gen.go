package model

import (
	"fmt"
	"strings"

	"pgregory.net/rapid"
)

// GenConfig bounds and feature switches of the package generator. Every random decision is
// a rapid draw, so a generated package shrinks as one value.
type GenConfig struct {
	MaxDefs      int // non-protocol definitions in the main package
	MaxImports   int // imported packages (0..2)
	MaxProtocols int
	MaxSteps     int
	MaxDepth     int
	MaxFiles     int

	Generics bool
	Computed bool // sprinkle simple computed fields on records
	Comments bool

	// Runtime restricts the type language to what the run-time legs (generated C++ and Python
	// readers/writers driven with reference streams) are documented to support in both languages.
	Runtime bool

	// Excl lists feature switches turned off because of known findings (see known_findings.json).
	Excl map[string]bool
	// ExclCount counts draws that were redirected because of Excl.
	ExclCount map[string]int

	// RootNamespace of the main package (default "Main").
	RootNamespace string

	// SharedNamesPct: chance (percent) that an imported package names its definitions with the same
	// scheme as the main package (Rec0, En1, ...), so that different namespaces define types with
	// the same simple name.
	SharedNamesPct int

	// KindPairPct: chance (percent) that a union starts from two cases of the same JSON datatype class
	// (enum + integer, string + date, record + record, ...); 0 = cases are drawn independently.
	KindPairPct int

	// AliasKeyPct: chance (percent) that a map key is a named alias of a primitive when one is in scope.
	AliasKeyPct int

	// EvoShapesPct: chance (percent) that a protocol step is a number, alone or nested in optionals and vectors
	// (the shapes for which generated version conversions have dedicated code paths).
	EvoShapesPct int

	// TwiceGenericPct: chance (percent) that the first protocol uses one generic record with two different
	// named types as argument (`Box<A>` in one step, `Box<B>` in another), B being used nowhere else.
	TwiceGenericPct int

	// BulkStreamPct: chance (percent) that the first protocol gets a trailing stream of records holding
	// fixed-width bulk data (arrays and vectors of floats, complex numbers, bytes).
	BulkStreamPct int

	// StructArrayPct: chance (percent) that the first protocol gets steps holding arrays (dynamic, sized
	// and fixed) of a record made of fixed-width scalars of different sizes - the record has alignment
	// padding in memory (C++ struct, NumPy aligned dtype) that the wire format does not have
	StructArrayPct int
	// CompositeFlagsPct: chance (percent) that a !flags type with explicit values gets a member that is
	// not a single bit (`readWrite: 3`, `all: 255`)
	CompositeFlagsPct int
	// ArgRefPct: chance (percent) that a generic argument is a reference to a non-generic named
	// type (record, enum, alias) instead of the default mix; 0 keeps the default distribution.
	ArgRefPct int
}

func DefaultGen() GenConfig {
	return GenConfig{MaxDefs: 8, MaxImports: 2, MaxProtocols: 2, MaxSteps: 6, MaxDepth: 3, MaxFiles: 3,
		Generics: true, Computed: true, Comments: true, SharedNamesPct: 25, AliasKeyPct: 15, TwiceGenericPct: 12, Excl: map[string]bool{}, ExclCount: map[string]int{}}
}

func (c *GenConfig) excluded(f string) bool {
	if c.Excl[f] {
		if c.ExclCount != nil {
			c.ExclCount[f]++
		}
		return true
	}
	return false
}

type scopeDef struct {
	ns  string
	def *Def
}

type gen struct {
	t       *rapid.T
	cfg     *GenConfig
	avail   []scopeDef // definitions that may be referenced
	params  []string   // type parameters in scope
	used    map[string]bool
	unionID *int
	curNs   string
	env     *Env
	// fixedRecs: records generated with a fixed-size layout (see recordDef)
	fixedRecs []scopeDef
}

func (g *gen) intn(label string, n int) int {
	if n <= 1 {
		return 0
	}
	return rapid.IntRange(0, n-1).Draw(g.t, label)
}

func (g *gen) chance(label string, pct int) bool {
	return rapid.IntRange(0, 99).Draw(g.t, label) < pct
}

var fieldWords = []string{"alpha", "beta", "gamma", "delta", "count", "label", "items", "weight", "flagSet", "origin", "samples", "meta", "x", "y", "z", "idx", "total", "ratio", "stamp", "payload"}
var symbolWords = []string{"red", "green", "blue", "north", "south", "east", "west", "low", "mid", "high", "on", "off", "read", "write", "exec", "a", "b", "c"}

func (g *gen) memberNames(n int, words []string) []string {
	out := make([]string, 0, n)
	seen := map[string]bool{}
	for len(out) < n {
		w := words[g.intn("word", len(words))]
		if seen[w] {
			w = fmt.Sprintf("%s%d", w, len(out))
		}
		if seen[w] {
			continue
		}
		seen[w] = true
		out = append(out, w)
	}
	return out
}

var keyPrimsRuntime = []string{"string", "int32", "uint8", "int64", "uint64", "int16", "bool", "size", "uint32", "int8", "uint16"}
var arrayElemPrims = []string{"int32", "float32", "float64", "uint8", "int16", "uint64", "bool", "complexfloat32", "complexfloat64", "int8", "uint16", "uint32", "int64", "size"}

func (g *gen) prim() *Type {
	// weights: common ones more often
	common := []string{"int32", "string", "float32", "float64", "bool", "uint64", "int64", "uint8"}
	if g.chance("primCommon", 55) {
		return Prim(common[g.intn("primC", len(common))])
	}
	return Prim(Prims[g.intn("prim", len(Prims))])
}

// refType draws a reference to an available definition (instantiating generics).
func (g *gen) refType(depth int) *Type {
	if len(g.avail) == 0 {
		return g.prim()
	}
	sd := g.avail[g.intn("ref", len(g.avail))]
	for tries := 0; tries < 4; tries++ {
		var args []*Type
		for range sd.def.TypeParams {
			args = append(args, g.argType(depth+1))
		}
		// now and then a generic is instantiated with an instantiation of itself (Rec<Rec<X>>)
		if g.cfg.ArgRefPct > 0 && len(args) > 0 && g.chance("argSelfNest", 10) {
			inner := make([]*Type, len(args))
			for i := range inner {
				inner[i] = g.leafRef()
			}
			args[g.intn("argSelfNestPos", len(args))] = Ref(sd.ns, sd.def.Name, inner...)
		}
		r := Ref(sd.ns, sd.def.Name, args...)
		if g.env.TypeOK(r) {
			return r
		}
	}
	return g.prim()
}

// argType: a type suitable as a generic argument (kept shallow).
func (g *gen) argType(depth int) *Type {
	if len(g.params) > 0 && g.chance("argParam", 25) {
		p := g.params[g.intn("argParamIdx", len(g.params))]
		g.used[p] = true
		return Param(p)
	}
	if g.cfg.ArgRefPct > 0 && g.chance("argRef", g.cfg.ArgRefPct) {
		if r := g.leafRef(); g.env.TypeOK(r) {
			return r
		}
	}
	if depth >= g.cfg.MaxDepth || g.chance("argPrim", 60) {
		return g.prim()
	}
	return g.typ(depth)
}

func (g *gen) scalarForUnionCase(depth int, explicit bool) *Type {
	// a union case may not itself (directly) be a union/optional
	for {
		var t *Type
		if !explicit {
			// tag is derived from the type: primitive or non-generic named type only
			var cands []scopeDef
			for _, sd := range g.avail {
				if len(sd.def.TypeParams) == 0 {
					cands = append(cands, sd)
				}
			}
			if len(cands) > 0 && g.chance("ucaseRef", 40) {
				sd := cands[g.intn("ucaseRefIdx", len(cands))]
				t = Ref(sd.ns, sd.def.Name)
			} else {
				t = g.prim()
			}
		} else {
			t = g.typ(depth + 1)
		}
		if t.Kind == KOptional || t.Kind == KUnion {
			continue
		}
		return t
	}
}

func (g *gen) union(depth int) *Type {
	n := 2 + g.intn("ucases", 3)
	explicit := g.chance("uexplicit", 35)
	withNull := g.chance("unull", 35)
	u := &Type{Kind: KUnion, ExplicitTags: explicit}
	seen := map[string]bool{}
	seenTag := map[string]bool{}
	if withNull {
		u.Cases = append(u.Cases, nil)
		u.Tags = append(u.Tags, "")
	}
	*g.unionID++
	id := *g.unionID
	tries := 0
	var pending []*Type
	if g.cfg.KindPairPct > 0 && g.chance("ukindPair", g.cfg.KindPairPct) {
		pending = g.kindPair(explicit)
	}
	for len(u.Cases) < n+btoi(withNull) && tries < 40 {
		tries++
		var c *Type
		if len(pending) > 0 {
			c, pending = pending[0], pending[1:]
		} else {
			c = g.scalarForUnionCase(depth, explicit)
		}
		if c.Kind == KParam && g.cfg.excluded("union-with-param-case") {
			continue
		}
		key := g.env.canonSafe(c)
		if seen[key] {
			continue
		}
		tag := ""
		if explicit {
			tag = fmt.Sprintf("u%dc%d", id, len(u.Cases))
		} else {
			tag = derivedTag(c)
			if seenTag[tag] {
				continue
			}
		}
		seen[key] = true
		seenTag[tag] = true
		u.Cases = append(u.Cases, c)
		u.Tags = append(u.Tags, tag)
	}
	nn := len(u.Cases) - btoi(withNull)
	if nn < 2 {
		if nn == 1 && withNull {
			return Optional(u.Cases[1])
		}
		if nn == 1 {
			return u.Cases[0]
		}
		return g.prim()
	}
	return u
}

// kindPair: two case types that have (or may have) the same JSON datatype, the situation that
// decides between the tagged and the untagged NDJSON form of a union.
func (g *gen) kindPair(explicit bool) []*Type {
	var enums, flags, recs []*Type
	for _, sd := range g.avail {
		if len(sd.def.TypeParams) > 0 {
			continue
		}
		r := Ref(sd.ns, sd.def.Name)
		switch sd.def.Kind {
		case DEnum:
			enums = append(enums, r)
		case DFlags:
			flags = append(flags, r)
		case DRecord:
			recs = append(recs, r)
		}
	}
	ints := []string{"int32", "uint8", "int64", "uint16"}
	pick := func(ts []*Type, label string) *Type { return ts[g.intn(label, len(ts))] }
	for tries := 0; tries < 4; tries++ {
		recipe := g.intn("kindRecipe", 7)
		if explicit && g.chance("kindRecipeContainers", 50) {
			recipe = 6 // container cases need explicit tags, so they only get their chance here
		}
		switch recipe {
		case 0:
			if len(enums) > 0 {
				return []*Type{pick(enums, "kpEnum"), Prim(ints[g.intn("kpInt", len(ints))])}
			}
		case 1:
			if len(enums) > 0 {
				return []*Type{pick(enums, "kpEnum2"), Prim("string")}
			}
		case 2:
			if len(flags) > 0 && !g.cfg.excluded("union-flags-with-number") {
				return []*Type{pick(flags, "kpFlags"), Prim("float64")}
			}
		case 3:
			return []*Type{Prim("string"), Prim([]string{"date", "time", "datetime"}[g.intn("kpChrono", 3)])}
		case 4:
			return []*Type{Prim(ints[g.intn("kpInt2", len(ints))]), Prim([]string{"float32", "float64"}[g.intn("kpFloat", 2)])}
		case 5:
			if len(recs) > 1 {
				a, b := pick(recs, "kpRecA"), pick(recs, "kpRecB")
				if a.Name != b.Name || a.Ns != b.Ns {
					return []*Type{a, b}
				}
			}
		default:
			if explicit {
				if g.chance("kpArrayKinds", 50) {
					return []*Type{Vector(Prim("int32")), FixedVector(Prim("float64"), 2)}
				}
				// arrays that are JSON objects ({"shape":..,"data":..}) next to another object-shaped case
				arr := &Type{Kind: KArray, Elem: Prim("float32"), HasDims: true, Dims: []Dim{{Name: "x"}, {Name: "y"}}}
				if g.chance("kpDynArr", 40) {
					arr = DynArray(Prim("int32"))
				}
				// a string-keyed map is a JSON object too; its key may be spelled through an alias of string
				key := Prim("string")
				for _, sd := range g.avail {
					if sd.def.Kind == DAlias && len(sd.def.TypeParams) == 0 && sd.def.Type != nil && sd.def.Type.Kind == KPrim && sd.def.Type.Prim == "string" && g.chance("kpKeyAlias", 60) {
						key = Ref(sd.ns, sd.def.Name)
						break
					}
				}
				m := Map(key, Prim("int32"))
				switch g.intn("kpObjPair", 3) {
				case 0:
					if len(recs) > 0 {
						return []*Type{m, pick(recs, "kpRecC")}
					}
				case 1:
					if len(recs) > 0 {
						return []*Type{arr, pick(recs, "kpRecD")}
					}
				}
				return []*Type{arr, m}
			}
		}
	}
	return nil
}

func derivedTag(c *Type) string {
	if c.Kind == KPrim {
		return c.Prim
	}
	return c.Name
}

func btoi(b bool) int {
	if b {
		return 1
	}
	return 0
}

// canonSafe is Canon that tolerates references to definitions not yet registered in env
// (the definition being generated cannot be referenced, so this only guards programming errors).
func (e *Env) canonSafe(t *Type) (s string) {
	defer func() {
		if r := recover(); r != nil {
			s = fmt.Sprintf("?%p", t)
		}
	}()
	return e.Canon(t)
}

func (g *gen) unionCaseOK(c *Type) bool {
	return true
}

func (g *gen) mapKey() *Type {
	// now and then the key is a named alias of a primitive (`Key: string`)
	if g.cfg.AliasKeyPct > 0 && g.chance("mapKeyAlias", g.cfg.AliasKeyPct) {
		var cands []scopeDef
		for _, sd := range g.avail {
			if sd.def.Kind == DAlias && len(sd.def.TypeParams) == 0 && sd.def.Type != nil && sd.def.Type.Kind == KPrim {
				for _, k := range keyPrimsRuntime {
					if k == sd.def.Type.Prim {
						cands = append(cands, sd)
					}
				}
			}
		}
		if len(cands) > 0 {
			sd := cands[g.intn("mapKeyAliasIdx", len(cands))]
			return Ref(sd.ns, sd.def.Name)
		}
	}
	if g.cfg.Runtime {
		return Prim(keyPrimsRuntime[g.intn("mapKeyR", len(keyPrimsRuntime))])
	}
	keys := []string{"string", "int32", "uint8", "int64", "uint64", "int16", "bool", "size", "uint32", "int8", "uint16", "float32", "float64", "date", "time", "datetime"}
	k := keys[g.intn("mapKey", len(keys))]
	if (k == "date" || k == "time" || k == "datetime") && g.cfg.excluded("map-key-chrono") {
		k = "int64"
	}
	return Prim(k)
}

func (g *gen) arrayElem(depth int) *Type {
	if g.chance("arrElemPrim", 75) || depth >= g.cfg.MaxDepth {
		return Prim(arrayElemPrims[g.intn("arrPrim", len(arrayElemPrims))])
	}
	if len(g.params) > 0 && g.chance("arrElemParam", 30) {
		p := g.params[g.intn("arrParamIdx", len(g.params))]
		g.used[p] = true
		return Param(p)
	}
	// richer element types: enums, flags, records, strings, fixed vectors
	var cands []scopeDef
	for _, sd := range g.avail {
		if len(sd.def.TypeParams) == 0 && (sd.def.Kind == DEnum || sd.def.Kind == DFlags || sd.def.Kind == DRecord) {
			cands = append(cands, sd)
		}
	}
	if len(cands) > 0 && g.chance("arrElemRef", 60) {
		sd := cands[g.intn("arrRefIdx", len(cands))]
		return Ref(sd.ns, sd.def.Name)
	}
	if g.chance("arrElemStr", 50) {
		return Prim("string")
	}
	return FixedVector(Prim(arrayElemPrims[g.intn("arrFvPrim", len(arrayElemPrims))]), uint64(1+g.intn("arrFvLen", 3)))
}

var dimNames = []string{"x", "y", "z", "t", "chan", "row", "col", "slice"}

func (g *gen) array(depth int) *Type {
	elem := g.arrayElem(depth + 1)
	switch g.intn("arrKind", 3) {
	case 0:
		return DynArray(elem)
	case 1: // known rank
		n := 1 + g.intn("arrRank", 3)
		a := &Type{Kind: KArray, Elem: elem, HasDims: true}
		named := g.chance("arrNamed", 40)
		names := g.memberNames(n, dimNames)
		for i := 0; i < n; i++ {
			d := Dim{}
			if named {
				d.Name = names[i]
			}
			a.Dims = append(a.Dims, d)
		}
		g.dimComments(a)
		return a
	default: // fixed
		n := 1 + g.intn("arrFRank", 3)
		a := &Type{Kind: KArray, Elem: elem, HasDims: true}
		named := g.chance("arrFNamed", 40)
		names := g.memberNames(n, dimNames)
		for i := 0; i < n; i++ {
			l := uint64(1 + g.intn("arrFLen", 4))
			d := Dim{Len: &l}
			if named {
				d.Name = names[i]
			}
			a.Dims = append(a.Dims, d)
		}
		g.dimComments(a)
		return a
	}
}

// dimComments documents some dimensions of an array (comments above the entries of `dimensions:`).
func (g *gen) dimComments(a *Type) {
	if !g.cfg.Comments || !g.chance("dimComments", 15) {
		return
	}
	for i := range a.Dims {
		if i == 0 || g.chance("dimComment", 50) {
			a.Dims[i].Comment = g.comment("dimCommentText")
			if a.Dims[i].Comment == "" {
				a.Dims[i].Comment = "slowest varying"
			}
		}
	}
}

// closedOK reports whether a type without free type parameters avoids every shape that is
// switched off through cfg.Excl (known findings). Types with free parameters are checked
// where they get instantiated.
func (g *gen) closedOK(t *Type) bool {
	if len(g.cfg.Excl) == 0 {
		return true
	}
	bad := ""
	g.env.WalkInstantiated(t, func(x *Type) {
		if bad != "" {
			return
		}
		for name, pred := range ShapeSwitches {
			if g.cfg.Excl[name] && pred(g.env, x) {
				bad = name
			}
		}
	})
	if bad != "" {
		if g.cfg.ExclCount != nil {
			g.cfg.ExclCount[bad]++
		}
		return false
	}
	return true
}

// top draws the complete type of a field, step or alias, honouring the exclusion switches.
func (g *gen) top(depth int) *Type {
	for tries := 0; tries < 6; tries++ {
		t := g.typ(depth)
		if g.closedOK(t) {
			return t
		}
	}
	return Prim("int32")
}

// typ draws a type expression.
func (g *gen) typ(depth int) *Type {
	if depth >= g.cfg.MaxDepth {
		if len(g.avail) > 0 && g.chance("leafRef", 40) {
			return g.leafRef()
		}
		return g.prim()
	}
	if len(g.params) > 0 && g.chance("useParam", 20) {
		p := g.params[g.intn("paramIdx", len(g.params))]
		g.used[p] = true
		return Param(p)
	}
	k := g.intn("kind", 100)
	switch {
	case k < 28:
		return g.prim()
	case k < 50:
		return g.refType(depth)
	case k < 60:
		e := g.typ(depth + 1)
		if e.Kind == KOptional || e.Kind == KUnion {
			return e
		}
		return Optional(e)
	case k < 70:
		return g.union(depth)
	case k < 82:
		e := g.typ(depth + 1)
		if g.chance("vecFixed", 30) {
			return FixedVector(e, uint64(1+g.intn("vecLen", 4)))
		}
		return Vector(e)
	case k < 91:
		return g.array(depth)
	default:
		return Map(g.mapKey(), g.typ(depth+1))
	}
}

func (g *gen) leafRef() *Type {
	var cands []scopeDef
	for _, sd := range g.avail {
		if len(sd.def.TypeParams) == 0 {
			cands = append(cands, sd)
		}
	}
	if len(cands) == 0 {
		return g.prim()
	}
	sd := cands[g.intn("leafRefIdx", len(cands))]
	return Ref(sd.ns, sd.def.Name)
}

func (g *gen) comment(label string) string {
	if !g.cfg.Comments || !g.chance(label, 25) {
		return ""
	}
	cs := []string{"A documented element.", "Line one\nline two", "units: mm", "See also the other one"}
	return cs[g.intn(label+"Idx", len(cs))]
}

func (g *gen) enumDef(name string, flags bool) *Def {
	d := &Def{Name: name}
	if flags {
		d.Kind = DFlags
	} else {
		d.Kind = DEnum
	}
	if g.chance("enumBase", 45) {
		d.Base = IntPrims[g.intn("enumBaseIdx", len(IntPrims))]
		// the base type may be given through a named alias of an integer primitive
		var aliases []scopeDef
		for _, sd := range g.avail {
			if sd.def.Kind == DAlias && len(sd.def.TypeParams) == 0 && sd.def.Type != nil && sd.def.Type.Kind == KPrim && IsIntPrim(sd.def.Type.Prim) {
				aliases = append(aliases, sd)
			}
		}
		if len(aliases) > 0 && g.chance("enumBaseAlias", 50) {
			sd := aliases[g.intn("enumBaseAliasIdx", len(aliases))]
			d.Base = sd.def.Type.Prim
			d.BaseRef = Ref(sd.ns, sd.def.Name)
		}
	}
	base := d.EffectiveBase()
	bits := IntBits(base)
	signed := IsSignedInt(base)
	n := 1 + g.intn("enumN", 5)
	syms := g.memberNames(n, symbolWords)
	d.Comment = g.comment("enumComment")
	if flags {
		maxBit := bits
		if signed {
			maxBit = bits - 1
		}
		if n > maxBit {
			n = maxBit
			syms = syms[:n]
		}
		if g.chance("flagsList", 40) {
			d.ListValues = true
			for i, s := range syms {
				d.Values = append(d.Values, EnumVal{Symbol: s, UValue: 1 << uint(i), Value: 1 << uint(i), Unsigned: !signed})
			}
			return d
		}
		bit := -1
		for i, s := range syms {
			// strictly increasing bits so auto-assignment ("next power of two above previous") is expressible
			room := (maxBit - 1 - (n - 1 - i)) - (bit + 1)
			if room > 3 {
				room = 3
			}
			gap := 0
			if room > 0 {
				gap = g.intn("flagGap", room+1)
			}
			bit = bit + 1 + gap
			v := EnumVal{Symbol: s, Unsigned: !signed, Explicit: true}
			v.UValue = 1 << uint(bit)
			v.Value = int64(v.UValue)
			// auto value would be: first -> 1; else next power of two greater than previous
			auto := uint64(1)
			if i > 0 {
				auto = d.Values[i-1].UValue << 1
			}
			if auto == v.UValue && g.chance("flagAuto", 50) {
				v.Explicit = false
			}
			d.Values = append(d.Values, v)
		}
		if g.cfg.CompositeFlagsPct > 0 && g.chance("flagsComposite", g.cfg.CompositeFlagsPct) {
			// one more member that is not a single bit: the union of two declared members, or a mask
			// of low bits (which also covers bits no other member declares)
			var cv uint64
			if n >= 2 && g.chance("flagsCompositeOfTwo", 50) {
				i := g.intn("flagsCompA", n)
				j := (i + 1 + g.intn("flagsCompB", n-1)) % n
				cv = d.Values[i].UValue | d.Values[j].UValue
			} else {
				k := 2 + g.intn("flagsMaskBits", maxBit-1)
				cv = uint64(1)<<uint(k) - 1
			}
			dup := false
			for _, ev := range d.Values {
				if ev.UValue == cv || ev.Symbol == "combined" {
					dup = true
				}
			}
			if !dup {
				d.Values = append(d.Values, EnumVal{Symbol: "combined", Unsigned: !signed, Explicit: true, UValue: cv, Value: int64(cv)})
			}
		}
		return d
	}
	if g.chance("enumList", 40) {
		d.ListValues = true
		for i, s := range syms {
			d.Values = append(d.Values, EnumVal{Symbol: s, Value: int64(i), UValue: uint64(i), Unsigned: !signed})
		}
		return d
	}
	usedS := map[int64]bool{}
	usedU := map[uint64]bool{}
	for i, s := range syms {
		v := EnumVal{Symbol: s, Unsigned: !signed, Explicit: true}
		for tries := 0; ; tries++ {
			if signed {
				var x int64
				switch g.intn("enumValKind", 4) {
				case 0:
					x = int64(g.intn("enumSmall", 20)) - 5
				case 1:
					x = -(int64(1) << uint(bits-1))
				case 2:
					x = (int64(1) << uint(bits-1)) - 1
				default:
					x = int64(i)
				}
				if tries > 8 {
					x = int64(100 + i + tries)
					if bits == 8 {
						x = int64(20 + i + tries)
					}
				}
				if usedS[x] {
					continue
				}
				usedS[x] = true
				v.Value = x
			} else {
				var x uint64
				switch g.intn("enumUValKind", 3) {
				case 0:
					x = uint64(g.intn("enumUSmall", 20))
				case 1:
					if bits == 64 {
						x = ^uint64(0)
					} else {
						x = (uint64(1) << uint(bits)) - 1
					}
				default:
					x = uint64(i)
				}
				if tries > 8 {
					x = uint64(30 + i + tries)
				}
				if usedU[x] {
					continue
				}
				usedU[x] = true
				v.UValue = x
			}
			break
		}
		// auto-assignment rule: 0 if first; previous+1 if previous >= 0; previous-1 if negative
		if g.chance("enumAuto", 40) {
			if signed {
				auto := int64(0)
				if i > 0 {
					p := d.Values[i-1].Value
					if p < 0 {
						auto = p - 1
					} else {
						auto = p + 1
					}
				}
				if auto == v.Value && !(i > 0 && (d.Values[i-1].Value == 1<<63-1 || d.Values[i-1].Value == -1<<63)) {
					v.Explicit = false
				}
			} else {
				auto := uint64(0)
				if i > 0 {
					auto = d.Values[i-1].UValue + 1
				}
				if auto == v.UValue && !(i > 0 && d.Values[i-1].UValue == ^uint64(0)) {
					v.Explicit = false
				}
			}
		}
		d.Values = append(d.Values, v)
	}
	return d
}

func (g *gen) recordDef(name string) *Def {
	d := &Def{Kind: DRecord, Name: name, Comment: g.comment("recComment")}
	if g.cfg.Generics && g.chance("recGeneric", 25) {
		d.TypeParams = []string{"T"}
		if g.chance("recGeneric2", 30) {
			d.TypeParams = []string{"T", "U"}
		}
	}
	g.params = d.TypeParams
	g.used = map[string]bool{}
	n := 1 + g.intn("recFields", 5)
	names := g.memberNames(n+len(d.TypeParams), fieldWords)
	// One record in eight has a fixed-size layout (only fixed-width scalars, fixed vectors/arrays
	// of them and other such records): these are the records the C++ runtime may copy as raw
	// memory, where alignment padding and field order matter.
	fixedLayout := len(d.TypeParams) == 0 && g.chance("recFixedLayout", 12)
	for i := 0; i < n; i++ {
		ft := (*Type)(nil)
		if fixedLayout {
			ft = g.fixedLayoutType()
		} else {
			ft = g.top(1)
		}
		d.Fields = append(d.Fields, Field{Name: names[i], Type: ft, Comment: g.comment("fieldComment")})
	}
	if fixedLayout {
		g.fixedRecs = append(g.fixedRecs, scopeDef{g.curNs, d})
	}
	// every type parameter must be used
	usedP := paramsUsed(d)
	for i, p := range d.TypeParams {
		if !usedP[p] {
			var t *Type = Param(p)
			switch g.intn("paramWrap", 4) {
			case 1:
				t = Vector(t)
			case 2:
				t = Optional(t)
			case 3:
				t = DynArray(t)
			}
			d.Fields = append(d.Fields, Field{Name: names[n+i], Type: t})
		}
	}
	g.params = nil
	if g.cfg.Computed && g.chance("recComputed", 30) {
		// simple, always well-typed computed fields
		f := d.Fields[g.intn("cfField", len(d.Fields))]
		d.Computed = append(d.Computed, Computed{Name: "cf" + capitalize(f.Name), Expr: f.Name, Comment: g.comment("cfComment")})
		if g.chance("cfLiteral", 50) {
			d.Computed = append(d.Computed, Computed{Name: "cfConst", Expr: "42"})
		}
		for _, f2 := range d.Fields {
			if f2.Type.Kind == KVector && g.chance("cfSize", 60) {
				d.Computed = append(d.Computed, Computed{Name: "cfSize" + capitalize(f2.Name), Expr: "size(" + f2.Name + ")"})
				break
			}
		}
	}
	return d
}

var fixedLayoutPrims = []string{"uint8", "int8", "bool", "float32", "float64", "complexfloat32", "complexfloat64", "float64", "uint8"}

// fixedLayoutType: a type whose C++ representation has a fixed size and no indirection.
func (g *gen) fixedLayoutType() *Type {
	base := Prim(fixedLayoutPrims[g.intn("flPrim", len(fixedLayoutPrims))])
	// only records that are visible from the package being generated
	var vis []scopeDef
	for _, fr := range g.fixedRecs {
		for _, a := range g.avail {
			if a.def == fr.def {
				vis = append(vis, fr)
				break
			}
		}
	}
	if len(vis) > 0 && g.chance("flNested", 15) {
		sd := vis[g.intn("flNestedIdx", len(vis))]
		base = Ref(sd.ns, sd.def.Name)
	}
	switch k := g.intn("flShape", 10); {
	case k < 6:
		return base
	case k < 8:
		return FixedVector(base, uint64(1+g.intn("flVecLen", 3)))
	default:
		if base.Kind != KPrim { // arrays of records are behind a known-finding switch; keep to scalars here
			return base
		}
		l1, l2 := uint64(1+g.intn("flDim1", 3)), uint64(1+g.intn("flDim2", 2))
		return &Type{Kind: KArray, Elem: base, HasDims: true, Dims: []Dim{{Len: &l1}, {Len: &l2}}}
	}
}

func capitalize(s string) string {
	if s == "" {
		return s
	}
	b := []byte(s)
	if b[0] >= 'a' && b[0] <= 'z' {
		b[0] -= 32
	}
	return string(b)
}

func (g *gen) aliasDef(name string) *Def {
	d := &Def{Kind: DAlias, Name: name, Comment: g.comment("aliasComment")}
	if g.cfg.Generics && g.chance("aliasGeneric", 20) {
		d.TypeParams = []string{"T"}
	}
	g.params = d.TypeParams
	g.used = map[string]bool{}
	d.Type = g.top(1)
	if len(d.TypeParams) == 0 && g.cfg.AliasKeyPct > 0 && g.chance("aliasOfKeyPrim", 20) {
		// a plain name for a primitive (`ChannelName: string`), usable wherever the primitive is
		d.Type = Prim([]string{"string", "string", "int32", "uint64"}[g.intn("aliasKeyPrim", 4)])
	}
	if g.cfg.Excl["union-nested-in-alias"] {
		for tries := 0; tries < 6 && hasNestedUnion(d.Type); tries++ {
			if g.cfg.ExclCount != nil {
				g.cfg.ExclCount["union-nested-in-alias"]++
			}
			d.Type = g.top(1)
		}
		if hasNestedUnion(d.Type) {
			d.Type = Vector(Prim("int32"))
		}
	}
	if g.cfg.Excl["generic-identity-alias"] && d.Type.Kind == KParam {
		if g.cfg.ExclCount != nil {
			g.cfg.ExclCount["generic-identity-alias"]++
		}
		d.Type = Optional(d.Type)
	}
	for _, p := range d.TypeParams {
		if !paramsUsed(d)[p] {
			switch g.intn("aliasWrap", 3) {
			case 0:
				d.Type = Vector(Param(p))
			case 1:
				d.Type = Optional(Param(p))
			default:
				d.Type = Map(Prim("string"), Param(p))
			}
		}
	}
	g.params = nil
	return d
}

func (g *gen) protocolDef(name string) *Def {
	d := &Def{Kind: DProtocol, Name: name, Comment: g.comment("protoComment")}
	n := 1 + g.intn("steps", g.cfg.MaxSteps)
	names := g.memberNames(n, fieldWords)
	for i := 0; i < n; i++ {
		t := g.top(1)
		if g.cfg.EvoShapesPct > 0 && g.chance("evoShape", g.cfg.EvoShapesPct) {
			// shapes that version conversions have dedicated code for: a number, alone or inside optionals and vectors
			np := Prim(NumericPrims[g.intn("evoPrim", len(NumericPrims))])
			switch g.intn("evoWrap", 6) {
			case 0:
				t = np
			case 1:
				t = Optional(np)
			case 2:
				t = Vector(np)
			case 3:
				t = Vector(Optional(np))
			case 4:
				t = Optional(Vector(np))
			default:
				t = Vector(Vector(np))
			}
		}
		if g.chance("isStream", 40) {
			if s := Stream(t); g.closedOK(s) {
				t = s
			}
		}
		d.Fields = append(d.Fields, Field{Name: names[i], Type: t, Comment: g.comment("stepComment")})
	}
	return d
}

func (g *gen) defs(p *Package, n int, prefix string) {
	for i := 0; i < n; i++ {
		var d *Def
		k := g.intn("defKind", 10)
		if i == 0 && g.cfg.AliasKeyPct > 0 && g.chance("firstDefKeyAlias", g.cfg.AliasKeyPct) {
			// start with a plain name for string, available to everything that follows
			d = &Def{Kind: DAlias, Name: fmt.Sprintf("%sAl%d", prefix, i), Type: Prim("string")}
			k = -1
		}
		switch {
		case k < 0:
		case k < 4:
			d = g.recordDef(fmt.Sprintf("%sRec%d", prefix, i))
		case k < 6:
			d = g.enumDef(fmt.Sprintf("%sEn%d", prefix, i), false)
		case k < 7:
			d = g.enumDef(fmt.Sprintf("%sFl%d", prefix, i), true)
		default:
			d = g.aliasDef(fmt.Sprintf("%sAl%d", prefix, i))
		}
		if p.NumFiles > 1 {
			d.File = g.intn("defFile", p.NumFiles)
		}
		p.Defs = append(p.Defs, d)
		g.avail = append(g.avail, scopeDef{p.Namespace, d})
	}
}

// GenPackage draws a valid package (with imports) by construction.
func GenPackage(t *rapid.T, cfg *GenConfig) *Package {
	uid := 0
	rootNs := cfg.RootNamespace
	if rootNs == "" {
		rootNs = "Main"
	}
	root := &Package{Namespace: rootNs, DirName: "main"}
	g := &gen{t: t, cfg: cfg, unionID: &uid}
	g.env = NewEnv(root)

	nimp := 0
	if cfg.MaxImports > 0 {
		nimp = g.intn("nImports", cfg.MaxImports+1)
	}
	var imps []*Package
	for i := 0; i < nimp; i++ {
		ip := &Package{Namespace: fmt.Sprintf("Imp%c", 'A'+i), DirName: fmt.Sprintf("imp%c", 'a'+i), NumFiles: 1}
		// a later import may import an earlier one (diamond when root imports both)
		if i > 0 && g.chance("impImports", 50) {
			ip.Imports = append(ip.Imports, imps[0])
		} else {
			// only what it imports is visible
		}
		saved := g.avail
		if len(ip.Imports) == 0 {
			g.avail = nil
		} else {
			g.avail = nil
			for _, d := range imps[0].Defs {
				g.avail = append(g.avail, scopeDef{imps[0].Namespace, d})
			}
		}
		g.curNs = ip.Namespace
		g.env = envOf(append(append([]*Package{}, imps...), ip))
		prefix := fmt.Sprintf("%c", 'A'+i)
		if cfg.SharedNamesPct > 0 && g.chance("impSharedNames", cfg.SharedNamesPct) {
			prefix = ""
		}
		g.defs(ip, 1+g.intn("impDefs", 4), prefix)
		_ = saved
		imps = append(imps, ip)
	}
	root.Imports = imps
	// everything imported directly is visible from the root
	g.avail = nil
	for _, ip := range imps {
		for _, d := range ip.Defs {
			g.avail = append(g.avail, scopeDef{ip.Namespace, d})
		}
	}
	g.curNs = root.Namespace
	g.env = envOf(append(append([]*Package{}, imps...), root))
	root.NumFiles = 1 + g.intn("nFiles", cfg.MaxFiles)
	g.defs(root, 1+g.intn("nDefs", cfg.MaxDefs), "")
	np := 1 + g.intn("nProtocols", cfg.MaxProtocols)
	for i := 0; i < np; i++ {
		d := g.protocolDef(fmt.Sprintf("Proto%d", i))
		if root.NumFiles > 1 {
			d.File = g.intn("protoFile", root.NumFiles)
		}
		root.Defs = append(root.Defs, d)
	}
	if cfg.BulkStreamPct > 0 && g.chance("bulkStream", cfg.BulkStreamPct) {
		addBulkStream(root)
	}
	if cfg.CompositeFlagsPct > 0 && g.chance("flagsSteps", cfg.CompositeFlagsPct/2) {
		g.addFlagsSteps(root)
	}
	if cfg.StructArrayPct > 0 && !cfg.Excl["array-of-struct"] && g.chance("structArray", cfg.StructArrayPct) {
		g.addStructArraySteps(root)
	}
	if cfg.TwiceGenericPct > 0 && g.chance("twiceGeneric", cfg.TwiceGenericPct) {
		addTwiceInstantiated(root, g.chance("twiceFreshArgs", 70), g.chance("twiceViaAlias", 40), g.chance("twiceEnumArg", 40))
	}
	if cfg.Excl["union-tags-by-variant-type"] {
		alignUnionTags(root, cfg)
	}
	return root
}

// addTwiceInstantiated: two steps of the first protocol instantiate the same generic record with two
// different named types; with freshArgs the second argument type is referenced nowhere else, so it reaches
// the protocol (its schema, its dependency order) only through the second instantiation.
func addTwiceInstantiated(root *Package, freshArgs, viaAlias, enumB bool) {
	var proto *Def
	for _, d := range root.Defs {
		if d.Kind == DProtocol {
			proto = d
			break
		}
	}
	if proto == nil || root.Find("TwiceBox") != nil || root.Find("TwiceArgA") != nil || root.Find("TwiceArgB") != nil {
		return
	}
	for _, f := range proto.Fields {
		if f.Name == "twiceFirst" || f.Name == "twiceSecond" {
			return
		}
	}
	box := &Def{Kind: DRecord, Name: "TwiceBox", TypeParams: []string{"T"}, Fields: []Field{{Name: "item", Type: Param("T")}, {Name: "weight", Type: Prim("uint16")}}}
	argA := &Def{Kind: DRecord, Name: "TwiceArgA", Fields: []Field{{Name: "level", Type: Prim("int32")}, {Name: "name", Type: Prim("string")}}}
	argB := &Def{Kind: DRecord, Name: "TwiceArgB", Fields: []Field{{Name: "gain", Type: Prim("float32")}, {Name: "count", Type: Prim("uint32")}}}
	if enumB {
		argB = &Def{Kind: DEnum, Name: "TwiceArgB", Values: []EnumVal{{Symbol: "low", Value: 0, Explicit: true}, {Symbol: "mid", Value: 1, Explicit: true}, {Symbol: "high", Value: 2, Explicit: true}}}
	}
	news := []*Def{box, argA, argB}
	a, b := Ref(root.Namespace, "TwiceArgA"), Ref(root.Namespace, "TwiceArgB")
	if !freshArgs {
		// reuse existing named types of the package as arguments where there are two
		var named []*Def
		for _, d := range root.Defs {
			if (d.Kind == DRecord || d.Kind == DEnum) && len(d.TypeParams) == 0 {
				named = append(named, d)
			}
		}
		if len(named) >= 2 {
			a, b = Ref(root.Namespace, named[0].Name), Ref(root.Namespace, named[len(named)-1].Name)
			news = []*Def{box}
		}
	}
	var defs []*Def
	inserted := false
	for _, d := range root.Defs {
		if d.Kind == DProtocol && !inserted {
			defs = append(defs, news...)
			inserted = true
		}
		defs = append(defs, d)
	}
	root.Defs = defs
	generic := "TwiceBox"
	if viaAlias && root.Find("TwiceAlias") == nil {
		// the two instantiations go through a generic alias of the generic record
		generic = "TwiceAlias"
		al := &Def{Kind: DAlias, Name: "TwiceAlias", TypeParams: []string{"T"}, Type: Ref(root.Namespace, "TwiceBox", Param("T"))}
		var defs2 []*Def
		done := false
		for _, d := range root.Defs {
			if d.Kind == DProtocol && !done {
				defs2 = append(defs2, al)
				done = true
			}
			defs2 = append(defs2, d)
		}
		root.Defs = defs2
	}
	proto.Fields = append(proto.Fields,
		Field{Name: "twiceFirst", Type: Ref(root.Namespace, generic, a)},
		Field{Name: "twiceSecond", Type: Stream(Ref(root.Namespace, generic, b))})
}

// addBulkStream gives the first protocol a trailing stream step whose items are records made of
// fixed-width bulk data (the shapes that readers and writers copy with a single memcpy / buffer view):
// dynamic and known-rank arrays, variable-length and fixed vectors of floats, complex numbers and bytes,
// followed by a string so that every item ends with data read after the arrays.
// addStructArraySteps: see GenConfig.StructArrayPct.
func (g *gen) addStructArraySteps(root *Package) {
	if root.Find("PadRec") != nil || root.Find("PadInner") != nil {
		return
	}
	var proto *Def
	for _, d := range root.Defs {
		if d.Kind == DProtocol {
			proto = d
			break
		}
	}
	if proto == nil {
		return
	}
	for _, f := range proto.Fields {
		if strings.HasPrefix(f.Name, "pad") {
			return
		}
	}
	prims := []string{"uint8", "float64", "int8", "float32", "bool", "complexfloat32", "complexfloat64", "uint8", "float64"}
	inner := &Def{Kind: DRecord, Name: "PadInner", Fields: []Field{{Name: "flag", Type: Prim(prims[g.intn("padInnerA", len(prims))])}, {Name: "level", Type: Prim(prims[g.intn("padInnerB", len(prims))])}}}
	rec := &Def{Kind: DRecord, Name: "PadRec"}
	for i, n := 0, 2+g.intn("padFields", 3); i < n; i++ {
		var t *Type = Prim(prims[g.intn("padPrim", len(prims))])
		switch g.intn("padShape", 8) {
		case 0:
			t = Ref(root.Namespace, "PadInner")
		case 1:
			t = FixedVector(t, uint64(1+g.intn("padVecLen", 3)))
		}
		rec.Fields = append(rec.Fields, Field{Name: fmt.Sprintf("p%d", i), Type: t})
	}
	var defs []*Def
	inserted := false
	for _, d := range root.Defs {
		if d.Kind == DProtocol && !inserted {
			defs = append(defs, inner, rec)
			inserted = true
		}
		defs = append(defs, d)
	}
	root.Defs = defs
	two, three := uint64(2), uint64(3)
	ref := func() *Type { return Ref(root.Namespace, "PadRec") }
	proto.Fields = append(proto.Fields,
		Field{Name: "padArr", Type: &Type{Kind: KArray, Elem: ref(), HasDims: true, Dims: []Dim{{}}}},
		Field{Name: "padGrid", Type: &Type{Kind: KArray, Elem: ref(), HasDims: true, Dims: []Dim{{Len: &two}, {Len: &three}}}},
		Field{Name: "padItems", Type: Stream(&Type{Kind: KArray, Elem: ref(), HasDims: true, Dims: []Dim{{Name: "r"}, {Name: "c"}}})},
		Field{Name: "padDyn", Type: DynArray(ref())})
}

// addFlagsSteps: a !flags type with members of several bits (a union of two members, a mask that also
// covers bits no single member declares, possibly a zero member) and steps of the first protocol that
// hold it directly, in a stream and in a vector.
func (g *gen) addFlagsSteps(root *Package) {
	if root.Find("Perm") != nil {
		return
	}
	var proto *Def
	for _, d := range root.Defs {
		if d.Kind == DProtocol {
			proto = d
			break
		}
	}
	if proto == nil {
		return
	}
	for _, f := range proto.Fields {
		if strings.HasPrefix(f.Name, "perm") {
			return
		}
	}
	d := &Def{Kind: DFlags, Name: "Perm"}
	if g.chance("permBase", 50) {
		d.Base = []string{"uint8", "uint16", "int32", "uint64"}[g.intn("permBaseIdx", 4)]
	}
	signed := IsSignedInt(d.EffectiveBase())
	add := func(sym string, v uint64) {
		d.Values = append(d.Values, EnumVal{Symbol: sym, Unsigned: !signed, Explicit: true, UValue: v, Value: int64(v)})
	}
	if g.chance("permZero", 30) {
		add("none", 0)
	}
	add("read", 1)
	add("write", 2)
	if g.chance("permExec", 60) {
		add("execute", 4)
	}
	switch g.intn("permComposite", 3) {
	case 0:
		add("readWrite", 3)
	case 1:
		add("all", []uint64{7, 15, 127, 255}[g.intn("permMask", 4)])
	default:
		add("readWrite", 3)
		add("all", []uint64{15, 127}[g.intn("permMask2", 2)])
	}
	var defs []*Def
	inserted := false
	for _, x := range root.Defs {
		if x.Kind == DProtocol && !inserted {
			defs = append(defs, d)
			inserted = true
		}
		defs = append(defs, x)
	}
	root.Defs = defs
	ref := func() *Type { return Ref(root.Namespace, "Perm") }
	proto.Fields = append(proto.Fields, Field{Name: "perm", Type: ref()}, Field{Name: "perms", Type: Stream(ref())}, Field{Name: "permList", Type: Vector(ref())})
}

func addBulkStream(root *Package) {
	if root.Find("BulkRec") != nil {
		return
	}
	var proto *Def
	for _, d := range root.Defs {
		if d.Kind == DProtocol {
			proto = d
			break
		}
	}
	if proto == nil {
		return
	}
	for _, f := range proto.Fields {
		if f.Name == "bulk" {
			return
		}
	}
	two, three := uint64(2), uint64(3)
	rec := &Def{Kind: DRecord, Name: "BulkRec", Fields: []Field{
		{Name: "idx", Type: Prim("uint32")},
		{Name: "samples", Type: DynArray(Prim("complexfloat32"))},
		{Name: "trace", Type: Vector(Prim("float32"))},
		{Name: "image", Type: &Type{Kind: KArray, Elem: Prim("float64"), HasDims: true, Dims: []Dim{{Name: "y"}, {Name: "x"}}}},
		{Name: "raw", Type: Vector(Prim("uint8"))},
		{Name: "corner", Type: &Type{Kind: KArray, Elem: Prim("float32"), HasDims: true, Dims: []Dim{{Len: &two}, {Len: &three}}}},
		{Name: "label", Type: Prim("string")},
	}}
	// insert before the protocols so that the plain emission order stays "types first"
	var defs []*Def
	inserted := false
	for _, d := range root.Defs {
		if d.Kind == DProtocol && !inserted {
			defs = append(defs, rec)
			inserted = true
		}
		defs = append(defs, d)
	}
	root.Defs = defs
	proto.Fields = append(proto.Fields, Field{Name: "bulk", Type: Stream(Ref(root.Namespace, "BulkRec"))})
}

// alignUnionTags (generator switch union-tags-by-variant-type): where two unions of the layout have the same
// case types after alias resolution but different tags, the later one takes over the tags of the earlier one
// (generated C++ NDJSON code keys its union converters by the C++ variant type, so the tags of one of them
// would be used for both). Rewrites are counted as exclusions.
func alignUnionTags(root *Package, cfg *GenConfig) {
	env := NewEnv(root)
	type first struct {
		explicit bool
		tags     []string
	}
	seen := map[string]first{}
	for _, p := range root.AllPackages() {
		for _, d := range p.Defs {
			DefTypes(d, func(t *Type) {
				Walk(t, func(u *Type) {
					if u.Kind != KUnion {
						return
					}
					var key []string
					for _, c := range u.Cases {
						if c == nil {
							key = append(key, "null")
						} else {
							key = append(key, env.Canon(c))
						}
					}
					k := strings.Join(key, " | ")
					tags := append([]string(nil), u.Tags...)
					f, ok := seen[k]
					if !ok {
						seen[k] = first{u.ExplicitTags, tags}
						return
					}
					same := f.explicit == u.ExplicitTags && (!u.ExplicitTags || strings.Join(f.tags, ",") == strings.Join(tags, ","))
					if !same {
						u.ExplicitTags = f.explicit
						u.Tags = append([]string(nil), f.tags...)
						if cfg.ExclCount != nil {
							cfg.ExclCount["union-tags-by-variant-type"]++
						}
					}
				})
			})
		}
	}
}

func envOf(ps []*Package) *Env {
	e := &Env{byNs: map[string]*Package{}}
	for _, p := range ps {
		e.byNs[p.Namespace] = p
	}
	if len(ps) > 0 {
		e.Root = ps[len(ps)-1]
	}
	return e
}

func paramsUsed(d *Def) map[string]bool {
	m := map[string]bool{}
	DefTypes(d, func(t *Type) {
		Walk(t, func(x *Type) {
			if x.Kind == KParam {
				m[x.Name] = true
			}
		})
	})
	return m
}

// hasNestedUnion: a union below the top level of the type (inside a vector, array, map, ...).
func hasNestedUnion(t *Type) bool {
	found := false
	Walk(t, func(x *Type) {
		if x != t && x.Kind == KUnion {
			found = true
		}
	})
	return found
}

// AddLateUse appends to root two definitions: a fresh local type and a definition that passes it as a
// type argument to a generic type of an imported package (a generic record is added to the first import
// when it offers none). Returns the indexes (user, argument) in root.Defs; ok is false when root imports
// nothing. Dependency-ordering code has to look *through* the imported reference to see this dependency.
func AddLateUse(root *Package, choose func(label string, n int) int) (user, arg int, ok bool) {
	if len(root.Imports) == 0 {
		return 0, 0, false
	}
	imp := root.Imports[choose("lateImport", len(root.Imports))]
	var generic *Def
	for _, d := range imp.Defs {
		if len(d.TypeParams) == 1 && (d.Kind == DRecord || d.Kind == DAlias) {
			generic = d
			break
		}
	}
	if generic == nil {
		if imp.Find("LateBox") != nil {
			return 0, 0, false
		}
		generic = &Def{Kind: DRecord, Name: "LateBox", TypeParams: []string{"T"}, Fields: []Field{{Name: "boxed", Type: Param("T")}, {Name: "count", Type: Prim("uint32")}}}
		imp.Defs = append(imp.Defs, generic)
	}
	if root.Find("LateArg") != nil || root.Find("LateUser") != nil {
		return 0, 0, false
	}
	var argDef *Def
	switch choose("lateArgKind", 3) {
	case 0:
		argDef = &Def{Kind: DRecord, Name: "LateArg", Fields: []Field{{Name: "a", Type: Prim("int32")}, {Name: "b", Type: Prim("float64")}}}
	case 1:
		argDef = &Def{Kind: DEnum, Name: "LateArg", ListValues: true, Values: []EnumVal{{Symbol: "first", Value: 0}, {Symbol: "second", Value: 1}}}
	default:
		argDef = &Def{Kind: DAlias, Name: "LateArg", Type: Vector(Prim("string"))}
	}
	ref := Ref(imp.Namespace, generic.Name, Ref(root.Namespace, "LateArg"))
	var userDef *Def
	switch choose("lateUserKind", 4) {
	case 0:
		userDef = &Def{Kind: DAlias, Name: "LateUser", Type: ref}
	case 1:
		userDef = &Def{Kind: DRecord, Name: "LateUser", Fields: []Field{{Name: "items", Type: Vector(ref)}}}
	case 2:
		userDef = &Def{Kind: DRecord, Name: "LateUser", Fields: []Field{{Name: "maybe", Type: Optional(ref)}, {Name: "n", Type: Prim("int32")}}}
	default:
		userDef = &Def{Kind: DRecord, Name: "LateUser", Fields: []Field{{Name: "held", Type: ref}}}
	}
	if root.NumFiles > 1 {
		argDef.File = choose("lateArgFile", root.NumFiles)
		userDef.File = choose("lateUserFile", root.NumFiles)
	}
	root.Defs = append(root.Defs, argDef, userDef)
	return len(root.Defs) - 1, len(root.Defs) - 2, true
}
