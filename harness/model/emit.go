package model

import (
	"fmt"
	"sort"
	"strings"
)

// Chooser picks one of n alternatives at a spelling decision point. Choice 0 is always the
// "plain" spelling (shorthand where possible, canonical primitive names, no extra comments).
type Chooser func(n int) int

func Plain(n int) int { return 0 }

// ---------------------------------------------------------------------------------------
// YAML tree + printer (we do not use a YAML library: the emitter is part of the trusted
// harness and must be able to write exactly the spelling it wants).

type YNode struct {
	Tag    string // "" or "!record" etc.
	Scalar *string
	Seq    []*YNode
	Keys   []*YNode // mapping keys (scalars)
	Vals   []*YNode
	IsMap  bool
	IsSeq  bool
	Flow   bool
	// HeadComment lines (without '#'), emitted above the node when it is a mapping key.
	HeadComment []string
	// LineComment is appended after a scalar / key line (non-documentation comment).
	LineComment string
	Quote       byte // 0, '"' or '\''
	Raw         bool // scalar text is written verbatim (used for the null literal)
}

func YS(s string) *YNode          { return &YNode{Scalar: &s} }
func YNull() *YNode               { s := ""; return &YNode{Scalar: &s} }
func YSeq(items ...*YNode) *YNode { return &YNode{IsSeq: true, Seq: items} }
func YMap() *YNode                { return &YNode{IsMap: true} }
func (n *YNode) Put(k string, v *YNode) *YNode {
	n.Keys = append(n.Keys, YS(k))
	n.Vals = append(n.Vals, v)
	return n
}
func (n *YNode) PutK(k *YNode, v *YNode) *YNode {
	n.Keys = append(n.Keys, k)
	n.Vals = append(n.Vals, v)
	return n
}

func needsQuote(s string, flow bool) bool {
	if s == "" {
		return false // empty scalar = null; callers wanting "" must set Quote
	}
	switch s {
	case "null", "Null", "NULL", "~", "true", "false", "True", "False", "yes", "no", "on", "off", "y", "n", "Y", "N", "Yes", "No", "On", "Off", "TRUE", "FALSE", "YES", "NO", "ON", "OFF":
		return true
	}
	c := s[0]
	if strings.ContainsRune("!&*?|>@`%#{}[],\"'-:", rune(c)) {
		// '-' / '?' / ':' are only indicators when followed by space, but quoting is always safe
		return true
	}
	if strings.Contains(s, ": ") || strings.Contains(s, " #") || strings.HasSuffix(s, ":") || strings.ContainsAny(s, "\n\t") {
		return true
	}
	if s[len(s)-1] == ' ' || s[0] == ' ' {
		return true
	}
	if flow {
		for _, r := range s {
			if !(r >= 'a' && r <= 'z' || r >= 'A' && r <= 'Z' || r >= '0' && r <= '9' || r == '.' || r == '_') {
				return true
			}
		}
	}
	return false
}

func scalarText(n *YNode, flow bool) string {
	s := *n.Scalar
	if n.Raw {
		return s
	}
	q := n.Quote
	if q == 0 && needsQuote(s, flow) {
		q = '"'
	}
	switch q {
	case '"':
		r := strings.NewReplacer("\\", "\\\\", "\"", "\\\"", "\n", "\\n", "\t", "\\t")
		s = "\"" + r.Replace(s) + "\""
	case '\'':
		s = "'" + strings.ReplaceAll(s, "'", "''") + "'"
	}
	return s
}

func flowText(n *YNode) string {
	t := ""
	if n.Tag != "" {
		t = n.Tag + " "
	}
	switch {
	case n.Scalar != nil:
		return t + scalarText(n, true)
	case n.IsSeq:
		var parts []string
		for _, c := range n.Seq {
			parts = append(parts, flowText(c))
		}
		return t + "[" + strings.Join(parts, ", ") + "]"
	case n.IsMap:
		var parts []string
		for i, k := range n.Keys {
			v := flowText(n.Vals[i])
			if v == "" {
				parts = append(parts, scalarText(k, true)+": null")
			} else {
				parts = append(parts, scalarText(k, true)+": "+v)
			}
		}
		return t + "{" + strings.Join(parts, ", ") + "}"
	}
	return t
}

func canFlow(n *YNode) bool {
	if len(n.HeadComment) > 0 || n.LineComment != "" {
		return false
	}
	for _, c := range n.Seq {
		if !canFlow(c) {
			return false
		}
	}
	for i := range n.Keys {
		if !canFlow(n.Keys[i]) || !canFlow(n.Vals[i]) {
			return false
		}
	}
	return true
}

// writeValue writes the value part following "key:" or "- ". The cursor is right after the
// colon / dash (no trailing space written yet).
func writeValue(b *strings.Builder, n *YNode, indent int) {
	lc := ""
	if n.LineComment != "" {
		lc = " # " + n.LineComment
	}
	if n.Scalar != nil {
		s := scalarText(n, false)
		if n.Tag != "" {
			b.WriteString(" " + n.Tag)
		}
		if s != "" {
			b.WriteString(" " + s)
		}
		b.WriteString(lc + "\n")
		return
	}
	if n.Flow && canFlow(n) {
		b.WriteString(" " + flowText(n) + lc + "\n")
		return
	}
	if n.Tag != "" {
		b.WriteString(" " + n.Tag)
	}
	if (n.IsSeq && len(n.Seq) == 0) || (n.IsMap && len(n.Keys) == 0) {
		if n.IsSeq {
			b.WriteString(" []" + lc + "\n")
		} else {
			b.WriteString(" {}" + lc + "\n")
		}
		return
	}
	b.WriteString(lc + "\n")
	writeBlock(b, n, indent+2)
}

func writeBlock(b *strings.Builder, n *YNode, indent int) {
	pad := strings.Repeat(" ", indent)
	switch {
	case n.IsMap:
		for i, k := range n.Keys {
			for _, c := range k.HeadComment {
				if c == "" {
					b.WriteString(pad + "#\n")
				} else {
					b.WriteString(pad + "# " + c + "\n")
				}
			}
			kt := scalarText(k, false)
			if k.Tag != "" {
				kt = k.Tag + " " + kt // a tagged key: `!switch target:`
			}
			b.WriteString(pad + kt + ":")
			writeValue(b, n.Vals[i], indent)
		}
	case n.IsSeq:
		for _, c := range n.Seq {
			for _, h := range c.HeadComment {
				b.WriteString(pad + "# " + h + "\n")
			}
			b.WriteString(pad + "-")
			writeValue(b, c, indent)
		}
	}
}

// ---------------------------------------------------------------------------------------
// Types

func primSpelling(p string, ch Chooser) string {
	al := AliasesOf(p)
	if len(al) == 0 {
		return p
	}
	k := ch(1 + len(al))
	if k == 0 {
		return p
	}
	return al[k-1]
}

func refName(t *Type, curNs string) string {
	if t.Ns == curNs || t.Ns == "" {
		return t.Name
	}
	return t.Ns + "." + t.Name
}

// Short renders t in the shorthand string syntax if it has one.
// atom=true demands a form that can take a tail (parenthesised when necessary).
func Short(t *Type, curNs string, ch Chooser) (string, bool) {
	switch t.Kind {
	case KPrim:
		return primSpelling(t.Prim, ch), true
	case KParam:
		return t.Name, true
	case KRef:
		s := refName(t, curNs)
		if len(t.Args) > 0 {
			var as []string
			for _, a := range t.Args {
				x, ok := Short(a, curNs, ch)
				if !ok {
					return "", false
				}
				as = append(as, x)
			}
			s += "<" + strings.Join(as, ", ") + ">"
		}
		return s, true
	case KOptional:
		x, ok := shortAtom(t.Elem, curNs, ch)
		if !ok {
			return "", false
		}
		return x + "?", true
	case KVector:
		x, ok := shortAtom(t.Elem, curNs, ch)
		if !ok {
			return "", false
		}
		if t.Len != nil {
			return fmt.Sprintf("%s*%d", x, *t.Len), true
		}
		return x + "*", true
	case KArray:
		x, ok := shortAtom(t.Elem, curNs, ch)
		if !ok {
			return "", false
		}
		if !t.HasDims {
			return x + "[]", true
		}
		if len(t.Dims) == 0 {
			return "", false
		}
		var ds []string
		allBare := true
		for _, d := range t.Dims {
			s := ""
			if d.Name != "" {
				s = d.Name
				allBare = false
			}
			if d.Len != nil {
				allBare = false
				if s != "" {
					s += ":"
				}
				s += fmt.Sprint(*d.Len)
			}
			ds = append(ds, s)
		}
		inner := strings.Join(ds, ",")
		if allBare && len(t.Dims) == 1 {
			inner = "()"
		}
		return x + "[" + inner + "]", true
	case KMap:
		k, ok := shortAtom(t.Key, curNs, ch)
		if !ok {
			return "", false
		}
		v, ok := Short(t.Elem, curNs, ch)
		if !ok {
			return "", false
		}
		return k + "->" + v, true
	}
	return "", false
}

func shortAtom(t *Type, curNs string, ch Chooser) (string, bool) {
	s, ok := Short(t, curNs, ch)
	if !ok {
		return "", false
	}
	if t.Kind == KMap {
		return "(" + s + ")", true
	}
	return s, true
}

// TypeNode renders a type as a YAML node. Decision points: shorthand vs expanded at every
// node that has both; primitive alias spelling; quoting style; flow vs block.
func TypeNode(t *Type, curNs string, ch Chooser) *YNode {
	if t == nil {
		return YS("null") // only used inside union sequences; rendered unquoted below
	}
	if s, ok := Short(t, curNs, Plain); ok && s != "" && !t.ContainsDimComment() {
		// shorthand exists: choose it unless the chooser asks for the expanded form
		expandable := t.Kind != KPrim && t.Kind != KParam && !(t.Kind == KRef && len(t.Args) == 0)
		if !expandable || ch(2) == 0 {
			s2, _ := Short(t, curNs, ch)
			n := YS(s2)
			switch ch(3) {
			case 1:
				n.Quote = '"'
			case 2:
				n.Quote = '\''
			}
			return n
		}
	}
	flow := ch(2) == 1
	switch t.Kind {
	case KPrim, KParam:
		s, _ := Short(t, curNs, ch)
		return YS(s)
	case KRef:
		n := YMap()
		n.Tag = "!generic"
		n.Put("name", YS(refName(t, curNs)))
		args := YSeq()
		for _, a := range t.Args {
			args.Seq = append(args.Seq, TypeNode(a, curNs, ch))
		}
		args.Flow = flow
		n.Put("args", args)
		n.Flow = flow
		return n
	case KOptional:
		n := YSeq(nullNode(), TypeNode(t.Elem, curNs, ch))
		n.Flow = flow
		return n
	case KUnion:
		if t.ExplicitTags {
			n := YMap()
			n.Tag = "!union"
			for i, c := range t.Cases {
				if c == nil {
					n.PutK(nullNode(), nullNode())
				} else {
					n.Put(t.Tags[i], TypeNode(c, curNs, ch))
				}
			}
			n.Flow = flow
			return n
		}
		n := YSeq()
		for _, c := range t.Cases {
			if c == nil {
				n.Seq = append(n.Seq, nullNode())
			} else {
				n.Seq = append(n.Seq, TypeNode(c, curNs, ch))
			}
		}
		n.Flow = flow
		return n
	case KVector:
		n := YMap()
		n.Tag = "!vector"
		n.Put("items", TypeNode(t.Elem, curNs, ch))
		if t.Len != nil {
			n.Put("length", YS(fmt.Sprint(*t.Len)))
		}
		n.Flow = flow
		return n
	case KArray:
		n := YMap()
		n.Tag = "!array"
		n.Put("items", TypeNode(t.Elem, curNs, ch))
		if t.HasDims {
			n.Put("dimensions", dimsNode(t, ch))
		}
		n.Flow = flow
		return n
	case KMap:
		n := YMap()
		n.Tag = "!map"
		n.Put("keys", TypeNode(t.Key, curNs, ch))
		n.Put("values", TypeNode(t.Elem, curNs, ch))
		n.Flow = flow
		return n
	case KStream:
		n := YMap()
		n.Tag = "!stream"
		n.Put("items", TypeNode(t.Elem, curNs, ch))
		n.Flow = flow
		return n
	}
	panic("unreachable")
}

func nullNode() *YNode {
	s := "null"
	return &YNode{Scalar: &s, Raw: true}
}

func dimsNode(t *Type, ch Chooser) *YNode {
	named, sized := false, false
	for _, d := range t.Dims {
		if d.Name != "" {
			named = true
		}
		if d.Len != nil {
			sized = true
		}
	}
	flow := ch(2) == 1
	if t.HasDimComment() {
		// documented dimensions: block mapping name -> length (all named) or block sequence, comments above the entries
		allNamed := true
		for _, d := range t.Dims {
			if d.Name == "" {
				allNamed = false
			}
		}
		if allNamed {
			n := YMap()
			for _, d := range t.Dims {
				k := YS(d.Name)
				k.HeadComment = commentLines(d.Comment)
				if d.Len != nil {
					n.PutK(k, YS(fmt.Sprint(*d.Len)))
				} else {
					n.PutK(k, YNull())
				}
			}
			return n
		}
		n := YSeq()
		for _, d := range t.Dims {
			var item *YNode
			switch {
			case d.Len != nil:
				item = YS(fmt.Sprint(*d.Len))
			case d.Name != "":
				item = YS(d.Name)
			default:
				item = nullNode()
			}
			item.HeadComment = commentLines(d.Comment)
			n.Seq = append(n.Seq, item)
		}
		return n
	}
	switch {
	case !named && !sized:
		if ch(2) == 0 {
			return YS(fmt.Sprint(len(t.Dims)))
		}
		n := YSeq()
		for range t.Dims {
			n.Seq = append(n.Seq, nullNode())
		}
		n.Flow = true
		return n
	case !named && sized:
		n := YSeq()
		for _, d := range t.Dims {
			n.Seq = append(n.Seq, YS(fmt.Sprint(*d.Len)))
		}
		n.Flow = flow
		return n
	default:
		allNamed := true
		for _, d := range t.Dims {
			if d.Name == "" {
				allNamed = false
			}
		}
		if allNamed && (sized || ch(2) == 1) {
			n := YMap()
			for _, d := range t.Dims {
				if d.Len != nil {
					n.Put(d.Name, YS(fmt.Sprint(*d.Len)))
				} else {
					n.Put(d.Name, YNull())
				}
			}
			n.Flow = flow && sized
			return n
		}
		// sequence of names (only possible when unsized) - mixed named/unnamed unsized dims
		n := YSeq()
		for _, d := range t.Dims {
			if d.Name != "" {
				n.Seq = append(n.Seq, YS(d.Name))
			} else {
				n.Seq = append(n.Seq, nullNode())
			}
		}
		n.Flow = flow
		return n
	}
}

// ---------------------------------------------------------------------------------------
// Definitions and files

func commentLines(c string) []string {
	if c == "" {
		return nil
	}
	return strings.Split(c, "\n")
}

func defKey(d *Def) *YNode {
	name := d.Name
	if len(d.TypeParams) > 0 {
		name += "<" + strings.Join(d.TypeParams, ", ") + ">"
	}
	k := YS(name)
	k.HeadComment = commentLines(d.Comment)
	return k
}

func fieldsNode(fs []Field, curNs string, ch Chooser) *YNode {
	m := YMap()
	for _, f := range fs {
		k := YS(f.Name)
		k.HeadComment = commentLines(f.Comment)
		m.PutK(k, TypeNode(f.Type, curNs, ch))
	}
	return m
}

func DefNode(d *Def, curNs string, ch Chooser) (*YNode, *YNode) {
	k := defKey(d)
	switch d.Kind {
	case DRecord:
		n := YMap()
		n.Tag = "!record"
		n.Put("fields", fieldsNode(d.Fields, curNs, ch))
		if len(d.Computed) > 0 {
			cf := YMap()
			for _, c := range d.Computed {
				ck := YS(c.Name)
				ck.HeadComment = commentLines(c.Comment)
				if c.Switch != nil {
					sw := YMap()
					cases := YMap()
					for _, sc := range c.Switch.Cases {
						if sc.Pattern == "null" {
							cases.PutK(nullNode(), exprNode(sc.Expr)) // the null pattern, not the string "null"
							continue
						}
						cases.Put(sc.Pattern, exprNode(sc.Expr))
					}
					tk := YS(c.Switch.Target)
					tk.Tag = "!switch"
					sw.PutK(tk, cases)
					cf.PutK(ck, sw)
				} else {
					cf.PutK(ck, exprNode(c.Expr))
				}
			}
			n.Put("computedFields", cf)
		}
		return k, n
	case DProtocol:
		n := YMap()
		n.Tag = "!protocol"
		n.Put("sequence", fieldsNode(d.Fields, curNs, ch))
		return k, n
	case DEnum, DFlags:
		n := YMap()
		if d.Kind == DEnum {
			n.Tag = "!enum"
		} else {
			n.Tag = "!flags"
		}
		if d.Base != "" && d.BaseRef != nil {
			n.Put("base", YS(refName(d.BaseRef, curNs)))
		} else if d.Base != "" {
			n.Put("base", YS(primSpelling(d.Base, ch)))
		}
		if d.ListValues {
			vs := YSeq()
			for _, v := range d.Values {
				s := YS(v.Symbol)
				s.HeadComment = commentLines(v.Comment)
				vs.Seq = append(vs.Seq, s)
			}
			n.Put("values", vs)
		} else {
			vs := YMap()
			for _, v := range d.Values {
				vk := YS(v.Symbol)
				vk.HeadComment = commentLines(v.Comment)
				if v.Explicit {
					var s string
					if v.Unsigned {
						s = fmt.Sprint(v.UValue)
						if ch(2) == 1 {
							s = fmt.Sprintf("0x%x", v.UValue)
						}
					} else {
						s = fmt.Sprint(v.Value)
					}
					vs.PutK(vk, YS(s))
				} else {
					vs.PutK(vk, YNull())
				}
			}
			n.Put("values", vs)
		}
		return k, n
	case DAlias:
		return k, TypeNode(d.Type, curNs, ch)
	}
	panic("unreachable")
}

func exprNode(e string) *YNode {
	n := YS(e)
	// expressions are parsed from the scalar text whatever its YAML type; keep plain unless unsafe
	return n
}

// Files is a rendered package directory: relative file name -> contents.
type Files map[string]string

// EmitOptions controls the package-level spelling.
type EmitOptions struct {
	Ch Chooser
	// Order: permutation of definition indexes (nil = declaration order).
	Order []int
	// FileOf overrides Def.File (nil = use Def.File); values index FileNames.
	FileOf []int
	// FileNames: names of the model files (default model0.yml, model1.yml...).
	FileNames []string
	// ExtraManifest is appended verbatim to _package.yml (cpp:/python:/... sections).
	ExtraManifest string
	// ImportPaths overrides the import path strings (default ../<DirName>).
	ImportPaths []string
	// NoiseComments adds non-documentation comments / blank lines.
	Noise bool
}

func DefaultFileNames(n int) []string {
	var out []string
	for i := 0; i < n; i++ {
		out = append(out, fmt.Sprintf("model%d.yml", i))
	}
	return out
}

// EmitPackage renders one package directory (not its imports).
func EmitPackage(p *Package, o EmitOptions) Files {
	ch := o.Ch
	if ch == nil {
		ch = Plain
	}
	nf := p.NumFiles
	if nf < 1 {
		nf = 1
	}
	names := o.FileNames
	if names == nil {
		names = DefaultFileNames(nf)
	}
	order := o.Order
	if order == nil {
		for i := range p.Defs {
			order = append(order, i)
		}
	}
	bufs := make([]*YNode, len(names))
	for i := range bufs {
		bufs[i] = YMap()
	}
	for _, di := range order {
		d := p.Defs[di]
		fi := d.File
		if o.FileOf != nil {
			fi = o.FileOf[di]
		}
		if fi >= len(bufs) {
			fi = len(bufs) - 1
		}
		k, v := DefNode(d, p.Namespace, ch)
		bufs[fi].PutK(k, v)
	}
	out := Files{}
	for i, m := range bufs {
		var b strings.Builder
		if o.Noise {
			b.WriteString("# generated model file\n\n")
		}
		if len(m.Keys) == 0 {
			// an empty file is a valid (empty) model file
			out[names[i]] = b.String()
			continue
		}
		// blank line between definitions (a blank line also detaches noise comments from doc comments)
		for j := range m.Keys {
			one := YMap()
			one.PutK(m.Keys[j], m.Vals[j])
			writeBlock(&b, one, 0)
			b.WriteString("\n")
		}
		out[names[i]] = b.String()
	}
	out["_package.yml"] = Manifest(p, o)
	return out
}

func Manifest(p *Package, o EmitOptions) string {
	var b strings.Builder
	fmt.Fprintf(&b, "namespace: %s\n", p.Namespace)
	if len(p.Imports) > 0 {
		b.WriteString("imports:\n")
		for i, im := range p.Imports {
			path := "../" + im.DirName
			if o.ImportPaths != nil && i < len(o.ImportPaths) {
				path = o.ImportPaths[i]
			}
			fmt.Fprintf(&b, "  - %s\n", path)
		}
	}
	if len(p.Versions) > 0 {
		b.WriteString("versions:\n")
		for _, v := range p.Versions {
			fmt.Fprintf(&b, "  %s: ../%s\n", v.Label, v.Pkg.DirName)
		}
	}
	b.WriteString(o.ExtraManifest)
	return b.String()
}

// Layout is a set of package directories: dir name -> files.
type Layout map[string]Files

// EmitLayout renders the root package and everything it references (imports, versions and
// their imports), each into its DirName, all with the plain spelling except the root which
// uses rootOpts.
func EmitLayout(root *Package, rootOpts EmitOptions) Layout {
	l := Layout{}
	seen := map[*Package]bool{}
	var rec func(p *Package, o EmitOptions)
	rec = func(p *Package, o EmitOptions) {
		if seen[p] {
			return
		}
		seen[p] = true
		l[p.DirName] = EmitPackage(p, o)
		for _, im := range p.Imports {
			rec(im, EmitOptions{})
		}
		for _, v := range p.Versions {
			rec(v.Pkg, EmitOptions{})
		}
	}
	rec(root, rootOpts)
	return l
}

// SplitDocuments turns a block-style model file into a file of several YAML documents: a `---` line is
// put in front of each top-level definition i >= 1 for which cut(i) is true (in front of the comment and
// blank lines that precede it, so that documentation comments stay with their definition). yardl reads
// every document of a file into the same namespace, so this is another way of writing the same model.
// Text that is not block style (flow style, no top-level keys) is returned unchanged.
func SplitDocuments(text string, cut func(i int) bool) string {
	lines := strings.SplitAfter(text, "\n")
	isKey := func(l string) bool {
		if l == "" {
			return false
		}
		c := l[0]
		return c != ' ' && c != '\t' && c != '#' && c != '\n' && c != '-' && c != '{' && c != '}' && c != '[' && c != ']' && strings.Contains(l, ":")
	}
	if len(lines) == 0 || strings.HasPrefix(strings.TrimSpace(text), "{") {
		return text
	}
	var starts []int // index of the first line belonging to each top-level definition
	for i, l := range lines {
		if isKey(l) {
			j := i
			for j > 0 && (strings.HasPrefix(lines[j-1], "#") || strings.TrimSpace(lines[j-1]) == "") {
				j--
			}
			starts = append(starts, j)
		}
	}
	if len(starts) < 2 {
		return text
	}
	cutAt := map[int]bool{}
	for k := 1; k < len(starts); k++ {
		if starts[k] > starts[k-1] && cut(k) {
			cutAt[starts[k]] = true
		}
	}
	var b strings.Builder
	for i, l := range lines {
		if cutAt[i] {
			b.WriteString("---\n")
		}
		b.WriteString(l)
	}
	return b.String()
}

// Text returns a stable textual dump of a layout (for samples / replay files).
func (l Layout) Text() string {
	var dirs []string
	for d := range l {
		dirs = append(dirs, d)
	}
	sort.Strings(dirs)
	var b strings.Builder
	for _, d := range dirs {
		var fs []string
		for f := range l[d] {
			fs = append(fs, f)
		}
		sort.Strings(fs)
		for _, f := range fs {
			fmt.Fprintf(&b, "--- %s/%s\n%s", d, f, l[d][f])
		}
	}
	return b.String()
}

// RenderFlow prints the whole tree in flow style (falls back to Render when comments forbid it).
// brk 0: one line; 1: a line break after every ','; 2: additionally a line break after every
// ':' that precedes a scalar value, so that the scalar starts in the first column of a line.
func (n *YNode) RenderFlow(brk int) string {
	if n.Scalar != nil || !canFlow(n) {
		return n.Render()
	}
	return flowTextBrk(n, brk) + "\n"
}

func flowTextBrk(n *YNode, brk int) string {
	t := ""
	if n.Tag != "" {
		t = n.Tag + " "
	}
	sep := ", "
	if brk >= 1 {
		sep = ",\n"
	}
	switch {
	case n.Scalar != nil:
		return t + scalarText(n, true)
	case n.IsSeq:
		var parts []string
		for _, c := range n.Seq {
			parts = append(parts, flowTextBrk(c, brk))
		}
		return t + "[" + strings.Join(parts, sep) + "]"
	case n.IsMap:
		var parts []string
		for i, k := range n.Keys {
			kt := scalarText(k, true)
			if k.Tag != "" {
				kt = k.Tag + " " + kt
			}
			v := flowTextBrk(n.Vals[i], brk)
			colon := ": "
			if brk >= 2 && n.Vals[i].Scalar != nil {
				colon = ":\n"
			}
			if v == "" {
				v = "null"
			}
			parts = append(parts, kt+colon+v)
		}
		return t + "{" + strings.Join(parts, sep) + "}"
	}
	return t
}

// Render prints a mapping or sequence node in block style (used by the fuzzing generators,
// which mutate the node trees of valid definitions).
func (n *YNode) Render() string {
	var b strings.Builder
	if n.Scalar != nil {
		b.WriteString(scalarText(n, false) + "\n")
		return b.String()
	}
	if n.Flow && canFlow(n) {
		return flowText(n) + "\n"
	}
	writeBlock(&b, n, 0)
	return b.String()
}

// PackageNodes returns, per model file index, the mapping node of its definitions.
func PackageNodes(p *Package, ch Chooser) []*YNode {
	nf := p.NumFiles
	if nf < 1 {
		nf = 1
	}
	out := make([]*YNode, nf)
	for i := range out {
		out[i] = YMap()
	}
	for _, d := range p.Defs {
		fi := d.File
		if fi >= nf {
			fi = nf - 1
		}
		k, v := DefNode(d, p.Namespace, ch)
		out[fi].PutK(k, v)
	}
	return out
}

// Clone deep-copies a node tree.
func (n *YNode) Clone() *YNode {
	if n == nil {
		return nil
	}
	c := *n
	if n.Scalar != nil {
		s := *n.Scalar
		c.Scalar = &s
	}
	c.Seq = nil
	for _, x := range n.Seq {
		c.Seq = append(c.Seq, x.Clone())
	}
	c.Keys, c.Vals = nil, nil
	for i := range n.Keys {
		c.Keys = append(c.Keys, n.Keys[i].Clone())
		c.Vals = append(c.Vals, n.Vals[i].Clone())
	}
	return &c
}

// Text returns a stable dump of one package directory.
func (f Files) Text() string {
	var names []string
	for n := range f {
		names = append(names, n)
	}
	sort.Strings(names)
	var b strings.Builder
	for _, n := range names {
		fmt.Fprintf(&b, "--- %s\n%s", n, f[n])
	}
	return b.String()
}
