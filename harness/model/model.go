// Package model is the harness's own intermediate representation of a yardl
// package. It shares no code with yardl: it is the thing the generators build,
// the emitters print as YAML, and the reference oracles interpret.
package model

import (
	"fmt"
	"sort"
	"strings"
)

type Kind int

const (
	KPrim Kind = iota
	KRef
	KParam
	KOptional
	KUnion
	KVector
	KArray
	KMap
	KStream
)

// Canonical primitive names.
var Prims = []string{
	"bool", "int8", "uint8", "int16", "uint16", "int32", "uint32", "int64", "uint64", "size",
	"float32", "float64", "complexfloat32", "complexfloat64", "string", "date", "time", "datetime",
}

// PrimAliases maps an alias spelling to the canonical name.
var PrimAliases = map[string]string{
	"byte": "uint8", "int": "int32", "uint": "uint32", "long": "int64", "ulong": "uint64",
	"float": "float32", "double": "float64", "complexfloat": "complexfloat32", "complexdouble": "complexfloat64",
}

// AliasesOf returns the alternative spellings of a canonical primitive.
func AliasesOf(p string) []string {
	var out []string
	for a, c := range PrimAliases {
		if c == p {
			out = append(out, a)
		}
	}
	sort.Strings(out)
	return out
}

var IntPrims = []string{"int8", "uint8", "int16", "uint16", "int32", "uint32", "int64", "uint64", "size"}
var NumericPrims = []string{"int8", "uint8", "int16", "uint16", "int32", "uint32", "int64", "uint64", "size", "float32", "float64"}

func IsIntPrim(p string) bool {
	for _, x := range IntPrims {
		if x == p {
			return true
		}
	}
	return false
}

func IsSignedInt(p string) bool {
	return p == "int8" || p == "int16" || p == "int32" || p == "int64"
}

func IntBits(p string) int {
	switch p {
	case "int8", "uint8":
		return 8
	case "int16", "uint16":
		return 16
	case "int32", "uint32":
		return 32
	case "int64", "uint64", "size":
		return 64
	}
	return 0
}

type Dim struct {
	Name string // "" = unnamed
	Len  *uint64
	// Comment: documentation comment written above the dimension (forces the expanded !array spelling)
	Comment string `json:",omitempty"`
}

// ContainsDimComment: t or a type nested in it is an array with a documented dimension.
func (t *Type) ContainsDimComment() bool {
	found := false
	Walk(t, func(x *Type) {
		if x != nil && x.Kind == KArray && x.HasDimComment() {
			found = true
		}
	})
	return found
}

// HasDimComment: some dimension carries a documentation comment.
func (t *Type) HasDimComment() bool {
	for _, d := range t.Dims {
		if d.Comment != "" {
			return true
		}
	}
	return false
}

// Type is a type expression.
type Type struct {
	Kind  Kind
	Prim  string  // KPrim: canonical primitive name
	Ns    string  // KRef: namespace of the referenced definition
	Name  string  // KRef: definition name; KParam: parameter name
	Args  []*Type // KRef: generic arguments
	Elem  *Type   // optional / vector / array / map value / stream item
	Key   *Type   // map key
	Cases []*Type // KUnion: cases; a nil entry is the null case (only index 0)
	Tags  []string
	// ExplicitTags: emit with the !union {tag: type} syntax. Otherwise tags are derived by yardl.
	ExplicitTags bool
	// OpenCases: this union comes from a generic definition in which some case is a bare type
	// parameter (set by Subst). The generated code of a generic type cannot know the argument,
	// so whether such a union is tagged in NDJSON is left open by the harness.
	OpenCases bool
	Len       *uint64 // KVector fixed length
	HasDims   bool    // KArray: false = dynamic number of dimensions
	Dims      []Dim   // KArray when HasDims
}

func Prim(p string) *Type { return &Type{Kind: KPrim, Prim: p} }
func Ref(ns, name string, args ...*Type) *Type {
	return &Type{Kind: KRef, Ns: ns, Name: name, Args: args}
}
func Param(n string) *Type   { return &Type{Kind: KParam, Name: n} }
func Optional(t *Type) *Type { return &Type{Kind: KOptional, Elem: t} }
func Vector(t *Type) *Type   { return &Type{Kind: KVector, Elem: t} }
func FixedVector(t *Type, n uint64) *Type {
	return &Type{Kind: KVector, Elem: t, Len: &n}
}
func Map(k, v *Type) *Type   { return &Type{Kind: KMap, Key: k, Elem: v} }
func Stream(t *Type) *Type   { return &Type{Kind: KStream, Elem: t} }
func DynArray(t *Type) *Type { return &Type{Kind: KArray, Elem: t} }

// IsFixedArray reports whether all dimensions have lengths.
func (t *Type) IsFixedArray() bool {
	return t.Kind == KArray && t.HasDims && len(t.Dims) > 0 && t.Dims[0].Len != nil
}

func (t *Type) HasNull() bool {
	return t.Kind == KUnion && len(t.Cases) > 0 && t.Cases[0] == nil
}

func (t *Type) Clone() *Type {
	if t == nil {
		return nil
	}
	c := *t
	c.Args = cloneTypes(t.Args)
	c.Elem = t.Elem.Clone()
	c.Key = t.Key.Clone()
	c.Cases = cloneTypes(t.Cases)
	c.Tags = append([]string(nil), t.Tags...)
	if t.Len != nil {
		l := *t.Len
		c.Len = &l
	}
	c.Dims = make([]Dim, len(t.Dims))
	for i, d := range t.Dims {
		c.Dims[i] = d
		if d.Len != nil {
			l := *d.Len
			c.Dims[i].Len = &l
		}
	}
	if len(t.Dims) == 0 {
		c.Dims = nil
	}
	return &c
}

func cloneTypes(ts []*Type) []*Type {
	if ts == nil {
		return nil
	}
	out := make([]*Type, len(ts))
	for i, t := range ts {
		out[i] = t.Clone()
	}
	return out
}

type DefKind int

const (
	DRecord DefKind = iota
	DEnum
	DFlags
	DAlias
	DProtocol
)

type Field struct {
	Name    string
	Type    *Type
	Comment string
}

type Computed struct {
	Name    string
	Expr    string // yardl expression text (single-line) ...
	Switch  *SwitchExpr
	Comment string
}

// SwitchExpr is a !switch computed field.
type SwitchExpr struct {
	Target string
	Cases  []SwitchCase
}
type SwitchCase struct {
	Pattern string // e.g. "int32", "Foo v", "_", "null"
	Expr    string
}

type EnumVal struct {
	Symbol   string
	Value    int64  // used when !Unsigned
	UValue   uint64 // used when Unsigned
	Unsigned bool
	Explicit bool // emit "symbol: value" (else rely on auto assignment)
	Comment  string
}

type Def struct {
	Kind       DefKind
	Name       string
	TypeParams []string
	Comment    string
	Fields     []Field    // DRecord; DProtocol: the steps
	Computed   []Computed // DRecord
	Base       string     // DEnum/DFlags: canonical primitive, "" = default (int32)
	// BaseRef: when set, the base type is spelled as this reference to an alias that resolves to Base
	BaseRef *Type `json:",omitempty"`
	Values     []EnumVal
	// ListValues: emit enum values as a YAML list (auto values) rather than a map.
	ListValues bool
	Type       *Type // DAlias
	File       int   // index of the model file this definition is emitted into
}

func (d *Def) Clone() *Def {
	c := *d
	c.TypeParams = append([]string(nil), d.TypeParams...)
	c.Fields = make([]Field, len(d.Fields))
	for i, f := range d.Fields {
		c.Fields[i] = f
		c.Fields[i].Type = f.Type.Clone()
	}
	c.Computed = append([]Computed(nil), d.Computed...)
	for i := range c.Computed {
		if c.Computed[i].Switch != nil {
			s := *c.Computed[i].Switch
			s.Cases = append([]SwitchCase(nil), s.Cases...)
			c.Computed[i].Switch = &s
		}
	}
	c.Values = append([]EnumVal(nil), d.Values...)
	c.Type = d.Type.Clone()
	c.BaseRef = d.BaseRef.Clone()
	return &c
}

func (d *Def) EffectiveBase() string {
	if d.Base == "" {
		return "int32"
	}
	return d.Base
}

type Version struct {
	Label string
	Pkg   *Package
}

// Package is one yardl package (one namespace, one directory).
type Package struct {
	Namespace string
	DirName   string // directory name relative to the layout root
	Defs      []*Def
	NumFiles  int
	Imports   []*Package
	Versions  []Version
}

func (p *Package) Clone() *Package {
	c := *p
	c.Defs = make([]*Def, len(p.Defs))
	for i, d := range p.Defs {
		c.Defs[i] = d.Clone()
	}
	c.Imports = append([]*Package(nil), p.Imports...)
	c.Versions = append([]Version(nil), p.Versions...)
	return &c
}

// DeepClone also clones imported packages and versions (shared imports stay shared).
func (p *Package) DeepClone() *Package {
	seen := map[*Package]*Package{}
	var rec func(q *Package) *Package
	rec = func(q *Package) *Package {
		if c, ok := seen[q]; ok {
			return c
		}
		c := q.Clone()
		seen[q] = c
		for i, im := range q.Imports {
			c.Imports[i] = rec(im)
		}
		for i, v := range q.Versions {
			c.Versions[i] = Version{Label: v.Label, Pkg: rec(v.Pkg)}
		}
		return c
	}
	return rec(p)
}

func (p *Package) Find(name string) *Def {
	for _, d := range p.Defs {
		if d.Name == name {
			return d
		}
	}
	return nil
}

func (p *Package) Protocols() []*Def {
	var out []*Def
	for _, d := range p.Defs {
		if d.Kind == DProtocol {
			out = append(out, d)
		}
	}
	return out
}

// AllPackages returns p and everything reachable through imports, imports first.
func (p *Package) AllPackages() []*Package {
	seen := map[*Package]bool{}
	var out []*Package
	var rec func(q *Package)
	rec = func(q *Package) {
		if seen[q] {
			return
		}
		seen[q] = true
		for _, im := range q.Imports {
			rec(im)
		}
		out = append(out, q)
	}
	rec(p)
	return out
}

// Env resolves references among a package and its imports.
type Env struct {
	Root *Package
	byNs map[string]*Package
}

func NewEnv(root *Package) *Env {
	e := &Env{Root: root, byNs: map[string]*Package{}}
	for _, p := range root.AllPackages() {
		e.byNs[p.Namespace] = p
	}
	return e
}

func (e *Env) Lookup(ns, name string) *Def {
	p := e.byNs[ns]
	if p == nil {
		return nil
	}
	return p.Find(name)
}

// Subst replaces type parameters by arguments.
func Subst(t *Type, bind map[string]*Type) *Type {
	if t == nil || len(bind) == 0 {
		return t
	}
	switch t.Kind {
	case KParam:
		if b, ok := bind[t.Name]; ok {
			return b
		}
		return t
	case KPrim:
		return t
	}
	c := *t
	if t.Args != nil {
		c.Args = make([]*Type, len(t.Args))
		for i, a := range t.Args {
			c.Args[i] = Subst(a, bind)
		}
	}
	c.Elem = Subst(t.Elem, bind)
	c.Key = Subst(t.Key, bind)
	if t.Cases != nil {
		c.Cases = make([]*Type, len(t.Cases))
		for i, a := range t.Cases {
			if a != nil && a.Kind == KParam {
				c.OpenCases = true
			}
			c.Cases[i] = Subst(a, bind)
		}
	}
	return &c
}

func Bind(d *Def, args []*Type) map[string]*Type {
	if len(d.TypeParams) == 0 {
		return nil
	}
	m := map[string]*Type{}
	for i, p := range d.TypeParams {
		if i < len(args) {
			m[p] = args[i]
		}
	}
	return m
}

// Underlying follows aliases until it reaches a non-alias type. For a reference to a
// record/enum/flags it returns the reference itself (with substituted arguments).
func (e *Env) Underlying(t *Type) *Type {
	for t != nil && t.Kind == KRef {
		d := e.Lookup(t.Ns, t.Name)
		if d == nil {
			panic(fmt.Sprintf("unresolved reference %s.%s", t.Ns, t.Name))
		}
		if d.Kind != DAlias {
			return t
		}
		t = Subst(d.Type, Bind(d, t.Args))
	}
	return t
}

// RecordFields returns the fields of a record reference with type arguments substituted.
func (e *Env) RecordFields(t *Type) []Field {
	d := e.Lookup(t.Ns, t.Name)
	b := Bind(d, t.Args)
	out := make([]Field, len(d.Fields))
	for i, f := range d.Fields {
		out[i] = Field{Name: f.Name, Type: Subst(f.Type, b)}
	}
	return out
}

// Canon renders a type with all aliases resolved, used for structural equality
// ("same type after alias resolution", with size == uint64 as yardl's union check has it).
func (e *Env) Canon(t *Type) string {
	if t == nil {
		return "null"
	}
	t = e.Underlying(t)
	switch t.Kind {
	case KPrim:
		if t.Prim == "size" {
			return "uint64"
		}
		return t.Prim
	case KParam:
		return "$" + t.Name
	case KRef:
		s := t.Ns + "." + t.Name
		if len(t.Args) > 0 {
			var as []string
			for _, a := range t.Args {
				as = append(as, e.Canon(a))
			}
			s += "<" + strings.Join(as, ",") + ">"
		}
		return s
	case KOptional:
		return "[null," + e.Canon(t.Elem) + "]"
	case KUnion:
		var cs []string
		for _, c := range t.Cases {
			cs = append(cs, e.Canon(c))
		}
		return "[" + strings.Join(cs, ",") + "]"
	case KVector:
		if t.Len != nil {
			return fmt.Sprintf("%s*%d", e.Canon(t.Elem), *t.Len)
		}
		return e.Canon(t.Elem) + "*"
	case KArray:
		if !t.HasDims {
			return e.Canon(t.Elem) + "[]"
		}
		var ds []string
		for _, d := range t.Dims {
			if d.Len != nil {
				ds = append(ds, fmt.Sprint(*d.Len))
			} else {
				ds = append(ds, "")
			}
		}
		return e.Canon(t.Elem) + "[(" + strings.Join(ds, ",") + ")]"
	case KMap:
		return e.Canon(t.Key) + "->" + e.Canon(t.Elem)
	case KStream:
		return "stream(" + e.Canon(t.Elem) + ")"
	}
	return "?"
}

// Walk visits t and all nested types.
func Walk(t *Type, f func(*Type)) {
	if t == nil {
		return
	}
	f(t)
	for _, a := range t.Args {
		Walk(a, f)
	}
	Walk(t.Elem, f)
	Walk(t.Key, f)
	for _, c := range t.Cases {
		Walk(c, f)
	}
}

// DefTypes calls f for every top-level type expression in a definition.
func DefTypes(d *Def, f func(*Type)) {
	for _, fl := range d.Fields {
		f(fl.Type)
	}
	if d.Type != nil {
		f(d.Type)
	}
}

// TypeOK checks the union rules on t after substitution of all generic arguments, following
// references into generic definitions: union cases pairwise distinct after alias resolution,
// and no union/optional directly nested in a union/optional.
func (e *Env) TypeOK(t *Type) bool {
	return e.typeOK(t, map[string]bool{})
}

func (e *Env) typeOK(t *Type, seen map[string]bool) bool {
	if t == nil {
		return true
	}
	switch t.Kind {
	case KPrim, KParam:
		return true
	case KRef:
		for _, a := range t.Args {
			if !e.typeOK(a, seen) {
				return false
			}
		}
		if len(t.Args) == 0 {
			return true // checked when the definition itself was generated
		}
		// keyed by the reference as written (an alias and its target have the same canonical form,
		// and both must be looked into)
		key := t.Ns + "." + t.Name + "<"
		for _, a := range t.Args {
			key += e.canonSafe(a) + ","
		}
		if seen[key] {
			return true
		}
		seen[key] = true
		d := e.Lookup(t.Ns, t.Name)
		if d == nil {
			return false
		}
		b := Bind(d, t.Args)
		ok := true
		DefTypes(d, func(x *Type) {
			if ok && !e.typeOK(Subst(x, b), seen) {
				ok = false
			}
		})
		return ok
	case KOptional:
		if t.Elem.Kind == KOptional || t.Elem.Kind == KUnion {
			return false
		}
		return e.typeOK(t.Elem, seen)
	case KUnion:
		cs := map[string]bool{}
		for _, c := range t.Cases {
			if c == nil {
				continue
			}
			if c.Kind == KOptional || c.Kind == KUnion {
				return false
			}
			k := e.canonSafe(c)
			if cs[k] {
				return false
			}
			cs[k] = true
			if !e.typeOK(c, seen) {
				return false
			}
		}
		return true
	default:
		return e.typeOK(t.Elem, seen) && e.typeOK(t.Key, seen)
	}
}

// WalkInstantiated visits t and every type nested in it, following references into record
// fields and alias bodies with generic arguments substituted (each distinct instantiation once).
func (e *Env) WalkInstantiated(t *Type, f func(*Type)) {
	seen := map[string]bool{}
	var rec func(x *Type)
	rec = func(x *Type) {
		if x == nil {
			return
		}
		f(x)
		switch x.Kind {
		case KRef:
			for _, a := range x.Args {
				rec(a)
			}
			d := e.Lookup(x.Ns, x.Name)
			if d == nil || d.Kind == DEnum || d.Kind == DFlags || d.Kind == DProtocol {
				return
			}
			key := e.canonSafe(x)
			if d.Kind == DRecord {
				key = "rec:" + x.Ns + "." + x.Name
				for _, a := range x.Args {
					key += "," + e.canonSafe(a)
				}
			}
			if seen[key] {
				return
			}
			seen[key] = true
			b := Bind(d, x.Args)
			DefTypes(d, func(y *Type) { rec(Subst(y, b)) })
		default:
			rec(x.Elem)
			rec(x.Key)
			for _, c := range x.Cases {
				rec(c)
			}
		}
	}
	rec(t)
}

// ShapeSwitches are type shapes the generator can be told to avoid (cfg.Excl), each tied to a
// known finding. The predicate sees one node of a fully instantiated type.
var ShapeSwitches = map[string]func(e *Env, t *Type) bool{
	// C++: std::vector<bool> cannot be (de)serialized by the shipped headers (does not compile)
	"vector-of-bool": func(e *Env, t *Type) bool {
		if (t.Kind == KVector && t.Len == nil) || t.Kind == KStream {
			u := e.underlyingSafe(t.Elem)
			return u != nil && u.Kind == KPrim && u.Prim == "bool"
		}
		return false
	},
}

func init() {
	// Python: Optional[Optional[T]] (reachable through an alias) cannot tell "present but null"
	// from "absent": the value collapses on a round trip
	ShapeSwitches["nested-optional-via-alias"] = func(e *Env, t *Type) bool {
		nullable := func(x *Type) bool {
			u := e.underlyingSafe(x)
			return u != nil && (u.Kind == KOptional || (u.Kind == KUnion && u.HasNull()))
		}
		switch t.Kind {
		case KOptional:
			return nullable(t.Elem)
		case KUnion:
			// a case that is itself nullable (through an alias)
			for _, c := range t.Cases {
				if c != nil && nullable(c) {
					return true
				}
			}
		}
		return false
	}
}

func init() {
	// Python NDJSON writer: the dtype check of structured arrays (records, optionals) rejects the
	// aligned dtype that the Python binary reader produces
	ShapeSwitches["array-of-struct"] = func(e *Env, t *Type) bool {
		if t.Kind != KArray {
			return false
		}
		u := e.underlyingSafe(t.Elem)
		if u == nil {
			return false
		}
		if u.Kind == KOptional {
			return true
		}
		if u.Kind == KPrim && (u.Prim == "date" || u.Prim == "time" || u.Prim == "datetime") {
			return true
		}
		if u.Kind == KVector && u.Len != nil {
			if x := e.underlyingSafe(u.Elem); x != nil && x.Kind == KPrim && (x.Prim == "date" || x.Prim == "time" || x.Prim == "datetime") {
				return true
			}
		}
		if u.Kind == KRef {
			if d := e.Lookup(u.Ns, u.Name); d != nil && d.Kind == DRecord {
				return true
			}
		}
		return false
	}
	// Python binary code: structured arrays whose elements are not plain fixed-layout numbers (an optional,
	// a date/time/datetime, or a record with a field that is anything but a number, bool, complex,
	// or a nested record / fixed vector / fixed array of those) - the dtypes the serializers, get_dtype
	// and the readers use for such elements do not agree with each other
	ShapeSwitches["array-of-nonplain-struct"] = func(e *Env, t *Type) bool {
		if t.Kind != KArray || !ShapeSwitches["array-of-struct"](e, t) {
			return false
		}
		var plain func(x *Type, depth int) bool
		plain = func(x *Type, depth int) bool {
			u := e.underlyingSafe(x)
			if u == nil || depth > 6 {
				return false
			}
			switch u.Kind {
			case KPrim:
				return IsIntPrim(u.Prim) || u.Prim == "bool" || strings.HasPrefix(u.Prim, "float") || strings.HasPrefix(u.Prim, "complex")
			case KVector:
				return u.Len != nil && plain(u.Elem, depth+1)
			case KArray:
				return u.IsFixedArray() && plain(u.Elem, depth+1)
			case KRef:
				d := e.Lookup(u.Ns, u.Name)
				if d == nil || d.Kind != DRecord || len(u.Args) > 0 || len(d.TypeParams) > 0 {
					return false
				}
				for _, f := range d.Fields {
					if !plain(f.Type, depth+1) {
						return false
					}
				}
				return true
			}
			return false
		}
		u := e.underlyingSafe(t.Elem)
		if u == nil || u.Kind != KRef {
			return true // optional, date/time/datetime elements
		}
		return !plain(t.Elem, 0)
	}
	// Python: a union passed directly as a generic type argument gets no usable class name
	// (import fails with "Cannot find dtype", or the generated code refers to a missing attribute)
	ShapeSwitches["union-as-generic-arg"] = func(e *Env, t *Type) bool {
		if t.Kind != KRef {
			return false
		}
		for _, a := range t.Args {
			if a != nil && a.Kind == KUnion {
				return true
			}
		}
		return false
	}
	// NDJSON: a union holding a flags case next to a case that serializes as a number is written
	// untagged although a flags value outside the declared symbols is written as a number
	ShapeSwitches["union-flags-with-number"] = func(e *Env, t *Type) bool {
		if t.Kind != KUnion {
			return false
		}
		hasFlags := false
		seen, simple := 0, true
		for _, c := range t.Cases {
			k := e.jsonKindsFlagsAsArray(c)
			if k&seen != 0 {
				simple = false
			}
			seen |= k
			if c != nil {
				if u := e.underlyingSafe(c); u != nil && u.Kind == KRef {
					if d := e.Lookup(u.Ns, u.Name); d != nil && d.Kind == DFlags {
						hasFlags = true
					}
				}
			}
		}
		// written untagged (flags counted as "array" only) although a flags value outside the
		// declared symbols is written as a number
		return hasFlags && simple
	}
}

// jsonKindsFlagsAsArray: JSON datatypes of a type, with flags counted as array only (bit set:
// 1 null, 2 bool, 4 number, 8 string, 16 array, 32 object).
func (e *Env) jsonKindsFlagsAsArray(t *Type) int {
	if t == nil {
		return 1
	}
	u := e.underlyingSafe(t)
	if u == nil {
		return 32
	}
	switch u.Kind {
	case KPrim:
		switch u.Prim {
		case "bool":
			return 2
		case "string", "date", "time", "datetime":
			return 8
		case "complexfloat32", "complexfloat64":
			return 16
		}
		return 4
	case KRef:
		d := e.Lookup(u.Ns, u.Name)
		if d == nil {
			return 32
		}
		switch d.Kind {
		case DEnum:
			return 8 | 4
		case DFlags:
			return 16
		}
		return 32
	case KOptional:
		return 1 | e.jsonKindsFlagsAsArray(u.Elem)
	case KUnion:
		k := 0
		for _, c := range u.Cases {
			k |= e.jsonKindsFlagsAsArray(c)
		}
		return k | 32
	case KVector:
		return 16
	case KArray:
		if u.IsFixedArray() {
			return 16
		}
		return 32
	case KMap:
		if k := e.underlyingSafe(u.Key); k != nil && k.Kind == KPrim && k.Prim == "string" {
			return 32
		}
		return 16
	}
	return 32
}

func init() {
	// Python binary: an array whose elements are variable-length vectors (reachable through a
	// generic argument) comes back with ndarray elements that the writer then refuses
	ShapeSwitches["array-of-vector"] = func(e *Env, t *Type) bool {
		if t.Kind != KArray {
			return false
		}
		u := e.underlyingSafe(t.Elem)
		return u != nil && ((u.Kind == KVector && u.Len == nil) || u.Kind == KMap || u.Kind == KArray)
	}
}

func (e *Env) underlyingSafe(t *Type) (u *Type) {
	defer func() {
		if recover() != nil {
			u = nil
		}
	}()
	return e.Underlying(t)
}
