package model

import "fmt"

// Slot is one position in a package where a type expression stands.
type Slot struct {
	Pkg   *Package
	Def   *Def
	Field int    // index into Def.Fields (record field / protocol step), -1 for an alias body
	Path  string // human-readable path, e.g. "Rec1.alpha/elem/case1"
	Depth int    // 0 = the whole field/step/alias type
	// Ctx describes the immediate parent constructor: "", "stream", "optional", "union", "vector",
	// "array", "mapkey", "mapval", "arg"
	Ctx string
	get func() *Type
	set func(*Type)
}

func (s Slot) Get() *Type  { return s.get() }
func (s Slot) Set(t *Type) { s.set(t) }

// Slots enumerates every type position of the package's own definitions (not imports).
func Slots(p *Package) []Slot {
	var out []Slot
	var rec func(d *Def, fi int, path string, depth int, ctx string, get func() *Type, set func(*Type))
	rec = func(d *Def, fi int, path string, depth int, ctx string, get func() *Type, set func(*Type)) {
		t := get()
		if t == nil {
			return
		}
		out = append(out, Slot{Pkg: p, Def: d, Field: fi, Path: path, Depth: depth, Ctx: ctx, get: get, set: set})
		switch t.Kind {
		case KRef:
			for i := range t.Args {
				i := i
				rec(d, fi, fmt.Sprintf("%s/arg%d", path, i), depth+1, "arg", func() *Type { return get().Args[i] }, func(x *Type) { get().Args[i] = x })
			}
		case KOptional:
			rec(d, fi, path+"/opt", depth+1, "optional", func() *Type { return get().Elem }, func(x *Type) { get().Elem = x })
		case KVector:
			rec(d, fi, path+"/elem", depth+1, "vector", func() *Type { return get().Elem }, func(x *Type) { get().Elem = x })
		case KArray:
			rec(d, fi, path+"/elem", depth+1, "array", func() *Type { return get().Elem }, func(x *Type) { get().Elem = x })
		case KStream:
			rec(d, fi, path+"/items", depth+1, "stream", func() *Type { return get().Elem }, func(x *Type) { get().Elem = x })
		case KMap:
			rec(d, fi, path+"/key", depth+1, "mapkey", func() *Type { return get().Key }, func(x *Type) { get().Key = x })
			rec(d, fi, path+"/val", depth+1, "mapval", func() *Type { return get().Elem }, func(x *Type) { get().Elem = x })
		case KUnion:
			for i := range t.Cases {
				i := i
				if t.Cases[i] == nil {
					continue
				}
				rec(d, fi, fmt.Sprintf("%s/case%d", path, i), depth+1, "union", func() *Type { return get().Cases[i] }, func(x *Type) { get().Cases[i] = x })
			}
		}
	}
	for _, d := range p.Defs {
		d := d
		switch d.Kind {
		case DRecord, DProtocol:
			for i := range d.Fields {
				i := i
				rec(d, i, d.Name+"."+d.Fields[i].Name, 0, "", func() *Type { return d.Fields[i].Type }, func(x *Type) { d.Fields[i].Type = x })
			}
		case DAlias:
			rec(d, -1, d.Name, 0, "", func() *Type { return d.Type }, func(x *Type) { d.Type = x })
		}
	}
	return out
}

// Reachable returns the set of definitions ("Ns.Name") transitively referenced from the given
// protocol (or from all protocols of the root package when proto == nil).
func (e *Env) Reachable(protos ...*Def) map[string]bool {
	seen := map[string]bool{}
	var visitT func(t *Type)
	var visitD func(ns string, d *Def)
	visitT = func(t *Type) {
		Walk(t, func(x *Type) {
			if x.Kind == KRef {
				if d := e.Lookup(x.Ns, x.Name); d != nil {
					visitD(x.Ns, d)
				}
			}
		})
	}
	visitD = func(ns string, d *Def) {
		k := ns + "." + d.Name
		if seen[k] {
			return
		}
		seen[k] = true
		DefTypes(d, visitT)
	}
	if len(protos) == 0 {
		protos = e.Root.Protocols()
	}
	for _, p := range protos {
		for _, f := range p.Fields {
			visitT(f.Type)
		}
	}
	return seen
}

// UseContexts returns, for every definition ("Ns.Name") reachable from the protocols of the
// root package, the set of type constructors that wrap it on some path from a protocol step:
// "stream", "optional", "union", "vector", "array", "mapval", "mapkey", "arg" (generic
// argument). A definition used only as a step type / stream item / record field / alias target
// has the empty set (or just "stream").
func (e *Env) UseContexts() map[string]map[string]bool {
	out := map[string]map[string]bool{}
	type state struct {
		key string
		ctx string
	}
	seen := map[state]bool{}
	var visitT func(t *Type, ctx map[string]bool)
	join := func(m map[string]bool) string {
		s := ""
		for _, k := range []string{"arg", "array", "mapkey", "mapval", "optional", "stream", "union", "vector"} {
			if m[k] {
				s += k + ","
			}
		}
		return s
	}
	with := func(m map[string]bool, k string) map[string]bool {
		n := map[string]bool{}
		for a := range m {
			n[a] = true
		}
		n[k] = true
		return n
	}
	visitT = func(t *Type, ctx map[string]bool) {
		if t == nil {
			return
		}
		switch t.Kind {
		case KRef:
			d := e.Lookup(t.Ns, t.Name)
			if d == nil {
				return
			}
			key := t.Ns + "." + t.Name
			if out[key] == nil {
				out[key] = map[string]bool{}
			}
			for k := range ctx {
				out[key][k] = true
			}
			for _, a := range t.Args {
				visitT(a, with(ctx, "arg"))
			}
			st := state{key, join(ctx)}
			if seen[st] {
				return
			}
			seen[st] = true
			DefTypes(d, func(x *Type) { visitT(x, ctx) })
		case KOptional:
			visitT(t.Elem, with(ctx, "optional"))
		case KVector:
			visitT(t.Elem, with(ctx, "vector"))
		case KArray:
			visitT(t.Elem, with(ctx, "array"))
		case KStream:
			visitT(t.Elem, with(ctx, "stream"))
		case KMap:
			visitT(t.Key, with(ctx, "mapkey"))
			visitT(t.Elem, with(ctx, "mapval"))
		case KUnion:
			for _, c := range t.Cases {
				visitT(c, with(ctx, "union"))
			}
		}
	}
	for _, p := range e.Root.Protocols() {
		for _, f := range p.Fields {
			visitT(f.Type, map[string]bool{})
		}
	}
	return out
}
