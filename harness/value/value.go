// Package value is the harness's representation of yardl values, independent of any target
// language, with a type-directed, edge-biased generator.
package value

import (
	"fmt"
	"math"
	"sort"
	"strings"

	"verif/harness/model"
)

type Kind int

const (
	Null Kind = iota
	Bool
	Int   // signed integers, enum values with signed base, date (days), time (ns), datetime (ns)
	Uint  // unsigned integers, enum/flags with unsigned base
	Float // float32 (exactly representable) and float64
	Complex
	String
	Union  // optional or union: Case = index into the type's case list; Items[0] = inner (absent for null)
	Seq    // vector (fixed or not)
	Array  // Shape + row-major Items
	Map    // Keys + Items (values), insertion order irrelevant
	Record // Items = field values in declaration order
)

type Value struct {
	K     Kind      `json:"k"`
	B     bool      `json:"b,omitempty"`
	I     int64     `json:"i,omitempty"`
	U     uint64    `json:"u,omitempty"`
	F     float64   `json:"-"`
	FBits uint64    `json:"f,omitempty"` // bit pattern of F (JSON cannot carry NaN/inf)
	C     [2]uint64 `json:"c,omitempty"` // bit patterns of re, im
	S     string    `json:"s,omitempty"`
	Case  int       `json:"case,omitempty"`
	Items []*Value  `json:"items,omitempty"`
	Keys  []*Value  `json:"keys,omitempty"`
	Shape []uint64  `json:"shape,omitempty"`
}

func (v *Value) Re() float64 { return math.Float64frombits(v.C[0]) }
func (v *Value) Im() float64 { return math.Float64frombits(v.C[1]) }

func NewFloat(f float64) *Value { return &Value{K: Float, F: f, FBits: math.Float64bits(f)} }
func NewComplex(re, im float64) *Value {
	return &Value{K: Complex, C: [2]uint64{math.Float64bits(re), math.Float64bits(im)}}
}

// Fix restores F from FBits after JSON decoding (recursively).
func (v *Value) Fix() {
	if v == nil {
		return
	}
	if v.K == Float {
		v.F = math.Float64frombits(v.FBits)
	}
	for _, x := range v.Items {
		x.Fix()
	}
	for _, x := range v.Keys {
		x.Fix()
	}
}

func floatEq(a, b float64) bool {
	if math.IsNaN(a) && math.IsNaN(b) {
		return true
	}
	return math.Float64bits(a) == math.Float64bits(b)
}

// Equal compares two values of the same type: NaN equals NaN, -0.0 differs from +0.0,
// maps are unordered.
func Equal(a, b *Value) bool {
	if a == nil || b == nil {
		return a == b
	}
	if a.K != b.K {
		return false
	}
	switch a.K {
	case Null:
		return true
	case Bool:
		return a.B == b.B
	case Int:
		return a.I == b.I
	case Uint:
		return a.U == b.U
	case Float:
		return floatEq(a.F, b.F)
	case Complex:
		return floatEq(a.Re(), b.Re()) && floatEq(a.Im(), b.Im())
	case String:
		return a.S == b.S
	case Union:
		if a.Case != b.Case || len(a.Items) != len(b.Items) {
			return false
		}
		for i := range a.Items {
			if !Equal(a.Items[i], b.Items[i]) {
				return false
			}
		}
		return true
	case Seq, Record:
		return itemsEqual(a.Items, b.Items)
	case Array:
		if len(a.Shape) != len(b.Shape) {
			return false
		}
		for i := range a.Shape {
			if a.Shape[i] != b.Shape[i] {
				return false
			}
		}
		return itemsEqual(a.Items, b.Items)
	case Map:
		if len(a.Keys) != len(b.Keys) {
			return false
		}
		bm := map[string]*Value{}
		for i, k := range b.Keys {
			bm[k.String()] = b.Items[i]
		}
		for i, k := range a.Keys {
			bv, ok := bm[k.String()]
			if !ok || !Equal(a.Items[i], bv) {
				return false
			}
		}
		return true
	}
	return false
}

func itemsEqual(a, b []*Value) bool {
	if len(a) != len(b) {
		return false
	}
	for i := range a {
		if !Equal(a[i], b[i]) {
			return false
		}
	}
	return true
}

// String renders a value compactly (used for map-key identity, samples and messages).
func (v *Value) String() string {
	if v == nil {
		return "<nil>"
	}
	switch v.K {
	case Null:
		return "null"
	case Bool:
		return fmt.Sprint(v.B)
	case Int:
		return fmt.Sprint(v.I)
	case Uint:
		return fmt.Sprintf("%du", v.U)
	case Float:
		if math.IsNaN(v.F) {
			return "NaN"
		}
		if v.F == 0 && math.Signbit(v.F) {
			return "-0.0"
		}
		return fmt.Sprintf("%g", v.F)
	case Complex:
		return fmt.Sprintf("(%g,%g)", v.Re(), v.Im())
	case String:
		if len(v.S) > 40 {
			return fmt.Sprintf("%q…(%d bytes)", v.S[:40], len(v.S))
		}
		return fmt.Sprintf("%q", v.S)
	case Union:
		if len(v.Items) == 0 {
			return fmt.Sprintf("case%d:null", v.Case)
		}
		return fmt.Sprintf("case%d:%s", v.Case, v.Items[0])
	case Seq, Record:
		open, close := "[", "]"
		if v.K == Record {
			open, close = "{", "}"
		}
		return open + joinVals(v.Items) + close
	case Array:
		return fmt.Sprintf("array%v[%s]", v.Shape, joinVals(v.Items))
	case Map:
		var parts []string
		for i, k := range v.Keys {
			parts = append(parts, k.String()+":"+v.Items[i].String())
		}
		sort.Strings(parts)
		return "map{" + strings.Join(parts, ", ") + "}"
	}
	return "?"
}

func joinVals(vs []*Value) string {
	if len(vs) > 12 {
		var parts []string
		for _, x := range vs[:12] {
			parts = append(parts, x.String())
		}
		return strings.Join(parts, ", ") + fmt.Sprintf(", …(%d items)", len(vs))
	}
	var parts []string
	for _, x := range vs {
		parts = append(parts, x.String())
	}
	return strings.Join(parts, ", ")
}

// Diff describes the first difference between two values (for messages).
func Diff(a, b *Value, path string) string {
	if Equal(a, b) {
		return ""
	}
	if a == nil || b == nil || a.K != b.K {
		return fmt.Sprintf("%s: %s vs %s", path, a, b)
	}
	switch a.K {
	case Seq, Record, Array:
		if len(a.Items) != len(b.Items) {
			return fmt.Sprintf("%s: %d items vs %d items (%s vs %s)", path, len(a.Items), len(b.Items), a, b)
		}
		if a.K == Array && fmt.Sprint(a.Shape) != fmt.Sprint(b.Shape) {
			return fmt.Sprintf("%s: shape %v vs %v", path, a.Shape, b.Shape)
		}
		for i := range a.Items {
			if d := Diff(a.Items[i], b.Items[i], fmt.Sprintf("%s[%d]", path, i)); d != "" {
				return d
			}
		}
	case Union:
		if a.Case != b.Case {
			return fmt.Sprintf("%s: union case %d vs %d (%s vs %s)", path, a.Case, b.Case, a, b)
		}
		if len(a.Items) == 1 && len(b.Items) == 1 {
			return Diff(a.Items[0], b.Items[0], path+".value")
		}
	}
	return fmt.Sprintf("%s: %s vs %s", path, a, b)
}

// StepValues is the data of one protocol run: for each step either one value or (stream) a
// list of items.
type StepValues struct {
	Stream bool     `json:"stream,omitempty"`
	Value  *Value   `json:"value,omitempty"`
	Items  []*Value `json:"items,omitempty"`
	// Blocks is the partition of Items into stream blocks used by the reference binary encoder
	// (sums to len(Items); empty = one block per item).
	Blocks []int `json:"blocks,omitempty"`
}

func (s *StepValues) Fix() {
	s.Value.Fix()
	for _, x := range s.Items {
		x.Fix()
	}
}

func StepsEqual(a, b []StepValues) string {
	if len(a) != len(b) {
		return fmt.Sprintf("%d steps vs %d steps", len(a), len(b))
	}
	for i := range a {
		if a[i].Stream != b[i].Stream {
			return fmt.Sprintf("step %d: stream flag differs", i)
		}
		if a[i].Stream {
			if len(a[i].Items) != len(b[i].Items) {
				return fmt.Sprintf("step %d: %d stream items vs %d", i, len(a[i].Items), len(b[i].Items))
			}
			for j := range a[i].Items {
				if d := Diff(a[i].Items[j], b[i].Items[j], fmt.Sprintf("step%d[%d]", i, j)); d != "" {
					return d
				}
			}
		} else if d := Diff(a[i].Value, b[i].Value, fmt.Sprintf("step%d", i)); d != "" {
			return d
		}
	}
	return ""
}

// UnionCases returns the case list of an optional/union type (nil entry = null).
func UnionCases(t *model.Type) []*model.Type {
	if t.Kind == model.KOptional {
		return []*model.Type{nil, t.Elem}
	}
	return t.Cases
}
