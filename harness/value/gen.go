package value

import (
	"fmt"
	"math"
	"strings"

	"pgregory.net/rapid"
	"verif/harness/model"
)

type GenOpts struct {
	FiniteFloats bool // NDJSON legs: no NaN/inf
	Budget       int  // soft bound on the number of nodes generated for one value
	Big          bool // allow >64 KiB strings / long vectors (rarely drawn)
	// BigBoost: draw them often, and up to three buffers long (checks about the readers' 64 KiB buffers)
	BigBoost bool
	// NoZeroDim: dynamic arrays get at least one dimension (known finding switch)
	NoZeroDim bool
	// DeclaredEnumsInArrays: enum elements of arrays only take declared values (known finding switch)
	DeclaredEnumsInArrays bool
	inArray               int
	used                  int
}

func (o *GenOpts) spent() bool { return o.used > o.Budget }

func intn(t *rapid.T, label string, n int) int {
	if n <= 1 {
		return 0
	}
	return rapid.IntRange(0, n-1).Draw(t, label)
}

func genSigned(t *rapid.T, bits int) int64 {
	min := -(int64(1) << uint(bits-1))
	max := (int64(1) << uint(bits-1)) - 1
	switch intn(t, "sintKind", 8) {
	case 0:
		return 0
	case 1:
		return min
	case 2:
		return max
	case 3:
		return -1
	case 4: // varint length boundaries: zig-zag of n occupies k*7 bits
		k := 1 + intn(t, "vk", (bits+6)/7)
		x := int64(1) << uint(minInt(7*k-1, bits-1)-0)
		x = x/2 + int64(intn(t, "vd", 3)) - 1
		if intn(t, "vneg", 2) == 1 {
			x = -x
		}
		if x < min {
			x = min
		}
		if x > max {
			x = max
		}
		return x
	case 5:
		x := int64(intn(t, "small", 300)) - 150
		if x < min {
			x = min
		}
		if x > max {
			x = max
		}
		return x
	default:
		if bits == 64 {
			return rapid.Int64().Draw(t, "i64")
		}
		return rapid.Int64Range(min, max).Draw(t, "sint")
	}
}

func genUnsigned(t *rapid.T, bits int) uint64 {
	max := ^uint64(0)
	if bits < 64 {
		max = (uint64(1) << uint(bits)) - 1
	}
	switch intn(t, "uintKind", 7) {
	case 0:
		return 0
	case 1:
		return max
	case 2:
		k := 1 + intn(t, "uk", (bits+6)/7)
		sh := 7 * k
		var x uint64
		if sh >= 64 {
			x = max
		} else {
			x = uint64(1) << uint(sh)
		}
		x = x + uint64(intn(t, "ud", 3)) - 1
		if x > max {
			x = max
		}
		return x
	case 3:
		x := uint64(intn(t, "usmall", 300))
		if x > max {
			x = max
		}
		return x
	case 4:
		return 127 + uint64(intn(t, "u127", 3))
	default:
		if bits == 64 {
			return rapid.Uint64().Draw(t, "u64")
		}
		return rapid.Uint64Range(0, max).Draw(t, "uint")
	}
}

func minInt(a, b int) int {
	if a < b {
		return a
	}
	return b
}

func genFloat(t *rapid.T, bits int, finite bool) float64 {
	n := 9
	if finite {
		n = 6
	}
	switch intn(t, "floatKind", n) {
	case 0:
		return 0
	case 1:
		return math.Copysign(0, -1)
	case 2:
		if bits == 32 {
			return float64(math.MaxFloat32) * float64(1-2*intn(t, "sgn", 2))
		}
		return math.MaxFloat64 * float64(1-2*intn(t, "sgn", 2))
	case 3:
		if bits == 32 {
			return float64(math.SmallestNonzeroFloat32)
		}
		return math.SmallestNonzeroFloat64
	case 4:
		return float64(intn(t, "fsmall", 2000)-1000) / 8
	case 5:
		if bits == 32 {
			for {
				f := math.Float32frombits(rapid.Uint32().Draw(t, "f32bits"))
				if !math.IsNaN(float64(f)) && !math.IsInf(float64(f), 0) {
					return float64(f)
				}
			}
		}
		for {
			f := math.Float64frombits(rapid.Uint64().Draw(t, "f64bits"))
			if !math.IsNaN(f) && !math.IsInf(f, 0) {
				return f
			}
		}
	case 6:
		return math.Inf(1)
	case 7:
		return math.Inf(-1)
	default:
		return math.NaN()
	}
}

var edgeStrings = []string{"", "a", "hello", "é", "日本語", "😀", "a\"b", "back\\slash", "line\nbreak", "tab\there", "é́", " leading", "trailing ", "null", "0", "{\"k\":1}", " ", "\x7f", "\x01", "~`!@#$%^&*()"}

func genString(t *rapid.T, o *GenOpts) string {
	if o.BigBoost && intn(t, "bigBoostStr", 6) == 0 {
		return strings.Repeat("0123456789abcdef", 4096*(1+intn(t, "bigBuffers", 3))+intn(t, "bigN2", 300)) + rapid.SampledFrom([]string{"", "é", "😀x"}).Draw(t, "bigTail2")
	}
	switch intn(t, "strKind", 10) {
	case 0, 1, 2, 3, 4:
		return rapid.SampledFrom(edgeStrings).Draw(t, "edgeStr")
	case 5, 6:
		return rapid.StringN(0, 12, 48).Draw(t, "str")
	case 7:
		return strings.Repeat(rapid.SampledFrom([]string{"x", "ab", "é", "😀"}).Draw(t, "rep"), intn(t, "repN", 200))
	case 8:
		if o.Big && intn(t, "bigStr", 4) == 0 {
			// longer than the 64 KiB I/O buffers of the C++ and Python coded streams
			return strings.Repeat("0123456789abcdef", 4096+intn(t, "bigN", 300)) + rapid.SampledFrom([]string{"", "é", "😀x"}).Draw(t, "bigTail")
		}
		return "mid"
	default:
		return rapid.StringN(0, 40, 200).Draw(t, "str2")
	}
}

// Gen draws a value of type typ (which must not contain unbound type parameters).
func Gen(t *rapid.T, env *model.Env, typ *model.Type, o *GenOpts) *Value {
	o.used++
	switch typ.Kind {
	case model.KPrim:
		return genPrim(t, typ.Prim, o)
	case model.KRef:
		d := env.Lookup(typ.Ns, typ.Name)
		if d == nil {
			panic("unresolved " + typ.Ns + "." + typ.Name)
		}
		switch d.Kind {
		case model.DAlias:
			return Gen(t, env, model.Subst(d.Type, model.Bind(d, typ.Args)), o)
		case model.DRecord:
			v := &Value{K: Record}
			for _, f := range env.RecordFields(typ) {
				v.Items = append(v.Items, Gen(t, env, f.Type, o))
			}
			return v
		case model.DEnum:
			return genEnum(t, d, o.DeclaredEnumsInArrays && o.inArray > 0)
		case model.DFlags:
			return genFlags(t, d)
		}
		panic("cannot generate a value of a protocol type")
	case model.KOptional, model.KUnion:
		cases := UnionCases(typ)
		i := intn(t, "case", len(cases))
		if o.spent() {
			i = 0
		}
		v := &Value{K: Union, Case: i}
		if cases[i] != nil {
			v.Items = []*Value{Gen(t, env, cases[i], o)}
		}
		return v
	case model.KVector:
		n := 0
		if typ.Len != nil {
			n = int(*typ.Len)
		} else if !o.spent() {
			n = genLen(t, o)
		}
		v := &Value{K: Seq, Items: []*Value{}}
		for i := 0; i < n; i++ {
			v.Items = append(v.Items, Gen(t, env, typ.Elem, o))
		}
		return v
	case model.KArray:
		v := &Value{K: Array, Items: []*Value{}}
		switch {
		case typ.IsFixedArray():
			for _, d := range typ.Dims {
				v.Shape = append(v.Shape, *d.Len)
			}
		case typ.HasDims:
			for range typ.Dims {
				v.Shape = append(v.Shape, uint64(genDim(t, o)))
			}
		default:
			r := intn(t, "dynRank", 4)
			if o.NoZeroDim && r == 0 {
				r = 1
			}
			for i := 0; i < r; i++ {
				v.Shape = append(v.Shape, uint64(genDim(t, o)))
			}
			if v.Shape == nil {
				v.Shape = []uint64{}
			}
		}
		total := 1
		for _, s := range v.Shape {
			total *= int(s)
		}
		o.inArray++
		for i := 0; i < total; i++ {
			v.Items = append(v.Items, Gen(t, env, typ.Elem, o))
		}
		o.inArray--
		return v
	case model.KMap:
		v := &Value{K: Map, Items: []*Value{}, Keys: []*Value{}}
		n := 0
		if !o.spent() {
			n = intn(t, "mapLen", 5)
		}
		seen := map[string]bool{}
		for i := 0; i < n; i++ {
			k := genKey(t, env, typ.Key, o)
			if seen[k.String()] {
				continue
			}
			seen[k.String()] = true
			v.Keys = append(v.Keys, k)
			v.Items = append(v.Items, Gen(t, env, typ.Elem, o))
		}
		return v
	}
	panic(fmt.Sprintf("cannot generate value of kind %d", typ.Kind))
}

func genLen(t *rapid.T, o *GenOpts) int {
	if o.BigBoost && o.inArray == 0 && intn(t, "bigBoostLen", 8) == 0 {
		return 9000 + intn(t, "bigBoostLenN", 16000)
	}
	switch intn(t, "lenKind", 8) {
	case 0:
		return 0
	case 1:
		return 1
	case 7:
		if o.Big && intn(t, "bigVec", 6) == 0 {
			return 3000 + intn(t, "bigVecN", 20000)
		}
		return 2
	default:
		return intn(t, "len", 6)
	}
}

func genDim(t *rapid.T, o *GenOpts) int {
	if o.spent() {
		return intn(t, "dim0", 2)
	}
	return intn(t, "dim", 4)
}

func genKey(t *rapid.T, env *model.Env, kt *model.Type, o *GenOpts) *Value {
	u := env.Underlying(kt)
	if u.Kind == model.KPrim && (u.Prim == "float32" || u.Prim == "float64") {
		// no NaN keys (never equal to themselves) and no -0.0 (collides with +0.0)
		for {
			f := genFloat(t, map[string]int{"float32": 32, "float64": 64}[u.Prim], true)
			if f == 0 && math.Signbit(f) {
				continue
			}
			return NewFloat(f)
		}
	}
	return Gen(t, env, kt, o)
}

func genPrim(t *rapid.T, p string, o *GenOpts) *Value {
	switch p {
	case "bool":
		return &Value{K: Bool, B: rapid.Bool().Draw(t, "bool")}
	case "int8", "int16", "int32", "int64":
		return &Value{K: Int, I: genSigned(t, model.IntBits(p))}
	case "uint8", "uint16", "uint32", "uint64", "size":
		return &Value{K: Uint, U: genUnsigned(t, model.IntBits(p))}
	case "float32":
		return NewFloat(genFloat(t, 32, o.FiniteFloats))
	case "float64":
		return NewFloat(genFloat(t, 64, o.FiniteFloats))
	case "complexfloat32":
		return NewComplex(genFloat(t, 32, o.FiniteFloats), genFloat(t, 32, o.FiniteFloats))
	case "complexfloat64":
		return NewComplex(genFloat(t, 64, o.FiniteFloats), genFloat(t, 64, o.FiniteFloats))
	case "string":
		return &Value{K: String, S: genString(t, o)}
	case "date":
		// days since the epoch for 0001-01-01 .. 9999-12-31 (what datetime.date can hold)
		switch intn(t, "dateKind", 5) {
		case 0:
			return &Value{K: Int, I: 0}
		case 1:
			return &Value{K: Int, I: -719162}
		case 2:
			return &Value{K: Int, I: 2932896}
		default:
			return &Value{K: Int, I: rapid.Int64Range(-719162, 2932896).Draw(t, "days")}
		}
	case "time":
		switch intn(t, "timeKind", 4) {
		case 0:
			return &Value{K: Int, I: 0}
		case 1:
			return &Value{K: Int, I: 86400*1e9 - 1}
		default:
			return &Value{K: Int, I: rapid.Int64Range(0, 86400*1e9-1).Draw(t, "ns")}
		}
	case "datetime":
		switch intn(t, "dtKind", 5) {
		case 0:
			return &Value{K: Int, I: 0}
		case 1:
			return &Value{K: Int, I: math.MaxInt64}
		case 2:
			return &Value{K: Int, I: math.MinInt64 + 1} // MinInt64 is numpy's NaT sentinel
		case 3:
			return &Value{K: Int, I: -1}
		default:
			return &Value{K: Int, I: rapid.Int64Range(math.MinInt64+1, math.MaxInt64).Draw(t, "dtns")}
		}
	}
	panic("unknown primitive " + p)
}

func genEnum(t *rapid.T, d *model.Def, declaredOnly bool) *Value {
	base := d.EffectiveBase()
	signed := model.IsSignedInt(base)
	if intn(t, "enumDeclared", 5) != 0 || len(d.Values) == 0 || declaredOnly {
		ev := d.Values[intn(t, "enumSym", len(d.Values))]
		if signed {
			return &Value{K: Int, I: enumInt(ev)}
		}
		return &Value{K: Uint, U: enumUint(ev)}
	}
	// an integer outside the declared symbols but inside the base type
	if signed {
		return &Value{K: Int, I: genSigned(t, model.IntBits(base))}
	}
	return &Value{K: Uint, U: genUnsigned(t, model.IntBits(base))}
}

func enumInt(ev model.EnumVal) int64 {
	if ev.Unsigned {
		return int64(ev.UValue)
	}
	return ev.Value
}

func enumUint(ev model.EnumVal) uint64 {
	if ev.Unsigned {
		return ev.UValue
	}
	return uint64(ev.Value)
}

func genFlags(t *rapid.T, d *model.Def) *Value {
	base := d.EffectiveBase()
	signed := model.IsSignedInt(base)
	var bits uint64
	kinds := 5
	var union uint64
	composite := false
	for _, ev := range d.Values {
		b := enumUint(ev)
		union |= b
		if b&(b-1) != 0 {
			composite = true
		}
	}
	if composite {
		kinds = 8 // a type with a member of several bits: more often a value made of some of the bits any member has
	}
	switch intn(t, "flagsKind", kinds) {
	case 5, 6, 7:
		for i := uint(0); i < 64; i++ {
			if union&(1<<i) != 0 && intn(t, "maskBitOn", 2) == 1 {
				bits |= 1 << i
			}
		}
	case 0:
		bits = 0
	case 1: // all declared
		for _, ev := range d.Values {
			bits |= enumUint(ev)
		}
	case 2: // an undeclared bit as well
		for _, ev := range d.Values {
			if intn(t, "flagOn", 2) == 1 {
				bits |= enumUint(ev)
			}
		}
		width := model.IntBits(base)
		if signed {
			width--
		}
		bits |= uint64(1) << uint(intn(t, "extraBit", width))
	default:
		for _, ev := range d.Values {
			if intn(t, "flagOn", 2) == 1 {
				bits |= enumUint(ev)
			}
		}
	}
	if signed {
		return &Value{K: Int, I: int64(bits)}
	}
	return &Value{K: Uint, U: bits}
}

// GenSteps draws the values of one protocol run. Stream item sequences are biased towards
// adjacent items of different shape (they are independent draws of the item type, so map key
// sets, optional presence, vector lengths and union cases differ between neighbours).
func GenSteps(t *rapid.T, env *model.Env, proto *model.Def, o *GenOpts, maxStream int) []StepValues {
	var out []StepValues
	for _, st := range proto.Fields {
		o.used = 0
		if st.Type.Kind == model.KStream {
			n := 0
			switch intn(t, "streamKind", 6) {
			case 0:
				n = 0
			case 1:
				n = 1
			default:
				n = intn(t, "streamLen", maxStream+1)
			}
			sv := StepValues{Stream: true, Items: []*Value{}}
			for i := 0; i < n; i++ {
				o.used = 0
				sv.Items = append(sv.Items, Gen(t, env, st.Type.Elem, o))
			}
			// block partition for the reference encoder
			left := n
			for left > 0 {
				b := 1 + intn(t, "block", left)
				if intn(t, "blockOne", 3) == 0 {
					b = 1
				}
				sv.Blocks = append(sv.Blocks, b)
				left -= b
			}
			out = append(out, sv)
		} else {
			out = append(out, StepValues{Value: Gen(t, env, st.Type, o)})
		}
	}
	return out
}
