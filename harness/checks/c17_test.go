package checks

import (
	"encoding/json"
	"fmt"
	"os"
	"path/filepath"
	"testing"

	"pgregory.net/rapid"
	"verif/harness/core"
	"verif/harness/model"
	"verif/harness/ref"
	"verif/harness/sut"
	"verif/harness/value"
)

// C17 — stream contents do not depend on batching, and items are independent.
//
// The same item sequence is pushed through generated readers/writers under different block
// partitions of the input, C++ CopyTo buffer sizes (single-item and batch read/write overloads)
// and Python write groupings (whole list, lazy generator, one by one, chunks of k), in both
// formats. Every combination must deliver exactly the items written, in order.

type C17Variant struct {
	Lang   string `json:"lang"`
	InFmt  string `json:"in_fmt"`
	OutFmt string `json:"out_fmt"`
	Buf    []int  `json:"buf,omitempty"`  // C++: buffer size per stream step
	Mode   string `json:"mode,omitempty"` // Python write grouping
	// Reblock: alternative block partition of the reference input (per run, per stream step)
	Reblock bool `json:"reblock"`
}

type C17Case struct {
	RTCase
	Variants []C17Variant         `json:"variants"`
	AltSteps [][]value.StepValues `json:"alt_steps"` // same values, different block partitions (per run)
	// Repeat > 1: one stream step of every run is repeated until its binary encoding reaches this many bytes
	// (applied when the case is checked; the repeated step gets a fixed block pattern)
	Repeat int `json:"repeat,omitempty"`
}

const c17Rule = "generated package with at least one stream step x item sequences whose adjacent items differ in shape (independent draws: map key sets, optional presence, vector lengths, union cases) x 4-6 variants drawn from: two block partitions of the reference input, C++ CopyTo buffer sizes {1,2,3,7,64} per stream (buffer 1 = single-item overloads, >1 = batch overloads), Python write groupings {copy_to, list, lazy, one-by-one, chunks of 2/3/5}, binary and NDJSON on either side; a quarter of the cases repeat one stream step (preferring items with arrays/vectors of fixed-width elements; 45% of the models get a stream of records made of such bulk data) until it spans several 64 KiB buffers, and C++ buffer sizes are also drawn from the sizes of the first blocks at hand (a read buffer that fills exactly where a block ends); oracle: output = the items written, in order, for every variant; non-trivial = some stream has at least 3 items with a batch size > 1 that does not divide the block sizes; distinct = hash of model + values + variants"

func genC17(t *rapid.T) (C17Case, bool) {
	cfg := rtGenConfig()
	cfg.BulkStreamPct = 45
	applyRuntimeExclusions(&cfg)
	c := C17Case{RTCase: genRTCase(t, &cfg, core.Budget(2, 4), valueOpts(value.GenOpts{Budget: 30, FiniteFloats: true}, true), 14)}
	hasStream := false
	for _, run := range c.Runs {
		alt := make([]value.StepValues, len(run.Steps))
		for i, s := range run.Steps {
			alt[i] = s
			if s.Stream {
				hasStream = true
				alt[i].Blocks = nil
				left := len(s.Items)
				for left > 0 {
					b := 1 + rapid.IntRange(0, left-1).Draw(t, "altBlock")
					alt[i].Blocks = append(alt[i].Blocks, b)
					left -= b
				}
			}
		}
		c.AltSteps = append(c.AltSteps, alt)
	}
	if !hasStream {
		return c, false
	}
	if rapid.IntRange(0, 3).Draw(t, "long") == 0 {
		c.Repeat = rapid.SampledFrom([]int{70000, 140000, 200000}).Draw(t, "repeat")
	}
	nv := rapid.IntRange(4, 6).Draw(t, "variants")
	for i := 0; i < nv; i++ {
		v := C17Variant{Lang: rapid.SampledFrom([]string{"cpp", "python"}).Draw(t, "lang"),
			InFmt: rapid.SampledFrom([]string{"binary", "binary", "ndjson"}).Draw(t, "inFmt"), OutFmt: rapid.SampledFrom([]string{"binary", "ndjson"}).Draw(t, "outFmt"),
			Reblock: rapid.Bool().Draw(t, "reblock")}
		if v.Lang == "cpp" {
			// sizes of the first blocks of the streams at hand: a read buffer that fills up exactly where a block ends
			var firstBlocks []int
			for ri := range c.Runs {
				for _, steps := range [][]value.StepValues{c.Runs[ri].Steps, c.AltSteps[ri]} {
					for _, s := range steps {
						if s.Stream && len(s.Blocks) > 1 && s.Blocks[0] > 1 {
							firstBlocks = append(firstBlocks, s.Blocks[0])
						}
					}
				}
			}
			for k := 0; k < 8; k++ {
				if len(firstBlocks) > 0 && rapid.IntRange(0, 2).Draw(t, "bufAligned") == 0 {
					v.Buf = append(v.Buf, rapid.SampledFrom(firstBlocks).Draw(t, "bufBlock"))
					continue
				}
				v.Buf = append(v.Buf, rapid.SampledFrom([]int{1, 2, 3, 7, 64}).Draw(t, "buf"))
			}
		} else {
			v.Mode = rapid.SampledFrom([]string{"copy_to", "list", "lazy", "one", "chunk2", "chunk3", "chunk5"}).Draw(t, "mode")
		}
		c.Variants = append(c.Variants, v)
	}
	return c, true
}

func checkC17(c C17Case) *Fail {
	rec := core.Rec("C17")
	b, usable, f := buildFor(rec, c.RTCase, []string{"python", "cpp"}, true)
	if f != nil {
		if f.Check == "rt-gen" {
			rec.Skip("generate-failed")
			return nil
		}
		return f
	}
	defer b.Cleanup()
	// inputs: [run][reblock][fmt]
	input := func(i int, reblock bool, fmtName string) string {
		return filepath.Join(b.Root, fmt.Sprintf("in%d.%v.%s", i, reblock, fmtName))
	}
	if c.Repeat > 1 {
		alt := make([]RTRun, len(c.Runs))
		for i := range c.Runs {
			alt[i] = RTRun{Proto: c.Runs[i].Proto, Steps: c.AltSteps[i]}
		}
		alt = repeatRuns(b.Env, b.Pkg, alt, c.Repeat, 1)
		c.Runs = repeatRuns(b.Env, b.Pkg, c.Runs, c.Repeat, 0)
		c.AltSteps = nil
		for i := range alt {
			c.AltSteps = append(c.AltSteps, alt[i].Steps)
		}
		rec.Class("long-stream")
	}
	for i, run := range c.Runs {
		proto := b.Pkg.Find(run.Proto)
		schema := b.Schemas[run.Proto]
		os.WriteFile(input(i, false, "binary"), ref.EncodeProtocol(b.Env, proto, schema, run.Steps), 0o644)
		os.WriteFile(input(i, true, "binary"), ref.EncodeProtocol(b.Env, proto, schema, c.AltSteps[i]), 0o644)
		txt := []byte(ref.EmitProtocol(b.Env, proto, schema, run.Steps))
		os.WriteFile(input(i, false, "ndjson"), txt, 0o644)
		os.WriteFile(input(i, true, "ndjson"), txt, 0o644)
	}
	for vi, v := range c.Variants {
		if !usable[v.Lang] {
			rec.Skip(v.Lang + "-does-not-build")
			continue
		}
		var jobs []sut.Job
		for i, run := range c.Runs {
			jobs = append(jobs, sut.Job{Op: "copy", Proto: run.Proto, InFmt: v.InFmt, OutFmt: v.OutFmt, In: input(i, v.Reblock, v.InFmt),
				Out: filepath.Join(b.Root, fmt.Sprintf("out%d.v%d", i, vi)), Buf: v.Buf, Mode: v.Mode})
		}
		results, err := runJobs(b, v.Lang, jobs)
		if err != nil {
			return failf("rt-harness", "%s driver: %v", v.Lang, err)
		}
		for i, run := range c.Runs {
			proto := b.Pkg.Find(run.Proto)
			vd, _ := json.Marshal(v)
			ctx := func() string {
				return fmt.Sprintf("variant %s\n%s\n%s", vd, describeRun(b, run), modelText(c.Pkg))
			}
			if !results[i].OK {
				return failf("c17", "copy failed: %s\n%s", core.Trunc(results[i].Error, 1000), ctx())
			}
			data, _ := os.ReadFile(jobs[i].Out)
			if v.OutFmt == "binary" {
				dec, derr := ref.DecodeProtocol(b.Env, proto, data)
				if derr != nil {
					return failf("c17", "output does not decode: %v\n%s", derr, ctx())
				}
				if d := value.StepsEqual(run.Steps, dec.Steps); d != "" {
					return failf("c17", "items read differ from items written: %s\n%s", d, ctx())
				}
			} else if err := ref.MatchProtocol(b.Env, proto, b.Schemas[run.Proto], run.Steps, string(data)); err != nil {
				return failf("c17", "items read differ from items written: %v\n--- output\n%s\n%s", err, core.Trunc(string(data), 1000), ctx())
			}
		}
		rec.Class(fmt.Sprintf("variant:%s:%s->%s", v.Lang, v.InFmt, v.OutFmt))
		if v.Mode != "" {
			rec.Class("mode:" + v.Mode)
		}
	}
	return nil
}

func init() {
	registerReplay("c17", func(raw json.RawMessage) *Fail {
		var c C17Case
		if err := json.Unmarshal(raw, &c); err != nil {
			return failf("c17", "bad replay: %v", err)
		}
		c.fix()
		for i := range c.AltSteps {
			for j := range c.AltSteps[i] {
				c.AltSteps[i][j].Fix()
			}
		}
		return checkC17(c)
	})
}

func TestC17(t *testing.T) {
	rec := core.Rec("C17")
	rec.SetRule(c17Rule)
	rec.Assume("C++ batch overloads are reached through the generated CopyTo(writer, buffer sizes...); Python groupings through the documented write_x(iterable) API called repeatedly")
	replayKnown(t, "C17")
	rapid.Check(t, func(rt *rapid.T) {
		c, ok := genC17(rt)
		if !ok {
			rec.Class("no-stream")
			return
		}
		rec.Eval()
		nontrivial := false
		for _, run := range c.Runs {
			for _, s := range run.Steps {
				if s.Stream && len(s.Items) >= 3 {
					nontrivial = true
					rec.Class("stream>=3")
				}
			}
		}
		if nontrivial {
			rec.Nontrivial(core.Hash(modelText(c.Pkg), c.Runs, c.Variants))
			rec.Sample(map[string]any{"variants": c.Variants, "model": core.Trunc(model.EmitPackage(c.Pkg, model.EmitOptions{}).Text(), 400)})
		}
		report(rt, rec, checkC17(c), c)
	})
}
