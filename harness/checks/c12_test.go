package checks

import (
	"encoding/json"
	"fmt"
	"os"
	"path/filepath"
	"strings"
	"testing"

	"pgregory.net/rapid"
	"verif/harness/core"
	"verif/harness/model"
	"verif/harness/sut"
)

// C12 — output (files, diagnostics incl. order, exit status) is a deterministic, idempotent
// function of the package contents. Every execution of the CLI randomises Go map iteration
// order, so N fresh processes on the same directory are N independent schedules.

type C12Case struct {
	Kind   string       `json:"kind"` // valid | valid-versions | invalid-multi | warnings
	Layout model.Layout `json:"layout"`
	Runs   int          `json:"runs"`
}

const c12Rule = "packages biased towards many entries in every map yardl ranges over (8-14 definitions, unions of several arities, 1-3 previous versions each with several changed definitions, two thirds of them with an alias that no version changes inside a step union that gains a case, or several simultaneous errors in different files, or breaking changes against 1-2 previous versions whose diagnostics list several items each - enums and flags that lost and renumbered several values, a union that lost several cases) x N fresh CLI processes (N=8 quick, 20 thorough) on the same directory; oracle: identical exit status, identical stderr/stdout, identical sha256 of every output file (C++ incl. HDF5 sources, Python, MATLAB, JSON), and one more run into the populated tree leaves every mtime unchanged; non-trivial = at least 2 versions with changes, or at least 3 diagnostics, or at least 3 unions of different arity; distinct = hash of files"

const c12Outputs = "cpp:\n  sourcesOutputDir: ../out/cpp\npython:\n  outputDir: ../out/py\nmatlab:\n  outputDir: ../out/m\njson:\n  outputDir: ../out/json\n"

func genC12(t *rapid.T) C12Case {
	cfg := model.DefaultGen()
	cfg.MaxDefs = 14
	cfg.MaxProtocols = 3
	cfg.MaxSteps = 8
	c := C12Case{Runs: core.Budget(8, 20)}
	root := model.GenPackage(t, &cfg)
	kind := rapid.SampledFrom([]string{"valid", "valid-versions", "valid-versions", "invalid-multi", "invalid-multi", "invalid-evolution"}).Draw(t, "kind")
	c.Kind = kind
	switch kind {
	case "valid-versions":
		// an alias that no version changes, used by a step whose type does change between versions (a union that
		// gains a case): the change records of unchanged definitions are then consulted by the generators
		var stable *model.Def
		if rapid.IntRange(0, 2).Draw(t, "stableAlias") != 0 {
			for _, d := range root.Defs {
				if d.Kind == model.DRecord && len(d.TypeParams) == 0 && root.Find("StableAlias") == nil {
					stable = &model.Def{Kind: model.DAlias, Name: "StableAlias", Type: model.Ref(root.Namespace, d.Name), File: d.File}
					break
				}
			}
		}
		if stable != nil {
			var defs []*model.Def
			done := false
			for _, d := range root.Defs {
				if d.Kind == model.DProtocol && !done {
					defs = append(defs, stable)
					done = true
				}
				defs = append(defs, d)
			}
			root.Defs = defs
		}
		uni := func(withFloat bool) *model.Type {
			u := &model.Type{Kind: model.KUnion, Cases: []*model.Type{model.Ref(root.Namespace, "StableAlias"), model.Prim("int32")}, Tags: []string{"StableAlias", "int32"}}
			if withFloat {
				u.Cases = append(u.Cases, model.Prim("float32"))
				u.Tags = append(u.Tags, "float32")
			}
			return u
		}
		nv := rapid.IntRange(1, 3).Draw(t, "nv")
		for i := 0; i < nv; i++ {
			v := root.Clone()
			v.Versions = nil
			v.DirName = fmt.Sprintf("v%d", i)
			// several accepted changes per version: drop optional-able fields, retype numeric fields
			model.ApplyBenignChanges(t, v, 2+i)
			// protocols that exist only in the previous version ("Removed protocol" warnings, which
			// all carry the same position)
			if rapid.Bool().Draw(t, "removedProtocols") {
				np := rapid.IntRange(2, 4).Draw(t, "nRemoved")
				for j := 0; j < np; j++ {
					v.Defs = append(v.Defs, &model.Def{Kind: model.DProtocol, Name: fmt.Sprintf("OldProto%c", 'A'+j),
						Fields: []model.Field{{Name: "x", Type: model.Prim("int32")}, {Name: "s", Type: model.Stream(model.Prim("string"))}}})
				}
			}
			if stable != nil {
				if p0 := v.Protocols(); len(p0) > 0 {
					p0[0].Fields = append(p0[0].Fields, model.Field{Name: "stableChoice", Type: uni(false)})
				}
			}
			root.Versions = append(root.Versions, model.Version{Label: fmt.Sprintf("v%d", i), Pkg: v})
		}
		if stable != nil {
			if p0 := root.Protocols(); len(p0) > 0 {
				p0[0].Fields = append(p0[0].Fields, model.Field{Name: "stableChoice", Type: uni(true)})
			}
		}
	case "invalid-evolution":
		// breaking changes against 1-2 previous versions whose diagnostics list several items each: enums
		// and flags that lost and renumbered several values, a record with several fields of changed type,
		// a union that lost several cases - all used by steps of the first protocol
		protos := root.Protocols()
		if len(protos) == 0 {
			break
		}
		symbols := []string{"alpha", "beta", "gamma", "delta", "epsilon", "zeta", "eta", "theta", "iota", "kappa"}
		nv := rapid.IntRange(1, 2).Draw(t, "nvBreaking")
		var olds []*model.Package
		for i := 0; i < nv; i++ {
			v := root.Clone()
			v.Versions = nil
			v.DirName = fmt.Sprintf("v%d", i)
			olds = append(olds, v)
			root.Versions = append(root.Versions, model.Version{Label: fmt.Sprintf("v%d", i), Pkg: v})
		}
		ne := rapid.IntRange(1, 3).Draw(t, "nEvoEnums")
		for e := 0; e < ne; e++ {
			name := fmt.Sprintf("EvoEnum%d", e)
			kind := model.DEnum
			if rapid.IntRange(0, 2).Draw(t, "evoFlags") == 0 {
				kind = model.DFlags
			}
			nOld := rapid.IntRange(4, 10).Draw(t, "evoOldN")
			mk := func(syms []string, val func(i int) int64) *model.Def {
				d := &model.Def{Kind: kind, Name: name}
				for i, sy := range syms {
					x := val(i)
					d.Values = append(d.Values, model.EnumVal{Symbol: sy, Value: x, UValue: uint64(x), Explicit: true})
				}
				return d
			}
			oldVal := func(i int) int64 {
				if kind == model.DFlags {
					return 1 << uint(i)
				}
				return int64(i)
			}
			keep := rapid.IntRange(1, nOld-2).Draw(t, "evoKeep") // at least two values are removed
			renumberFrom := rapid.IntRange(0, keep).Draw(t, "evoRenumberFrom")
			newVal := func(i int) int64 {
				if i >= renumberFrom {
					if kind == model.DFlags {
						return 1 << uint(i+12)
					}
					return int64(i + 100)
				}
				return oldVal(i)
			}
			for _, v := range olds {
				v.Defs = append([]*model.Def{mk(symbols[:nOld], oldVal)}, v.Defs...)
				p0 := v.Protocols()[0]
				p0.Fields = append(p0.Fields, model.Field{Name: fmt.Sprintf("evoEnum%d", e), Type: model.Ref(v.Namespace, name)})
			}
			root.Defs = append([]*model.Def{mk(symbols[:keep], newVal)}, root.Defs...)
			protos[0].Fields = append(protos[0].Fields, model.Field{Name: fmt.Sprintf("evoEnum%d", e), Type: model.Ref(root.Namespace, name)})
		}
		{
			// a union step that loses several cases
			all := []string{"int32", "string", "float64", "bool", "date"}
			mkU := func(n int) *model.Type {
				u := &model.Type{Kind: model.KUnion}
				for _, p := range all[:n] {
					u.Cases = append(u.Cases, model.Prim(p))
					u.Tags = append(u.Tags, p)
				}
				return u
			}
			for _, v := range olds {
				p0 := v.Protocols()[0]
				p0.Fields = append(p0.Fields, model.Field{Name: "evoChoice", Type: mkU(5)})
			}
			protos[0].Fields = append(protos[0].Fields, model.Field{Name: "evoChoice", Type: mkU(rapid.IntRange(2, 3).Draw(t, "evoCasesKept"))})
		}
	case "invalid-multi":
		// several independent errors in different definitions/files
		n := rapid.IntRange(2, 5).Draw(t, "nerr")
		for i := 0; i < n; i++ {
			f := 0
			if root.NumFiles > 1 {
				f = rapid.IntRange(0, root.NumFiles-1).Draw(t, "errFile")
			}
			switch rapid.IntRange(0, 3).Draw(t, "errKind") {
			case 0:
				root.Defs = append(root.Defs, &model.Def{Kind: model.DAlias, Name: fmt.Sprintf("Bad%d", i), Type: model.Ref("Main", fmt.Sprintf("Missing%d", i)), File: f})
			case 1:
				root.Defs = append(root.Defs, &model.Def{Kind: model.DRecord, Name: fmt.Sprintf("BadRec%d", i), File: f,
					Fields: []model.Field{{Name: "a", Type: model.Prim("int32")}, {Name: "a", Type: model.Prim("int32")}, {Name: "B", Type: model.Ref("Main", "Nope")}}})
			case 2:
				root.Defs = append(root.Defs, &model.Def{Kind: model.DEnum, Name: fmt.Sprintf("BadEn%d", i), File: f,
					Values: []model.EnumVal{{Symbol: "a", Value: 1, Explicit: true}, {Symbol: "b", Value: 1, Explicit: true}, {Symbol: "c", Value: 2, Explicit: true}, {Symbol: "d", Value: 2, Explicit: true}}})
			default:
				root.Defs = append(root.Defs, &model.Def{Kind: model.DRecord, Name: fmt.Sprintf("BadGen%d", i), TypeParams: []string{"T", "U", "V"}, File: f,
					Fields: []model.Field{{Name: "a", Type: model.Prim("int32")}}})
			}
		}
	}
	c.Layout = model.EmitLayout(root, model.EmitOptions{ExtraManifest: c12Outputs})
	return c
}

func checkC12(c C12Case) *Fail {
	rec := core.Rec("C12")
	root := sut.TempDir("c12")
	defer os.RemoveAll(root)
	sut.WriteLayout(root, c.Layout)
	pkg := filepath.Join(root, "main")
	outDir := filepath.Join(root, "out")
	type obs struct {
		exit   int
		stdout string
		stderr string
		files  sut.Snapshot
	}
	var first obs
	for i := 0; i < c.Runs; i++ {
		os.RemoveAll(outDir)
		r := sut.Yardl(pkg, "generate")
		if r.TimedOut {
			return failf("c12", "generate timed out")
		}
		o := obs{r.Exit, sut.StripANSI(r.Stdout), sut.StripANSI(r.Stderr), sut.Snap(outDir, false)}
		if i == 0 {
			first = o
			nd := strings.Count(o.stderr, "❌") + strings.Count(o.stderr, "⚠")
			rec.Class(fmt.Sprintf("exit%d", o.exit))
			if nd >= 3 {
				rec.Class("diagnostics>=3")
			}
			continue
		}
		if o.exit != first.exit {
			return failf("c12", "run %d exit %d, run 0 exit %d", i, o.exit, first.exit)
		}
		if o.stderr != first.stderr || o.stdout != first.stdout {
			return failf("c12", "diagnostics differ between run 0 and run %d:\n--- run 0\n%s\n--- run %d\n%s", i, core.Trunc(first.stderr+first.stdout, 1500), i, core.Trunc(o.stderr+o.stdout, 1500))
		}
		if d := first.files.Diff(o.files); len(d) > 0 {
			return failf("c12", "generated files differ between run 0 and run %d: %s", i, strings.Join(d, "; "))
		}
	}
	if first.exit == 0 {
		// idempotence: regenerate into the populated tree; nothing may be rewritten
		before := sut.Snap(outDir, true)
		r := sut.Yardl(pkg, "generate")
		after := sut.Snap(outDir, true)
		if r.Exit != 0 {
			return failf("c12", "regeneration into a populated tree failed (exit %d)", r.Exit)
		}
		if d := before.Diff(after); len(d) > 0 {
			return failf("c12", "regenerating an unchanged package touched files: %s", strings.Join(d, "; "))
		}
	}
	return nil
}

func init() {
	registerReplay("c12", func(raw json.RawMessage) *Fail {
		var c C12Case
		if err := json.Unmarshal(raw, &c); err != nil {
			return failf("c12", "bad replay: %v", err)
		}
		// a nondeterminism may need several attempts to show
		for i := 0; i < 3; i++ {
			if f := checkC12(c); f != nil {
				return f
			}
		}
		return nil
	})
}

func TestC12(t *testing.T) {
	rec := core.Rec("C12")
	rec.SetRule(c12Rule)
	rec.Assume("N runs sample N map-iteration orders; a nondeterminism that needs more runs to show is missed", "outputs are compared by content hash, mode and size; mtimes only for the idempotence run")
	replayKnown(t, "C12")
	rapid.Check(t, func(rt *rapid.T) {
		c := genC12(rt)
		rec.Eval()
		rec.Class("kind:" + c.Kind)
		txt := c.Layout.Text()
		if c.Kind != "valid" || strings.Count(txt, "\n  - ") >= 6 {
			rec.Nontrivial(core.Hash(txt))
			rec.Sample(map[string]any{"kind": c.Kind, "runs": c.Runs, "files": core.Trunc(txt, 700)})
		}
		report(rt, rec, checkC12(c), c)
	})
}
