package checks

import (
	"encoding/json"
	"errors"
	"fmt"
	"os"
	"path/filepath"
	"regexp"
	"strings"
	"testing"

	"pgregory.net/rapid"
	"verif/harness/core"
	"verif/harness/model"
	"verif/harness/ref"
	"verif/harness/sut"
)

// C14 — all target languages follow the same serialization plan.
//
// The plan of every protocol step and every record field is derived from the IR (ref.Plan)
// and compared with the plan each backend generated, recovered from the constructor
// expressions in generated Python (binary.py: readers, writers, record serializers) and
// MATLAB (+binary/*.m), from the function-template compositions of generated C++
// (binary/protocols.cc, types.h) and from the converter constructors of generated Python
// NDJSON code (ndjson.py), whose union tagging decisions are also compared with the documented rule.

type C14Case struct {
	Pkg *model.Package `json:"pkg"`
}

const c14Rule = "generated packages; for every protocol step (writer and reader side) and every record field of every package of the layout, the plan derived from the model (composition of element encodings: field order, fixed lengths, array ranks and shapes in row-major order, map key/value encodings, enum base types, union case order, null handling, generic arguments) is compared with the plan parsed from generated C++ binary code (binary/protocols.cc + types.h), generated Python binary code, generated Python NDJSON code and generated MATLAB binary code; for every Python NDJSON union converter the tagged/untagged decision and the JSON datatypes selecting each case are compared with the documented rule. A constructor the parser does not know is counted as unrecognised and skipped. non-trivial = plan of depth >= 2 or containing a record with type arguments, a union or an array; distinct = (model, step/field)"

var (
	pyWriteRe   = regexp.MustCompile(`(?m)^        (.+)\.write\(self\._stream, value\)$`)
	pyReadRe    = regexp.MustCompile(`(?m)^        return (.+)\.read\(self\._stream\)$`)
	pyClassSer  = regexp.MustCompile(`(?m)^class (\w+)Serializer\(`)
	pySuperInit = regexp.MustCompile(`(?m)^        super\(\).__init__\((\[.*\])\)$`)
	mFieldRe    = regexp.MustCompile(`(?m)^      field_serializers\{(\d+)\} = (.+);$`)
	mStepRe     = regexp.MustCompile(`(?m)^      self\.(\w+)_serializer = (.+);$`)
	pyClassConv = regexp.MustCompile(`(?m)^class (\w+)Converter\(`)
	pyFieldConv = regexp.MustCompile(`(?m)^        self\._\w+_converter = (.+)$`)
	pyStepConv  = regexp.MustCompile(`(?m)^        converter = (.+)$`)
	// one keyword argument per field of the record constructor call in from_json
	pyFromJsonField = regexp.MustCompile(`(?m)^            (\w+)=self\._\w+_converter\.from_json\((.+?),?\),$`)
)

// pyFieldHandling: how generated Python NDJSON code treats one record field ("yes", "no", "conditional").
type pyFieldHandling struct {
	readerGet       string // reader takes the field with json_object.get(...): absence tolerated
	writerSkipsNull string // writer emits the field only when it is not None
}

type c14UnionWant struct {
	simple    bool
	excluded  string     // non-empty: region of an open known finding, not compared
	caseKinds [][]string // per non-null case; nil = not compared
}

func tagWord(simple bool) string {
	if simple {
		return "untagged"
	}
	return "tagged"
}

func sameSet(a, b []string) bool {
	m := map[string]int{}
	for _, x := range a {
		m[x] |= 1
	}
	for _, x := range b {
		m[x] |= 2
	}
	for _, v := range m {
		if v != 3 {
			return false
		}
	}
	return true
}

// c14UnionExpectations walks every type position of the layout (through aliases and generic
// arguments) and records, per union plan, what the documented NDJSON rule says about it.
func c14UnionExpectations(root *model.Package, env *model.Env) map[string]c14UnionWant {
	out := map[string]c14UnionWant{}
	var walk func(t *model.Type, depth int)
	walk = func(t *model.Type, depth int) {
		if t == nil || depth > 24 {
			return
		}
		switch t.Kind {
		case model.KRef:
			d := env.Lookup(t.Ns, t.Name)
			if d == nil {
				return
			}
			if d.Kind == model.DAlias {
				walk(model.Subst(d.Type, model.Bind(d, t.Args)), depth+1)
				return
			}
			for _, a := range t.Args {
				walk(a, depth+1)
			}
		case model.KOptional, model.KVector, model.KArray, model.KStream:
			walk(t.Elem, depth+1)
		case model.KMap:
			walk(t.Key, depth+1)
			walk(t.Elem, depth+1)
		case model.KUnion:
			w := c14UnionWant{simple: ref.UnionIsSimple(env, t)}
			for _, cse := range t.Cases {
				if cse == nil {
					continue
				}
				u := env.Underlying(cse)
				var kinds []string
				switch {
				case u == nil:
				case u.Kind == model.KParam:
					w.excluded = "C02-generic-union-param-case-untagged"
				case u.Kind == model.KRef:
					if d := env.Lookup(u.Ns, u.Name); d != nil {
						switch d.Kind {
						case model.DFlags:
							w.excluded = "C02-flags-number-union-untagged"
						case model.DEnum:
							kinds = []string{"int", "float", "str"}
						case model.DRecord:
							kinds = []string{"dict"}
						}
					}
				case u.Kind == model.KPrim:
					switch u.Prim {
					case "bool":
						kinds = []string{"bool"}
					case "string", "date", "time", "datetime":
						kinds = []string{"str"}
					case "complexfloat32", "complexfloat64":
						kinds = []string{"list"}
					default:
						kinds = []string{"int", "float"}
					}
				case u.Kind == model.KVector:
					kinds = []string{"list"}
				case u.Kind == model.KArray:
					if u.IsFixedArray() {
						kinds = []string{"list"}
					} else {
						kinds = []string{"dict"}
					}
				case u.Kind == model.KMap:
					if k := env.Underlying(u.Key); k != nil && k.Kind == model.KPrim && k.Prim == "string" {
						kinds = []string{"dict"}
					} else if k != nil && k.Kind == model.KPrim {
						kinds = []string{"list"}
					}
				}
				w.caseKinds = append(w.caseKinds, kinds)
			}
			if t.OpenCases {
				w.excluded = "open-cases"
			}
			if ref.CaseIsUnion(env, t) {
				w.excluded = "case-is-a-union" // the documented rule does not cover a case with several JSON datatypes
			}
			key := ref.JsonPlan(env, t)
			if prev, ok := out[key]; ok && prev.excluded != "" {
				w.excluded = prev.excluded
			}
			out[key] = w
			for _, cse := range t.Cases {
				walk(cse, depth+1)
			}
		}
	}
	for _, p := range root.AllPackages() {
		for _, d := range p.Defs {
			model.DefTypes(d, func(t *model.Type) { walk(t, 0) })
		}
	}
	return out
}

func checkC14(c C14Case) *Fail {
	rec := core.Rec("C14")
	root := sut.TempDir("c14")
	defer os.RemoveAll(root)
	sut.WriteLayout(root, model.EmitLayout(c.Pkg, model.EmitOptions{ExtraManifest: "python:\n  outputDir: ../out/py\nmatlab:\n  outputDir: ../out/m\ncpp:\n  sourcesOutputDir: ../out/cpp\n  generateHDF5: false\n  generateCMakeLists: false\n"}))
	r := sut.Yardl(filepath.Join(root, "main"), "generate")
	if r.Exit != 0 {
		return failf("c14-gen", "generate failed for a generated model:\n%s", core.Trunc(sut.StripANSI(r.Combined()), 800))
	}
	env := model.NewEnv(c.Pkg)
	mtxt := modelText(c.Pkg)
	note := func(plan, where string) {
		if strings.Count(plan, "(") >= 2 || strings.Contains(plan, "union(") || strings.Contains(plan, "array(") {
			rec.Nontrivial(core.Hash(mtxt, where))
		}
	}
	cmp := func(backend, where, want string, expr string, conv func(*ref.Expr) (string, error)) *Fail {
		e, err := ref.ParseExpr(expr)
		if err != nil {
			rec.Class("unparsed:" + backend)
			return nil
		}
		got, err := conv(e)
		if err != nil {
			var unk *ref.ErrUnknown
			if errors.As(err, &unk) {
				rec.Class("unrecognised:" + backend)
				rec.Note(backend + ": " + unk.Name)
				return nil
			}
			return failf("c14", "%s %s: cannot interpret generated expression %s: %v", backend, where, core.Trunc(expr, 300), err)
		}
		rec.EvalN(1)
		rec.Class("compared:" + backend)
		if got != want {
			return failf("c14", "%s %s: generated plan differs from the plan the schema prescribes\n  generated: %s\n  schema:    %s\n  expression: %s\n%s", backend, where, got, want, core.Trunc(expr, 400), mtxt)
		}
		note(want, where)
		return nil
	}
	typesH, _ := os.ReadFile(filepath.Join(root, "out", "cpp", "types.h"))
	protoCc, _ := os.ReadFile(filepath.Join(root, "out", "cpp", "binary", "protocols.cc"))
	var cppUnit *ref.CppUnit
	if len(typesH) > 0 && len(protoCc) > 0 {
		cppUnit = ref.ParseCppUnit(string(typesH), string(protoCc))
	} else {
		rec.Class("cpp-output-not-found")
	}
	// interpretation of one generated C++ (function, type) pair; unknown vocabulary is skipped
	cmpCpp := func(where, want, got string, err error) *Fail {
		if err != nil {
			var unk *ref.ErrUnknown
			if errors.As(err, &unk) {
				rec.Class("unrecognised:cpp")
				rec.Note("cpp: " + unk.Name)
				return nil
			}
			return failf("c14", "cpp %s: cannot interpret the generated composition: %v\n%s", where, err, mtxt)
		}
		rec.EvalN(1)
		rec.Class("compared:cpp")
		if got != want {
			return failf("c14", "cpp %s: generated plan differs from the plan the schema prescribes\n  generated: %s\n  schema:    %s\n%s", where, got, want, mtxt)
		}
		note(want, "cpp:"+where)
		return nil
	}
	unionWant := c14UnionExpectations(c.Pkg, env)
	cmpJson := func(where, want, expr string) *Fail {
		e, err := ref.ParseExpr(expr)
		if err != nil {
			rec.Class("unparsed:python-ndjson")
			return nil
		}
		var unions []ref.PyUnionInfo
		got, err := ref.PyJsonPlan(e, &unions)
		if err != nil {
			var unk *ref.ErrUnknown
			if errors.As(err, &unk) {
				rec.Class("unrecognised:python-ndjson")
				rec.Note("python-ndjson: " + unk.Name)
				return nil
			}
			return failf("c14", "python-ndjson %s: cannot interpret generated expression %s: %v", where, core.Trunc(expr, 300), err)
		}
		rec.EvalN(1)
		rec.Class("compared:python-ndjson")
		if got != want {
			return failf("c14", "python-ndjson %s: generated plan differs from the plan the schema prescribes\n  generated: %s\n  schema:    %s\n  expression: %s\n%s", where, got, want, core.Trunc(expr, 400), mtxt)
		}
		note(want, "ndjson:"+where)
		for _, ui := range unions {
			exp, ok := unionWant[ui.Plan]
			if !ok {
				rec.Class("ndjson-union:not-located")
				continue
			}
			if exp.excluded != "" {
				rec.Class("ndjson-union:excluded:" + exp.excluded)
				continue
			}
			rec.EvalN(1)
			rec.Class(fmt.Sprintf("ndjson-union:compared:simple=%v", exp.simple))
			if ui.Simple != exp.simple {
				return failf("c14", "python-ndjson %s: union %s is generated as %s, the documented rule (untagged iff every case maps to a distinct JSON datatype) gives %s\n%s", where, ui.Plan, tagWord(ui.Simple), tagWord(exp.simple), mtxt)
			}
			for i, ks := range ui.CaseKinds {
				if i >= len(exp.caseKinds) || exp.caseKinds[i] == nil {
					continue
				}
				if !sameSet(ks, exp.caseKinds[i]) {
					return failf("c14", "python-ndjson %s: case #%d of union %s is selected by JSON datatypes %v, its documented JSON form is %v\n%s", where, i, ui.Plan, ks, exp.caseKinds[i], mtxt)
				}
			}
		}
		return nil
	}
	for _, p := range c.Pkg.AllPackages() {
		isRoot := p == c.Pkg
		cppNs := sut.PySnake(p.Namespace)
		pyDir := filepath.Join(root, "out", "py", sut.PySnake(c.Pkg.Namespace))
		mDir := filepath.Join(root, "out", "m", "+"+sut.PySnake(p.Namespace))
		if !isRoot {
			pyDir = filepath.Join(pyDir, sut.PySnake(p.Namespace))
		}
		pySrc, _ := os.ReadFile(filepath.Join(pyDir, "binary.py"))
		pyJsonSrc, _ := os.ReadFile(filepath.Join(pyDir, "ndjson.py"))
		pyJsonRecords := map[string][]string{}
		pyJsonHandling := map[string][]pyFieldHandling{}
		{
			idx := pyClassConv.FindAllStringSubmatchIndex(string(pyJsonSrc), -1)
			for i, m := range idx {
				end := len(pyJsonSrc)
				if i+1 < len(idx) {
					end = idx[i+1][0]
				}
				body := string(pyJsonSrc[m[0]:end])
				if j := strings.Index(body, "    def to_json("); j >= 0 {
					body = body[:j]
				}
				var list []string
				for _, fm := range pyFieldConv.FindAllStringSubmatch(body, -1) {
					list = append(list, fm[1])
				}
				pyJsonRecords[string(pyJsonSrc[m[2]:m[3]])] = list
				// how the record reader and writer treat each field: tolerated when absent / skipped when null
				full := string(pyJsonSrc[m[0]:end])
				var hs []pyFieldHandling
				if i0 := strings.Index(full, "    def from_json(self"); i0 >= 0 {
					fj := full[i0:]
					if i1 := strings.Index(fj[10:], "\n    def "); i1 >= 0 {
						fj = fj[:i1+10]
					}
					for _, fm := range pyFromJsonField.FindAllStringSubmatch(fj, -1) {
						h := pyFieldHandling{readerGet: "no"}
						switch {
						case strings.Contains(fm[2], "_supports_none"):
							h.readerGet = "conditional"
						case strings.HasPrefix(fm[2], "json_object.get("):
							h.readerGet = "yes"
						}
						hs = append(hs, h)
					}
				}
				if i0 := strings.Index(full, "    def to_json(self"); i0 >= 0 {
					tj := full[i0:]
					if i1 := strings.Index(tj[10:], "\n    def "); i1 >= 0 {
						tj = tj[:i1+10]
					}
					lines := strings.Split(tj, "\n")
					k := 0
					for li, l := range lines {
						if !strings.Contains(l, "json_object[\"") || !strings.Contains(l, "] = self._") {
							continue
						}
						guard := "no"
						if li > 0 && strings.HasPrefix(strings.TrimSpace(lines[li-1]), "if ") {
							g := lines[li-1]
							switch {
							case strings.Contains(g, "_supports_none"):
								guard = "conditional"
							case strings.Contains(g, "is not None"):
								guard = "yes"
							}
						}
						if k < len(hs) {
							hs[k].writerSkipsNull = guard
						}
						k++
					}
					if k != len(hs) {
						hs = nil
					}
				}
				pyJsonHandling[string(pyJsonSrc[m[2]:m[3]])] = hs
			}
		}
		// ---- record serializers
		classIdx := pyClassSer.FindAllStringSubmatchIndex(string(pySrc), -1)
		pyRecords := map[string]string{}
		for i, m := range classIdx {
			end := len(pySrc)
			if i+1 < len(classIdx) {
				end = classIdx[i+1][0]
			}
			body := string(pySrc[m[0]:end])
			if sm := pySuperInit.FindStringSubmatch(body); sm != nil {
				pyRecords[string(pySrc[m[2]:m[3]])] = sm[1]
			}
		}
		for _, d := range p.Defs {
			if d.Kind != model.DRecord {
				continue
			}
			var wants []string
			for _, f := range d.Fields {
				wants = append(wants, ref.Plan(env, f.Type))
			}
			// Python
			if list, ok := pyRecords[d.Name]; ok {
				e, err := ref.ParseExpr(list)
				if err == nil {
					if len(e.Args) != len(d.Fields) {
						return failf("c14", "python record %s: %d field serializers for %d fields\n%s", d.Name, len(e.Args), len(d.Fields), mtxt)
					}
					for i, fe := range e.Args {
						if fe.Kind != "list" || len(fe.Args) != 2 {
							continue
						}
						got, err := ref.PyPlan(fe.Args[1])
						if err != nil {
							var unk *ref.ErrUnknown
							if errors.As(err, &unk) {
								rec.Class("unrecognised:python")
								continue
							}
							return failf("c14", "python record %s field %d: %v", d.Name, i, err)
						}
						rec.EvalN(1)
						rec.Class("compared:python")
						if got != wants[i] {
							return failf("c14", "python record %s field #%d (%s): generated plan differs\n  generated: %s\n  schema:    %s\n%s", d.Name, i, d.Fields[i].Name, got, wants[i], mtxt)
						}
						note(wants[i], d.Name+"."+d.Fields[i].Name)
					}
				}
			} else if len(pySrc) > 0 {
				rec.Class("python-record-serializer-not-found")
			}
			// MATLAB
			if msrc, err := os.ReadFile(filepath.Join(mDir, "+binary", d.Name+"Serializer.m")); err == nil {
				ms := mFieldRe.FindAllStringSubmatch(string(msrc), -1)
				if len(ms) != len(d.Fields) {
					return failf("c14", "matlab record %s: %d field serializers for %d fields\n%s", d.Name, len(ms), len(d.Fields), mtxt)
				}
				for i, m := range ms {
					if f := cmp("matlab", fmt.Sprintf("record %s field #%d (%s)", d.Name, i, d.Fields[i].Name), wants[i], m[2], ref.MatlabPlan); f != nil {
						return f
					}
				}
			} else {
				rec.Class("matlab-record-serializer-not-found")
			}
			// C++: the generated Write<Rec>/Read<Rec> functions, one statement per field
			if cppUnit != nil {
				for _, rw := range []string{"Write", "Read"} {
					plans, errs, found := cppUnit.RecordPlans(cppNs, rw, d.Name)
					if !found {
						rec.Class("cpp-record-function-not-found")
						continue
					}
					if len(plans) != len(d.Fields) {
						return failf("c14", "cpp record %s (%s): %d field statements for %d fields\n%s", d.Name, rw, len(plans), len(d.Fields), mtxt)
					}
					for i := range plans {
						if f := cmpCpp(fmt.Sprintf("record %s field #%d (%s) %s", d.Name, i, d.Fields[i].Name, rw), wants[i], plans[i], errs[i]); f != nil {
							return f
						}
					}
				}
			}
			// Python NDJSON: the converter constructed for every field
			if conv, ok := pyJsonRecords[d.Name]; ok {
				if len(conv) != len(d.Fields) {
					return failf("c14", "python-ndjson record %s: %d field converters for %d fields\n%s", d.Name, len(conv), len(d.Fields), mtxt)
				}
				for i, ex := range conv {
					if f := cmpJson(fmt.Sprintf("record %s field #%d (%s)", d.Name, i, d.Fields[i].Name), ref.JsonPlan(env, d.Fields[i].Type), ex); f != nil {
						return f
					}
				}
				// null handling of fields: "fields are skipped if they are optionals or unions with null and the value is null"
				if hs := pyJsonHandling[d.Name]; len(hs) == len(d.Fields) {
					for i, fl := range d.Fields {
						u := env.Underlying(fl.Type)
						if u == nil || u.Kind == model.KParam {
							continue
						}
						nullable := u.Kind == model.KOptional || (u.Kind == model.KUnion && u.HasNull())
						rec.EvalN(1)
						rec.Class(fmt.Sprintf("ndjson-field-null-handling:nullable=%v", nullable))
						if nullable && (hs[i].readerGet != "yes" || hs[i].writerSkipsNull != "yes") {
							return failf("c14", "python-ndjson record %s field %s can be null (type %s) but the generated converter does not treat it as omissible: reader tolerates absence=%s, writer skips null=%s\n%s", d.Name, fl.Name, ref.JsonPlan(env, fl.Type), hs[i].readerGet, hs[i].writerSkipsNull, mtxt)
						}
						if !nullable && (hs[i].readerGet == "yes" || hs[i].writerSkipsNull == "yes") {
							return failf("c14", "python-ndjson record %s field %s cannot be null (type %s) but the generated converter treats it as omissible: reader tolerates absence=%s, writer skips null=%s\n%s", d.Name, fl.Name, ref.JsonPlan(env, fl.Type), hs[i].readerGet, hs[i].writerSkipsNull, mtxt)
						}
					}
				} else if len(pyJsonSrc) > 0 {
					rec.Class("python-ndjson-field-handling-not-parsed")
				}
			} else if len(pyJsonSrc) > 0 {
				rec.Class("python-ndjson-record-converter-not-found")
			}
		}
		if !isRoot {
			continue
		}
		// ---- protocol steps (root package only: protocols of imported packages are ignored by yardl)
		for _, proto := range p.Protocols() {
			// Python: the i-th .write(...) / .read(...) inside the writer / reader class of this protocol
			wcls := regexp.MustCompile(`(?s)class Binary` + proto.Name + `Writer\(.*?(?:\nclass |\z)`).FindString(string(pySrc))
			rcls := regexp.MustCompile(`(?s)class Binary` + proto.Name + `Reader\(.*?(?:\nclass |\z)`).FindString(string(pySrc))
			ws := pyWriteRe.FindAllStringSubmatch(wcls, -1)
			rs := pyReadRe.FindAllStringSubmatch(rcls, -1)
			if len(ws) != len(proto.Fields) || len(rs) != len(proto.Fields) {
				return failf("c14", "python protocol %s: %d write / %d read expressions for %d steps\n%s", proto.Name, len(ws), len(rs), len(proto.Fields), mtxt)
			}
			for i, st := range proto.Fields {
				want := ref.Plan(env, st.Type)
				if f := cmp("python", fmt.Sprintf("protocol %s step %s (writer)", proto.Name, st.Name), want, ws[i][1], ref.PyPlan); f != nil {
					return f
				}
				if f := cmp("python", fmt.Sprintf("protocol %s step %s (reader)", proto.Name, st.Name), want, rs[i][1], ref.PyPlan); f != nil {
					return f
				}
			}
			for _, side := range []string{"Writer", "Reader"} {
				msrc, err := os.ReadFile(filepath.Join(mDir, "+binary", proto.Name+side+".m"))
				if err != nil {
					rec.Class("matlab-protocol-not-found")
					continue
				}
				ms := mStepRe.FindAllStringSubmatch(string(msrc), -1)
				if len(ms) != len(proto.Fields) {
					return failf("c14", "matlab protocol %s %s: %d step serializers for %d steps\n%s", proto.Name, side, len(ms), len(proto.Fields), mtxt)
				}
				for i, st := range proto.Fields {
					if f := cmp("matlab", fmt.Sprintf("protocol %s step %s (%s)", proto.Name, st.Name, side), ref.Plan(env, st.Type), ms[i][2], ref.MatlabPlan); f != nil {
						return f
					}
				}
			}
			// C++: every overload of Write<Step>Impl / Read<Step>Impl, steps matched by order
			if cppUnit != nil {
				for _, side := range []string{"Writer", "Reader"} {
					var names []string
					byName := map[string][]ref.CppStep{}
					for _, cs := range ref.CppSteps(string(protoCc)) {
						if cs.Protocol != proto.Name || cs.Side != side {
							continue
						}
						if _, ok := byName[cs.Step]; !ok {
							names = append(names, cs.Step)
						}
						byName[cs.Step] = append(byName[cs.Step], cs)
					}
					if len(names) != len(proto.Fields) {
						rec.Class("cpp-steps-not-matched")
						continue
					}
					for i, st := range proto.Fields {
						for _, cs := range byName[names[i]] {
							got, err := cppUnit.StepPlan(cs, st.Type.Kind == model.KStream)
							if f := cmpCpp(fmt.Sprintf("protocol %s step %s (%s, parameter %s)", proto.Name, st.Name, side, cs.ParamType), ref.Plan(env, st.Type), got, err); f != nil {
								return f
							}
						}
					}
				}
			}
			// Python NDJSON: the converter of every step, writer and reader side
			for _, side := range []string{"Writer", "Reader"} {
				cls := regexp.MustCompile(`(?s)class NDJson` + proto.Name + side + `\(.*?(?:\nclass |\z)`).FindString(string(pyJsonSrc))
				cs := pyStepConv.FindAllStringSubmatch(cls, -1)
				if len(cs) != len(proto.Fields) {
					if len(pyJsonSrc) > 0 {
						rec.Class("python-ndjson-steps-not-matched")
					}
					continue
				}
				for i, st := range proto.Fields {
					want := ref.JsonPlan(env, st.Type)
					expr := cs[i][1]
					where := fmt.Sprintf("protocol %s step %s (%s)", proto.Name, st.Name, side)
					if st.Type.Kind == model.KStream {
						// the generated code builds the item converter and loops over the items itself
						want = ref.JsonPlan(env, st.Type.Elem)
						where += " stream item"
					}
					if f := cmpJson(where, want, expr); f != nil {
						return f
					}
				}
			}
		}
	}
	return nil
}

func init() {
	fn := func(raw json.RawMessage) *Fail {
		var c C14Case
		if err := json.Unmarshal(raw, &c); err != nil {
			return failf("c14", "bad replay: %v", err)
		}
		return checkC14(c)
	}
	registerReplay("c14", fn)
	registerReplay("c14-gen", fn)
}

func TestC14(t *testing.T) {
	rec := core.Rec("C14")
	rec.SetRule(c14Rule)
	rec.Assume("the constructor-name tables (harness/ref/plan.go) map each runtime class to the encoding it implements; the runtimes themselves are exercised by C01-C03 (Python, C++), MATLAB code is only read as text", "the C++ NDJSON backend is compared with the reference dynamically by C02/C03, not here; NDJSON unions with a flags case or a bare type-parameter case lie in the region of two open C02 findings and are counted, not compared")
	replayKnown(t, "C14")
	rapid.Check(t, func(rt *rapid.T) {
		cfg := model.DefaultGen()
		cfg.RootNamespace = "Mdl"
		cfg.Comments = false
		p := model.GenPackage(rt, &cfg)
		c := C14Case{Pkg: p}
		rec.Sample(map[string]any{"model": core.Trunc(model.EmitPackage(p, model.EmitOptions{}).Text(), 500)})
		report(rt, rec, checkC14(c), c)
	})
}
