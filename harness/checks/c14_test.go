package checks

import (
	"encoding/json"
	"errors"
	"fmt"
	"os"
	"path/filepath"
	"regexp"
	"strings"
	"testing"

	"pgregory.net/rapid"
	"verif/harness/core"
	"verif/harness/model"
	"verif/harness/ref"
	"verif/harness/sut"
)

// C14 — all target languages follow the same serialization plan.
//
// The plan of every protocol step and every record field is derived from the IR (ref.Plan)
// and compared with the plan each backend generated, recovered from the constructor
// expressions in generated Python (binary.py: readers, writers, record serializers) and
// MATLAB (+binary/*.m). The C++ backend is covered dynamically (C01/C03).

type C14Case struct {
	Pkg *model.Package `json:"pkg"`
}

const c14Rule = "generated packages; for every protocol step (writer and reader side) and every record field of every package of the layout, the plan derived from the model (composition of element encodings: field order, fixed lengths, array ranks and shapes in row-major order, map key/value encodings, enum base types, union case order, null handling, generic arguments) is compared with the plan parsed from generated Python binary code and generated MATLAB binary code. A constructor the parser does not know is counted as unrecognised and skipped. non-trivial = plan of depth >= 2 or containing a record with type arguments, a union or an array; distinct = (model, step/field)"

var (
	pyWriteRe   = regexp.MustCompile(`(?m)^        (.+)\.write\(self\._stream, value\)$`)
	pyReadRe    = regexp.MustCompile(`(?m)^        return (.+)\.read\(self\._stream\)$`)
	pyClassSer  = regexp.MustCompile(`(?m)^class (\w+)Serializer\(`)
	pySuperInit = regexp.MustCompile(`(?m)^        super\(\).__init__\((\[.*\])\)$`)
	mFieldRe    = regexp.MustCompile(`(?m)^      field_serializers\{(\d+)\} = (.+);$`)
	mStepRe     = regexp.MustCompile(`(?m)^      self\.(\w+)_serializer = (.+);$`)
)

func checkC14(c C14Case) *Fail {
	rec := core.Rec("C14")
	root := sut.TempDir("c14")
	defer os.RemoveAll(root)
	sut.WriteLayout(root, model.EmitLayout(c.Pkg, model.EmitOptions{ExtraManifest: "python:\n  outputDir: ../out/py\nmatlab:\n  outputDir: ../out/m\n"}))
	r := sut.Yardl(filepath.Join(root, "main"), "generate")
	if r.Exit != 0 {
		return failf("c14-gen", "generate failed for a generated model:\n%s", core.Trunc(sut.StripANSI(r.Combined()), 800))
	}
	env := model.NewEnv(c.Pkg)
	mtxt := modelText(c.Pkg)
	note := func(plan, where string) {
		if strings.Count(plan, "(") >= 2 || strings.Contains(plan, "union(") || strings.Contains(plan, "array(") {
			rec.Nontrivial(core.Hash(mtxt, where))
		}
	}
	cmp := func(backend, where, want string, expr string, conv func(*ref.Expr) (string, error)) *Fail {
		e, err := ref.ParseExpr(expr)
		if err != nil {
			rec.Class("unparsed:" + backend)
			return nil
		}
		got, err := conv(e)
		if err != nil {
			var unk *ref.ErrUnknown
			if errors.As(err, &unk) {
				rec.Class("unrecognised:" + backend)
				rec.Note(backend + ": " + unk.Name)
				return nil
			}
			return failf("c14", "%s %s: cannot interpret generated expression %s: %v", backend, where, core.Trunc(expr, 300), err)
		}
		rec.EvalN(1)
		rec.Class("compared:" + backend)
		if got != want {
			return failf("c14", "%s %s: generated plan differs from the plan the schema prescribes\n  generated: %s\n  schema:    %s\n  expression: %s\n%s", backend, where, got, want, core.Trunc(expr, 400), mtxt)
		}
		note(want, where)
		return nil
	}
	for _, p := range c.Pkg.AllPackages() {
		isRoot := p == c.Pkg
		pyDir := filepath.Join(root, "out", "py", sut.PySnake(c.Pkg.Namespace))
		mDir := filepath.Join(root, "out", "m", "+"+sut.PySnake(p.Namespace))
		if !isRoot {
			pyDir = filepath.Join(pyDir, sut.PySnake(p.Namespace))
		}
		pySrc, _ := os.ReadFile(filepath.Join(pyDir, "binary.py"))
		// ---- record serializers
		classIdx := pyClassSer.FindAllStringSubmatchIndex(string(pySrc), -1)
		pyRecords := map[string]string{}
		for i, m := range classIdx {
			end := len(pySrc)
			if i+1 < len(classIdx) {
				end = classIdx[i+1][0]
			}
			body := string(pySrc[m[0]:end])
			if sm := pySuperInit.FindStringSubmatch(body); sm != nil {
				pyRecords[string(pySrc[m[2]:m[3]])] = sm[1]
			}
		}
		for _, d := range p.Defs {
			if d.Kind != model.DRecord {
				continue
			}
			var wants []string
			for _, f := range d.Fields {
				wants = append(wants, ref.Plan(env, f.Type))
			}
			// Python
			if list, ok := pyRecords[d.Name]; ok {
				e, err := ref.ParseExpr(list)
				if err == nil {
					if len(e.Args) != len(d.Fields) {
						return failf("c14", "python record %s: %d field serializers for %d fields\n%s", d.Name, len(e.Args), len(d.Fields), mtxt)
					}
					for i, fe := range e.Args {
						if fe.Kind != "list" || len(fe.Args) != 2 {
							continue
						}
						got, err := ref.PyPlan(fe.Args[1])
						if err != nil {
							var unk *ref.ErrUnknown
							if errors.As(err, &unk) {
								rec.Class("unrecognised:python")
								continue
							}
							return failf("c14", "python record %s field %d: %v", d.Name, i, err)
						}
						rec.EvalN(1)
						rec.Class("compared:python")
						if got != wants[i] {
							return failf("c14", "python record %s field #%d (%s): generated plan differs\n  generated: %s\n  schema:    %s\n%s", d.Name, i, d.Fields[i].Name, got, wants[i], mtxt)
						}
						note(wants[i], d.Name+"."+d.Fields[i].Name)
					}
				}
			} else if len(pySrc) > 0 {
				rec.Class("python-record-serializer-not-found")
			}
			// MATLAB
			if msrc, err := os.ReadFile(filepath.Join(mDir, "+binary", d.Name+"Serializer.m")); err == nil {
				ms := mFieldRe.FindAllStringSubmatch(string(msrc), -1)
				if len(ms) != len(d.Fields) {
					return failf("c14", "matlab record %s: %d field serializers for %d fields\n%s", d.Name, len(ms), len(d.Fields), mtxt)
				}
				for i, m := range ms {
					if f := cmp("matlab", fmt.Sprintf("record %s field #%d (%s)", d.Name, i, d.Fields[i].Name), wants[i], m[2], ref.MatlabPlan); f != nil {
						return f
					}
				}
			} else {
				rec.Class("matlab-record-serializer-not-found")
			}
		}
		if !isRoot {
			continue
		}
		// ---- protocol steps (root package only: protocols of imported packages are ignored by yardl)
		for _, proto := range p.Protocols() {
			// Python: the i-th .write(...) / .read(...) inside the writer / reader class of this protocol
			wcls := regexp.MustCompile(`(?s)class Binary` + proto.Name + `Writer\(.*?(?:\nclass |\z)`).FindString(string(pySrc))
			rcls := regexp.MustCompile(`(?s)class Binary` + proto.Name + `Reader\(.*?(?:\nclass |\z)`).FindString(string(pySrc))
			ws := pyWriteRe.FindAllStringSubmatch(wcls, -1)
			rs := pyReadRe.FindAllStringSubmatch(rcls, -1)
			if len(ws) != len(proto.Fields) || len(rs) != len(proto.Fields) {
				return failf("c14", "python protocol %s: %d write / %d read expressions for %d steps\n%s", proto.Name, len(ws), len(rs), len(proto.Fields), mtxt)
			}
			for i, st := range proto.Fields {
				want := ref.Plan(env, st.Type)
				if f := cmp("python", fmt.Sprintf("protocol %s step %s (writer)", proto.Name, st.Name), want, ws[i][1], ref.PyPlan); f != nil {
					return f
				}
				if f := cmp("python", fmt.Sprintf("protocol %s step %s (reader)", proto.Name, st.Name), want, rs[i][1], ref.PyPlan); f != nil {
					return f
				}
			}
			for _, side := range []string{"Writer", "Reader"} {
				msrc, err := os.ReadFile(filepath.Join(mDir, "+binary", proto.Name+side+".m"))
				if err != nil {
					rec.Class("matlab-protocol-not-found")
					continue
				}
				ms := mStepRe.FindAllStringSubmatch(string(msrc), -1)
				if len(ms) != len(proto.Fields) {
					return failf("c14", "matlab protocol %s %s: %d step serializers for %d steps\n%s", proto.Name, side, len(ms), len(proto.Fields), mtxt)
				}
				for i, st := range proto.Fields {
					if f := cmp("matlab", fmt.Sprintf("protocol %s step %s (%s)", proto.Name, st.Name, side), ref.Plan(env, st.Type), ms[i][2], ref.MatlabPlan); f != nil {
						return f
					}
				}
			}
		}
	}
	return nil
}

func init() {
	fn := func(raw json.RawMessage) *Fail {
		var c C14Case
		if err := json.Unmarshal(raw, &c); err != nil {
			return failf("c14", "bad replay: %v", err)
		}
		return checkC14(c)
	}
	registerReplay("c14", fn)
	registerReplay("c14-gen", fn)
}

func TestC14(t *testing.T) {
	rec := core.Rec("C14")
	rec.SetRule(c14Rule)
	rec.Assume("the constructor-name tables (harness/ref/plan.go) map each runtime class to the encoding it implements; the runtimes themselves are exercised by C01-C03 (Python, C++), MATLAB code is only read as text", "the C++ backend and the Python NDJSON backend are compared with the reference dynamically by C01-C03, not here")
	replayKnown(t, "C14")
	rapid.Check(t, func(rt *rapid.T) {
		cfg := model.DefaultGen()
		cfg.RootNamespace = "Mdl"
		cfg.Comments = false
		p := model.GenPackage(rt, &cfg)
		c := C14Case{Pkg: p}
		rec.Sample(map[string]any{"model": core.Trunc(model.EmitPackage(p, model.EmitOptions{}).Text(), 500)})
		report(rt, rec, checkC14(c), c)
	})
}
