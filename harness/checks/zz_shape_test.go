package checks

import (
	"os"
	"testing"

	"pgregory.net/rapid"
	"verif/harness/model"
)

// TestShapeCensus (VERIF_CENSUS=1): how often the run-time generator produces selected shapes.
func TestShapeCensus(t *testing.T) {
	if os.Getenv("VERIF_CENSUS") == "" {
		t.Skip()
	}
	counts := map[string]int{}
	n := 0
	rapid.Check(t, func(rt *rapid.T) {
		cfg := rtGenConfig()
		applyRuntimeExclusions(&cfg)
		p := model.GenPackage(rt, &cfg)
		env := model.NewEnv(p)
		n++
		seen := map[string]bool{}
		for _, q := range p.AllPackages() {
			for _, s := range model.Slots(q) {
				model.Walk(s.Get(), func(x *model.Type) {
					if x.Kind == model.KMap && x.Key != nil && x.Key.Kind == model.KRef {
						seen["map-with-alias-key"] = true
					}
					if x.Kind == model.KUnion {
						for _, c := range x.Cases {
							if c != nil && c.Kind == model.KMap && c.Key.Kind == model.KRef {
								seen["union-case-map-with-alias-key"] = true
							}
							if c != nil && c.Kind == model.KArray && c.HasDims && len(c.Dims) > 0 && c.Dims[0].Len == nil {
								seen["union-case-known-rank-array"] = true
							}
						}
					}
				})
			}
		}
		_ = env
		for k := range seen {
			counts[k]++
		}
	})
	t.Logf("packages: %d, with shape: %v", n, counts)
}

func TestC08Census(t *testing.T) {
	if os.Getenv("VERIF_CENSUS") == "" {
		t.Skip()
	}
	n, sw, opt := 0, 0, 0
	rapid.Check(t, func(rt *rapid.T) {
		c := genC08(rt)
		n++
		for _, h := range c.Hostile {
			if len(h) > 6 && h[:6] == "swvar:" {
				sw++
				break
			}
		}
		if c.Pkg != nil {
			for _, d := range c.Pkg.Defs {
				for _, f := range d.Fields {
					if d.Kind == model.DRecord && f.Type.Kind == model.KOptional && f.Type.Elem.Kind == model.KPrim {
						opt++
						return
					}
				}
			}
		}
	})
	t.Logf("cases %d, with hostile switch var %d, with an optional-of-primitive record field %d", n, sw, opt)
}

func TestC08SwDump(t *testing.T) {
	if os.Getenv("VERIF_CENSUS") == "" {
		t.Skip()
	}
	done := false
	rapid.Check(t, func(rt *rapid.T) {
		c := genC08(rt)
		if done {
			return
		}
		for _, h := range c.Hostile {
			if len(h) > 6 && h[:6] == "swvar:" && c.Pkg != nil {
				done = true
				t.Logf("%v\n%s", c.Hostile, model.EmitLayout(c.Pkg, model.EmitOptions{Order: c.Order})["main"].Text())
				f := checkC08(c)
				t.Logf("check: %v", f)
				return
			}
		}
	})
}
