package checks

import (
	"os"
	"testing"

	"pgregory.net/rapid"
	"verif/harness/model"
)

// TestShapeCensus (VERIF_CENSUS=1): how often the run-time generator produces selected shapes.
func TestShapeCensus(t *testing.T) {
	if os.Getenv("VERIF_CENSUS") == "" {
		t.Skip()
	}
	counts := map[string]int{}
	n := 0
	rapid.Check(t, func(rt *rapid.T) {
		cfg := rtGenConfig()
		applyRuntimeExclusions(&cfg)
		p := model.GenPackage(rt, &cfg)
		env := model.NewEnv(p)
		n++
		seen := map[string]bool{}
		for _, q := range p.AllPackages() {
			for _, s := range model.Slots(q) {
				model.Walk(s.Get(), func(x *model.Type) {
					if x.Kind == model.KMap && x.Key != nil && x.Key.Kind == model.KRef {
						seen["map-with-alias-key"] = true
					}
					if x.Kind == model.KUnion {
						for _, c := range x.Cases {
							if c != nil && c.Kind == model.KMap && c.Key.Kind == model.KRef {
								seen["union-case-map-with-alias-key"] = true
							}
							if c != nil && c.Kind == model.KArray && c.HasDims && len(c.Dims) > 0 && c.Dims[0].Len == nil {
								seen["union-case-known-rank-array"] = true
							}
						}
					}
				})
			}
		}
		_ = env
		for k := range seen {
			counts[k]++
		}
	})
	t.Logf("packages: %d, with shape: %v", n, counts)
}
