package checks

import (
	"os"
	"testing"

	"pgregory.net/rapid"
	"verif/harness/model"
)

// TestImportedGenericCensus (VERIF_CENSUS=1): how often a definition of the main package passes a
// local named type to a generic type of an imported package, and is that the local type's first use.
func TestImportedGenericCensus(t *testing.T) {
	if os.Getenv("VERIF_CENSUS") == "" {
		t.Skip()
	}
	n, withShape, withImports := 0, 0, 0
	rapid.Check(t, func(rt *rapid.T) {
		cfg := model.DefaultGen()
		cfg.ArgRefPct = 25
		p := model.GenPackage(rt, &cfg)
		n++
		if len(p.Imports) > 0 {
			withImports++
		}
		found := false
		for _, d := range p.Defs {
			model.DefTypes(d, func(t *model.Type) {
				model.Walk(t, func(x *model.Type) {
					if x.Kind == model.KRef && x.Ns != "" && x.Ns != p.Namespace && len(x.Args) > 0 {
						for _, a := range x.Args {
							model.Walk(a, func(y *model.Type) {
								if y.Kind == model.KRef && (y.Ns == "" || y.Ns == p.Namespace) && p.Find(y.Name) != nil {
									found = true
								}
							})
						}
					}
				})
			})
		}
		if found {
			withShape++
		}
	})
	t.Logf("packages: %d, with imports: %d, with imported-generic<local type>: %d", n, withImports, withShape)
}

// TestC13LayoutCensus (VERIF_CENSUS=1, VERIF_YARDL=<binary>): for layout-mode cases, how often do the two
// orderings differ in whether the generated Python imports.
func TestC13LayoutCensus(t *testing.T) {
	if os.Getenv("VERIF_CENSUS") == "" {
		t.Skip()
	}
	n, valid, aImp, bImp, differ := 0, 0, 0, 0, 0
	rapid.Check(t, func(rt *rapid.T) {
		c := genC13(rt)
		if c.Mode != "layout" || c.Invalid != "" {
			return
		}
		n++
		ra, ta := generateTree(c.A)
		rb, tb := generateTree(c.B)
		if ra.Exit != 0 || rb.Exit != 0 {
			return
		}
		valid++
		ia, _ := pyTreeImports(ta)
		ib, eb := pyTreeImports(tb)
		if ia {
			aImp++
		}
		if ib {
			bImp++
		}
		if ia != ib {
			differ++
			t.Logf("differ: %v %v %s", ia, ib, eb)
		}
	})
	t.Logf("layout cases: %d, both accepted: %d, A imports: %d, B imports: %d, differ: %d", n, valid, aImp, bImp, differ)
}
