package checks

import (
	"os"
	"testing"

	"pgregory.net/rapid"
	"verif/harness/model"
	"verif/harness/sut"
)

// TestGenSound: every generated package must be accepted by yardl (generator soundness; this is
// a self-test of the harness, not a property check).
func TestGenSound(t *testing.T) {
	rapid.Check(t, func(t *rapid.T) {
		cfg := model.DefaultGen()
		p := model.GenPackage(t, &cfg)
		l := model.EmitLayout(p, model.EmitOptions{Ch: rapidChooser(t)})
		dir := sut.TempDir("gensound")
		defer os.RemoveAll(dir)
		sut.WriteLayout(dir, l)
		r := sut.Yardl(dir+"/main", "validate")
		if r.Exit != 0 {
			t.Fatalf("generated package rejected (exit %d):\n%s\n%s", r.Exit, r.Combined(), l.Text())
		}
	})
}
