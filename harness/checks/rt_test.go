package checks

import (
	"encoding/json"
	"fmt"
	"os"
	"path/filepath"
	"regexp"
	"strings"

	"pgregory.net/rapid"
	"verif/harness/core"
	"verif/harness/model"
	"verif/harness/ref"
	"verif/harness/sut"
	"verif/harness/value"
)

// Shared machinery of the run-time legs (C01, C02, C03, C15, C16, C17): a generated package,
// value sequences for its protocols, reference-encoded input streams, generated readers and
// writers driven through the Python / C++ drivers, reference decoding of what they wrote.

type RTRun struct {
	Proto string             `json:"proto"`
	Steps []value.StepValues `json:"steps"`
}

type RTCase struct {
	Pkg  *model.Package `json:"pkg"`
	Runs []RTRun        `json:"runs"`
	// Leg selects what is exercised (set by the individual checks).
	Leg string `json:"leg"`
}

func (c *RTCase) fix() {
	for i := range c.Runs {
		for j := range c.Runs[i].Steps {
			c.Runs[i].Steps[j].Fix()
		}
	}
}

func rtGenConfig() model.GenConfig {
	cfg := model.DefaultGen()
	cfg.Runtime = true
	cfg.MaxDefs = 7
	cfg.MaxSteps = 5
	cfg.MaxProtocols = 2
	cfg.Comments = false
	cfg.KindPairPct = 35
	cfg.AliasKeyPct = 30
	cfg.BulkStreamPct = 20
	cfg.CompositeFlagsPct = 35
	cfg.RootNamespace = "Mdl" // "Main" would become the C++ namespace `main`, clashing with the driver's entry point
	return cfg
}

// genRTCase draws a package and k value sequences per protocol.
func genRTCase(t *rapid.T, cfg *model.GenConfig, k int, o value.GenOpts, maxStream int) RTCase {
	p := model.GenPackage(t, cfg)
	env := model.NewEnv(p)
	c := RTCase{Pkg: p}
	for _, proto := range p.Protocols() {
		for i := 0; i < k; i++ {
			oo := o
			c.Runs = append(c.Runs, RTRun{Proto: proto.Name, Steps: value.GenSteps(t, env, proto, &oo, maxStream)})
		}
	}
	return c
}

// typeFeatures lists the type constructors a protocol touches (for the evidence histogram).
func typeFeatures(env *model.Env, proto *model.Def) map[string]bool {
	f := map[string]bool{}
	seen := map[string]bool{}
	var visit func(t *model.Type)
	visit = func(t *model.Type) {
		if t == nil {
			return
		}
		switch t.Kind {
		case model.KPrim:
			f["prim:"+t.Prim] = true
		case model.KOptional:
			f["optional"] = true
		case model.KUnion:
			f["union"] = true
			if t.HasNull() {
				f["union-with-null"] = true
			}
		case model.KVector:
			if t.Len != nil {
				f["fixed-vector"] = true
			} else {
				f["vector"] = true
			}
		case model.KArray:
			switch {
			case t.IsFixedArray():
				f["fixed-array"] = true
			case t.HasDims:
				f["nd-array"] = true
			default:
				f["dynamic-array"] = true
			}
		case model.KMap:
			f["map"] = true
		case model.KStream:
			f["stream"] = true
		case model.KRef:
			d := env.Lookup(t.Ns, t.Name)
			if d == nil {
				return
			}
			if t.Ns != env.Root.Namespace {
				f["imported-type"] = true
			}
			if len(t.Args) > 0 {
				f["generic-instance"] = true
			}
			switch d.Kind {
			case model.DRecord:
				f["record"] = true
			case model.DEnum:
				f["enum"] = true
			case model.DFlags:
				f["flags"] = true
			case model.DAlias:
				f["alias"] = true
			}
			key := env.Canon(t)
			if d.Kind == model.DRecord {
				if seen[key] {
					return
				}
				seen[key] = true
				for _, fl := range env.RecordFields(t) {
					visit(fl.Type)
				}
			} else if d.Kind == model.DAlias {
				visit(model.Subst(d.Type, model.Bind(d, t.Args)))
			}
		}
		for _, a := range t.Args {
			visit(a)
		}
		visit(t.Elem)
		visit(t.Key)
		for _, c := range t.Cases {
			visit(c)
		}
	}
	for _, st := range proto.Fields {
		visit(st.Type)
	}
	return f
}

// writeInputs writes the reference-encoded binary input of every run; returns the paths.
func writeBinaryInputs(b *sut.Built, c RTCase) ([]string, error) {
	var paths []string
	for i, run := range c.Runs {
		proto := b.Pkg.Find(run.Proto)
		schema, ok := b.Schemas[run.Proto]
		if !ok {
			return nil, fmt.Errorf("no schema literal for protocol %s in generated code", run.Proto)
		}
		data := ref.EncodeProtocol(b.Env, proto, schema, run.Steps)
		p := filepath.Join(b.Root, fmt.Sprintf("in%d.bin", i))
		if err := os.WriteFile(p, data, 0o644); err != nil {
			return nil, err
		}
		paths = append(paths, p)
	}
	return paths, nil
}

func describeRun(b *sut.Built, run RTRun) string {
	var sb strings.Builder
	fmt.Fprintf(&sb, "protocol %s:", run.Proto)
	proto := b.Pkg.Find(run.Proto)
	for i, s := range run.Steps {
		name := proto.Fields[i].Name
		if s.Stream {
			fmt.Fprintf(&sb, "\n  %s = stream(%d items)%s %s", name, len(s.Items), core.Trunc(fmt.Sprint(s.Blocks), 120), core.Trunc((&value.Value{K: value.Seq, Items: s.Items}).String(), 400))
		} else {
			fmt.Fprintf(&sb, "\n  %s = %s", name, core.Trunc(s.Value.String(), 400))
		}
	}
	return sb.String()
}

func modelText(p *model.Package) string {
	return model.EmitLayout(p, model.EmitOptions{}).Text()
}

func rtReplay(check string, fn func(c RTCase) *Fail) {
	registerReplay(check, func(raw json.RawMessage) *Fail {
		var c RTCase
		if err := json.Unmarshal(raw, &c); err != nil {
			return failf(check, "bad replay: %v", err)
		}
		c.fix()
		return fn(c)
	})
}

// applyRuntimeExclusions turns off generator features tied to open known findings of the
// run-time legs (each switch is as narrow as its finding; excluded draws are counted).
func applyRuntimeExclusions(cfg *model.GenConfig) {
	for _, f := range core.AllFindings() {
		if f.Status != "open" {
			continue
		}
		for _, sw := range runtimeSwitches[f.ID] {
			if core.Open(f.ID) {
				cfg.Excl[sw] = true
			}
		}
	}
}

// finding id -> generator switches
var runtimeSwitches = map[string][]string{
	"C08-cpp-vector-of-bool":                    {"vector-of-bool"},
	"C08-python-generic-identity-alias":         {"generic-identity-alias"},
	"C01-python-nested-optional-collapses":      {"nested-optional-via-alias"},
	"C02-python-ndjson-struct-array-dtype":      {"array-of-struct"},
	"C08-python-union-as-generic-arg":           {"union-as-generic-arg"},
	"C02-flags-number-union-untagged":           {"union-flags-with-number"},
	"C02-generic-union-param-case-untagged":     {"union-with-param-case"},
	"C08-cpp-map-key-without-hash":              {"map-key-chrono"},
	"C01-python-array-of-vector":                {"array-of-vector"},
	"C08-python-union-nested-in-alias":          {"union-nested-in-alias"},
	"C02-cpp-ndjson-union-tags-by-variant-type": {"union-tags-by-variant-type"},
}

func (c RTCase) rtPkg() *model.Package { return c.Pkg }

var tagMismatchRe = regexp.MustCompile(`expected tag "([^"]+)", got \{"([^"]+)":`)

// rtKnown assigns run-time failures to open findings by narrow signature (used by report()).
func rtKnown(f *Fail, pkg *model.Package) string {
	if pkg == nil {
		return ""
	}
	// C++ NDJSON: the tags of another union with the same C++ variant type are written
	if m := tagMismatchRe.FindStringSubmatch(f.Msg); m != nil && m[1] != m[2] {
		want, got := m[1], m[2]
		env := model.NewEnv(pkg)
		type ut struct {
			n   int
			idx int
		}
		var w, g []ut
		for _, p := range pkg.AllPackages() {
			for _, d := range p.Defs {
				model.DefTypes(d, func(t *model.Type) {
					model.Walk(t, func(u *model.Type) {
						if u.Kind != model.KUnion {
							return
						}
						for i := range u.Cases {
							if u.Cases[i] == nil {
								continue
							}
							switch ref.Tag(u, i) {
							case want:
								w = append(w, ut{len(u.Cases), i})
							case got:
								g = append(g, ut{len(u.Cases), i})
							}
						}
					})
				})
			}
		}
		_ = env
		for _, a := range w {
			for _, b := range g {
				if a == b {
					return "C02-cpp-ndjson-union-tags-by-variant-type"
				}
			}
		}
	}
	return ""
}

// valueOpts applies value-level exclusion switches of open findings.
func valueOpts(o value.GenOpts, ndjson bool) value.GenOpts {
	if ndjson && core.Open("C02-python-ndjson-zero-dim-array") {
		o.NoZeroDim = true
	}
	if ndjson && core.Open("C02-python-ndjson-unknown-enum-in-array") {
		o.DeclaredEnumsInArrays = true
	}
	return o
}

// repeatRuns repeats the items of one stream step of every run until the binary encoding of that step
// reaches target bytes (streams that span several 64 KiB reader/writer buffers). The step is chosen by
// preference: items holding arrays or vectors of fixed-width elements (bulk-copied, possibly without a copy),
// then items holding fixed-width data at all, then any non-empty stream. The repeated step is re-partitioned
// into blocks by a fixed pattern (phase selects one of two patterns).
func repeatRuns(env *model.Env, pkg *model.Package, runs []RTRun, target int, phase int) []RTRun {
	if target <= 1 {
		return runs
	}
	isFixed := func(p string) bool {
		return strings.HasPrefix(p, "float") || strings.HasPrefix(p, "complex") || p == "uint8" || p == "int8" || p == "bool"
	}
	var out []RTRun
	for _, r := range runs {
		nr := RTRun{Proto: r.Proto, Steps: append([]value.StepValues{}, r.Steps...)}
		proto := pkg.Find(r.Proto)
		pick, best := -1, 0
		for i, st := range nr.Steps {
			if !st.Stream || len(st.Items) == 0 {
				continue
			}
			score := 1
			env.WalkInstantiated(proto.Fields[i].Type.Elem, func(x *model.Type) {
				switch {
				case x.Kind == model.KPrim && (isFixed(x.Prim) || x.Prim == "string"):
					if score < 2 {
						score = 2
					}
				case (x.Kind == model.KArray || x.Kind == model.KVector) && x.Elem != nil:
					if u := env.Underlying(x.Elem); u != nil && u.Kind == model.KPrim && isFixed(u.Prim) {
						score = 3
					}
				}
			})
			if score > best {
				pick, best = i, score
			}
		}
		if pick >= 0 {
			st := nr.Steps[pick]
			w := &ref.Writer{}
			for _, it := range st.Items {
				ref.EncodeValue(w, env, proto.Fields[pick].Type.Elem, it)
			}
			k := target/(len(w.Buf)+1) + 1
			if len(st.Items)*k > 15000 {
				k = 15000 / len(st.Items)
			}
			var items []*value.Value
			for j := 0; j < k; j++ {
				items = append(items, st.Items...)
			}
			ns := value.StepValues{Stream: true, Items: items}
			pattern := [][]int{{7, 1, 64, 1000, 3, 250}, {1, 2, 500, 33, 4096}}[phase%2]
			for left, j := len(items), 0; left > 0; j++ {
				b := pattern[j%len(pattern)]
				if b > left {
					b = left
				}
				ns.Blocks = append(ns.Blocks, b)
				left -= b
			}
			nr.Steps[pick] = ns
		}
		out = append(out, nr)
	}
	return out
}
