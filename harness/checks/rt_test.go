package checks

import (
	"encoding/json"
	"fmt"
	"os"
	"path/filepath"
	"strings"

	"pgregory.net/rapid"
	"verif/harness/core"
	"verif/harness/model"
	"verif/harness/ref"
	"verif/harness/sut"
	"verif/harness/value"
)

// Shared machinery of the run-time legs (C01, C02, C03, C15, C16, C17): a generated package,
// value sequences for its protocols, reference-encoded input streams, generated readers and
// writers driven through the Python / C++ drivers, reference decoding of what they wrote.

type RTRun struct {
	Proto string             `json:"proto"`
	Steps []value.StepValues `json:"steps"`
}

type RTCase struct {
	Pkg  *model.Package `json:"pkg"`
	Runs []RTRun        `json:"runs"`
	// Leg selects what is exercised (set by the individual checks).
	Leg string `json:"leg"`
}

func (c *RTCase) fix() {
	for i := range c.Runs {
		for j := range c.Runs[i].Steps {
			c.Runs[i].Steps[j].Fix()
		}
	}
}

func rtGenConfig() model.GenConfig {
	cfg := model.DefaultGen()
	cfg.Runtime = true
	cfg.MaxDefs = 7
	cfg.MaxSteps = 5
	cfg.MaxProtocols = 2
	cfg.Comments = false
	cfg.KindPairPct = 35
	cfg.AliasKeyPct = 30
	cfg.RootNamespace = "Mdl" // "Main" would become the C++ namespace `main`, clashing with the driver's entry point
	return cfg
}

// genRTCase draws a package and k value sequences per protocol.
func genRTCase(t *rapid.T, cfg *model.GenConfig, k int, o value.GenOpts, maxStream int) RTCase {
	p := model.GenPackage(t, cfg)
	env := model.NewEnv(p)
	c := RTCase{Pkg: p}
	for _, proto := range p.Protocols() {
		for i := 0; i < k; i++ {
			oo := o
			c.Runs = append(c.Runs, RTRun{Proto: proto.Name, Steps: value.GenSteps(t, env, proto, &oo, maxStream)})
		}
	}
	return c
}

// typeFeatures lists the type constructors a protocol touches (for the evidence histogram).
func typeFeatures(env *model.Env, proto *model.Def) map[string]bool {
	f := map[string]bool{}
	seen := map[string]bool{}
	var visit func(t *model.Type)
	visit = func(t *model.Type) {
		if t == nil {
			return
		}
		switch t.Kind {
		case model.KPrim:
			f["prim:"+t.Prim] = true
		case model.KOptional:
			f["optional"] = true
		case model.KUnion:
			f["union"] = true
			if t.HasNull() {
				f["union-with-null"] = true
			}
		case model.KVector:
			if t.Len != nil {
				f["fixed-vector"] = true
			} else {
				f["vector"] = true
			}
		case model.KArray:
			switch {
			case t.IsFixedArray():
				f["fixed-array"] = true
			case t.HasDims:
				f["nd-array"] = true
			default:
				f["dynamic-array"] = true
			}
		case model.KMap:
			f["map"] = true
		case model.KStream:
			f["stream"] = true
		case model.KRef:
			d := env.Lookup(t.Ns, t.Name)
			if d == nil {
				return
			}
			if t.Ns != env.Root.Namespace {
				f["imported-type"] = true
			}
			if len(t.Args) > 0 {
				f["generic-instance"] = true
			}
			switch d.Kind {
			case model.DRecord:
				f["record"] = true
			case model.DEnum:
				f["enum"] = true
			case model.DFlags:
				f["flags"] = true
			case model.DAlias:
				f["alias"] = true
			}
			key := env.Canon(t)
			if d.Kind == model.DRecord {
				if seen[key] {
					return
				}
				seen[key] = true
				for _, fl := range env.RecordFields(t) {
					visit(fl.Type)
				}
			} else if d.Kind == model.DAlias {
				visit(model.Subst(d.Type, model.Bind(d, t.Args)))
			}
		}
		for _, a := range t.Args {
			visit(a)
		}
		visit(t.Elem)
		visit(t.Key)
		for _, c := range t.Cases {
			visit(c)
		}
	}
	for _, st := range proto.Fields {
		visit(st.Type)
	}
	return f
}

// writeInputs writes the reference-encoded binary input of every run; returns the paths.
func writeBinaryInputs(b *sut.Built, c RTCase) ([]string, error) {
	var paths []string
	for i, run := range c.Runs {
		proto := b.Pkg.Find(run.Proto)
		schema, ok := b.Schemas[run.Proto]
		if !ok {
			return nil, fmt.Errorf("no schema literal for protocol %s in generated code", run.Proto)
		}
		data := ref.EncodeProtocol(b.Env, proto, schema, run.Steps)
		p := filepath.Join(b.Root, fmt.Sprintf("in%d.bin", i))
		if err := os.WriteFile(p, data, 0o644); err != nil {
			return nil, err
		}
		paths = append(paths, p)
	}
	return paths, nil
}

func describeRun(b *sut.Built, run RTRun) string {
	var sb strings.Builder
	fmt.Fprintf(&sb, "protocol %s:", run.Proto)
	proto := b.Pkg.Find(run.Proto)
	for i, s := range run.Steps {
		name := proto.Fields[i].Name
		if s.Stream {
			fmt.Fprintf(&sb, "\n  %s = stream%v %s", name, s.Blocks, core.Trunc((&value.Value{K: value.Seq, Items: s.Items}).String(), 400))
		} else {
			fmt.Fprintf(&sb, "\n  %s = %s", name, core.Trunc(s.Value.String(), 400))
		}
	}
	return sb.String()
}

func modelText(p *model.Package) string {
	return model.EmitLayout(p, model.EmitOptions{}).Text()
}

func rtReplay(check string, fn func(c RTCase) *Fail) {
	registerReplay(check, func(raw json.RawMessage) *Fail {
		var c RTCase
		if err := json.Unmarshal(raw, &c); err != nil {
			return failf(check, "bad replay: %v", err)
		}
		c.fix()
		return fn(c)
	})
}

// applyRuntimeExclusions turns off generator features tied to open known findings of the
// run-time legs (each switch is as narrow as its finding; excluded draws are counted).
func applyRuntimeExclusions(cfg *model.GenConfig) {
	for _, f := range core.AllFindings() {
		if f.Status != "open" {
			continue
		}
		for _, sw := range runtimeSwitches[f.ID] {
			if core.Open(f.ID) {
				cfg.Excl[sw] = true
			}
		}
	}
}

// finding id -> generator switches
var runtimeSwitches = map[string][]string{
	"C08-cpp-vector-of-bool":                {"vector-of-bool"},
	"C08-python-generic-identity-alias":     {"generic-identity-alias"},
	"C01-python-nested-optional-collapses":  {"nested-optional-via-alias"},
	"C02-python-ndjson-struct-array-dtype":  {"array-of-struct"},
	"C08-python-union-as-generic-arg":       {"union-as-generic-arg"},
	"C02-flags-number-union-untagged":       {"union-flags-with-number"},
	"C02-generic-union-param-case-untagged": {"union-with-param-case"},
	"C08-cpp-map-key-without-hash":          {"map-key-chrono"},
	"C01-python-array-of-vector":            {"array-of-vector"},
	"C08-python-union-nested-in-alias":      {"union-nested-in-alias"},
}

// valueOpts applies value-level exclusion switches of open findings.
func valueOpts(o value.GenOpts, ndjson bool) value.GenOpts {
	if ndjson && core.Open("C02-python-ndjson-zero-dim-array") {
		o.NoZeroDim = true
	}
	if ndjson && core.Open("C02-python-ndjson-unknown-enum-in-array") {
		o.DeclaredEnumsInArrays = true
	}
	return o
}
