package checks

import (
	"os"
	"testing"

	"verif/harness/core"
)

func TestMain(m *testing.M) {
	// rapid replays testdata/rapid/**.fail first; runs must be a function of the seed only
	os.RemoveAll("testdata/rapid")
	code := m.Run()
	core.Flush()
	os.Exit(code)
}
