package checks

import (
	"encoding/json"
	"fmt"
	"os"
	"path/filepath"
	"regexp"
	"strconv"
	"strings"
	"testing"
	"time"

	"pgregory.net/rapid"
	"verif/harness/core"
	"verif/harness/model"
	"verif/harness/sut"
)

// C10 — the front end is total: any bytes as model files / manifest give exit 0, or exit 1
// with at least one located error whose line number is a line of the named file; never a panic, a hang or memory exhaustion.

type C10Case struct {
	Gen    string       `json:"gen"`
	Layout model.Layout `json:"layout"`
	Cmd    string       `json:"cmd"` // validate | generate
}

const c10Rule = "generators: bytes (raw / spliced into a valid file), tree (random YAML trees with yardl tags), mutate (valid generated package with 1-4 structural YAML mutations), strings (grammar-derived type and expression strings), expr (well-formed expressions over a record with a field of every shape, incl. arrays mixing named and unnamed dimensions), refs (2-6 definitions whose type references and enum base types are drawn freely from a small pool of names: cycles, self references, wrong arities), manifest (random _package.yml: random keys and values, or a valid manifest plus 1-2 further keys - imports, versions incl. a version label that names the package itself, target sections - or a document that is no mapping: empty, null, a scalar, a sequence); tree/mutate/strings/expr/refs texts are rendered in block style or entirely in flow style (one line, or with line breaks that put scalars into the first column); each case runs the real CLI (validate, 1 in 4 also generate) under a 10 s / 4 GiB limit. non-trivial = the input got past YAML syntax into yardl's own unmarshalling/validation (exit 0, or an error that is not a YAML scanner/parser error); distinct = hash of all file contents"

var yamlSyntaxRe = regexp.MustCompile(`(did not find|could not find|found character|found unexpected|mapping values are not allowed|while scanning|while parsing|control characters are not allowed|invalid leading UTF-8|incomplete UTF-8|block sequence entries are not allowed|found unknown|expected a|unknown anchor|did not find expected|invalid trailing UTF-8|found undefined tag handle|found incompatible YAML|cannot unmarshal|yaml: )`)

// YAML-library errors for which the library reports no position: byte-reader errors (control
// characters, invalid UTF-8) and scanner/parser errors located on the first line of the file.
var yamlNoLineRe = regexp.MustCompile(`❌ [^\n]*\.ya?ml: yaml: [a-z]`)

func yardlLimited(pkgDir string, args ...string) sut.Result {
	home := filepath.Join(sut.WorkRoot(), "home")
	os.MkdirAll(home, 0o755)
	script := "ulimit -v 4194304; exec \"$0\" \"$@\""
	full := append([]string{"-c", script, sut.YardlBin()}, args...)
	return sut.Run(pkgDir, []string{"HOME=" + home, "NO_COLOR=1"}, 10*time.Second, nil, "/bin/sh", full...)
}

var panicFrameRe = regexp.MustCompile(`github\.com/microsoft/yardl/tooling/([^\s(]+(?:\([^)]*\))?[^\s(]*)\(`)

// panicSignature = class + first yardl frame (function name, no line numbers).
func panicSignature(out string) string {
	class := "panic"
	if strings.Contains(out, "fatal error:") {
		class = "fatal"
	}
	if i := strings.Index(out, "panic:"); i >= 0 {
		line := out[i:]
		if j := strings.IndexByte(line, '\n'); j >= 0 {
			line = line[:j]
		}
		switch {
		case strings.Contains(line, "index out of range"):
			class = "index"
		case strings.Contains(line, "nil pointer"):
			class = "nilptr"
		case strings.Contains(line, "makeslice"):
			class = "makeslice"
		case strings.Contains(line, "interface conversion"):
			class = "ifaceconv"
		}
	}
	for _, m := range panicFrameRe.FindAllStringSubmatch(out, -1) {
		fn := m[1]
		if strings.Contains(fn, "zerolog") {
			continue
		}
		return class + "@" + fn
	}
	return class
}

func checkC10(c C10Case) *Fail {
	rec := core.Rec("C10")
	var res *Fail
	withTempLayout("c10", c.Layout, func(root string) {
		pkg := filepath.Join(root, "main")
		os.MkdirAll(pkg, 0o755)
		r := yardlLimited(pkg, c.Cmd)
		out := sut.StripANSI(r.Combined())
		switch {
		case r.TimedOut:
			res = failf("c10", "yardl %s did not terminate within 10 s", c.Cmd)
			return
		case sut.HasPanic(out) || r.Signal != "" || (r.Exit != 0 && r.Exit != 1):
			sig := panicSignature(out)
			res = failf("c10", "yardl %s aborted (exit %d, signal %q, signature %s):\n%s", c.Cmd, r.Exit, r.Signal, sig, core.Trunc(out, 1500))
			res.KnownID = c10Known(sig, out)
			return
		}
		class := "ok"
		if r.Exit == 1 {
			ds := diagnostics(out)
			if len(ds) == 0 {
				res = failf("c10", "exit 1 without any error naming a file:\n%s", core.Trunc(out, 1500))
				return
			}
			located := false
			for _, d := range ds {
				f := d.File
				if !filepath.IsAbs(f) {
					f = filepath.Join(pkg, f)
				}
				if _, err := os.Stat(f); err != nil {
					continue
				}
				if filepath.Base(f) == "_package.yml" || d.HasLine {
					located = true
				}
				if d.HasLine {
					// "a line number": a line of that file (one past the end is where an unexpected end of input is reported)
					n, _ := strconv.Atoi(d.Line)
					data, _ := os.ReadFile(f)
					if lines := strings.Count(string(data), "\n") + 1; n < 1 || n > lines+1 {
						res = failf("c10", "an error is located at line %d of %s, which has %d lines:\n%s", n, filepath.Base(f), lines, core.Trunc(out, 1500))
						return
					}
				}
			}
			if !located {
				res = failf("c10", "exit 1 but no error names an existing file (with a line for model files):\n%s", core.Trunc(out, 1500))
				if yamlNoLineRe.MatchString(out) {
					res.KnownID = "C10-yaml-error-without-line"
				}
				return
			}
			if yamlSyntaxRe.MatchString(out) && !strings.Contains(out, "cannot unmarshal") {
				class = "yaml-syntax"
			} else {
				class = "diagnosed"
			}
		}
		rec.Class(c.Gen + ":" + class)
		if class != "yaml-syntax" {
			rec.Nontrivial(layoutHash(c.Layout))
			if class == "diagnosed" {
				rec.Sample(map[string]any{"gen": c.Gen, "cmd": c.Cmd, "files": core.Trunc(c.Layout.Text(), 600), "stderr": core.Trunc(out, 300)})
			}
		}
	})
	return res
}

// c10Known maps a crash signature to a known-finding id (empty = not known).
func c10Known(sig, out string) string {
	for _, f := range core.AllFindings() {
		if f.Property == "C10" && strings.HasPrefix(f.ID, "C10-") && f.Status == "open" {
			want := strings.TrimPrefix(f.ID, "C10-")
			if strings.Contains(sig, want) {
				return f.ID
			}
		}
	}
	return ""
}

// ---------------------------------------------------------------------------------------
// generators

var yardlTags = []string{"", "", "", "!record", "!enum", "!flags", "!protocol", "!vector", "!array", "!map", "!union", "!stream", "!generic", "!switch", "!!map", "!!seq", "!!str", "!!int", "!!null", "!bogus"}
var yardlKeys = []string{"fields", "computedFields", "values", "base", "sequence", "items", "length", "dimensions", "keys", "name", "args", "x", "y", "a", "T", "Foo", "Bar<T>", "null", "_", "int", "size"}

var hostileScalars = []string{"", "~", "null", "-1", "0", "1", "99999999999", "18446744073709551616", "-9223372036854775809", "0x10", "1e3", "1.5", "true",
	"int", "int*", "int*3", "int?", "int[]", "int[,]", "int[x:2,y:3]", "int[x,y]", "string->int", "Foo<int>", "Foo<", "int[", "int[x:]", "(int", "int)", "->", "*", "?", "[]", "Foo..Bar", "Foo.Bar", "a.b.c",
	"x[]", "x[0]", "x[a:0]", "size(x)", "size()", "x as int", "1 + ", "x.y", "dimensionIndex(x, 'a')", "dimensionCount(x)", "\"s\"", "'s", "1 ** 2", "-(", "x[0][1]", "x[0,1,2,3]",
	"Main.Rec0", "T", "U", "Rec0", "Rec0<int>", "Rec0<int, int, int>", "A B", "int32 v", "_", "null v", "\u00e9", "\U0001F600", "a\tb"}

func genScalar(t *rapid.T) string {
	if rapid.IntRange(0, 9).Draw(t, "scalarKind") < 7 {
		return rapid.SampledFrom(hostileScalars).Draw(t, "hostile")
	}
	return rapid.StringMatching(`[A-Za-z0-9<>\[\]\(\)\*\?,:\-\. _']{0,12}`).Draw(t, "scalar")
}

func genTree(t *rapid.T, depth int) *model.YNode {
	k := rapid.IntRange(0, 9).Draw(t, "nodeKind")
	tag := rapid.SampledFrom(yardlTags).Draw(t, "tag")
	if depth <= 0 || k < 4 {
		n := model.YS(genScalar(t))
		n.Tag = tag
		if rapid.IntRange(0, 4).Draw(t, "q") == 0 {
			n.Quote = '"'
		}
		return n
	}
	if k < 6 {
		n := model.YSeq()
		n.Tag = tag
		cnt := rapid.IntRange(0, 3).Draw(t, "seqN")
		for i := 0; i < cnt; i++ {
			n.Seq = append(n.Seq, genTree(t, depth-1))
		}
		n.Flow = rapid.Bool().Draw(t, "flow")
		return n
	}
	n := model.YMap()
	n.Tag = tag
	cnt := rapid.IntRange(0, 4).Draw(t, "mapN")
	for i := 0; i < cnt; i++ {
		var key string
		if rapid.IntRange(0, 3).Draw(t, "keyKind") == 0 {
			key = genScalar(t)
		} else {
			key = rapid.SampledFrom(yardlKeys).Draw(t, "key")
		}
		kn := model.YS(key)
		if rapid.IntRange(0, 9).Draw(t, "keyTag") == 0 {
			kn.Tag = rapid.SampledFrom(yardlTags).Draw(t, "ktag")
		}
		n.PutK(kn, genTree(t, depth-1))
	}
	n.Flow = rapid.IntRange(0, 3).Draw(t, "mflow") == 0
	return n
}

// collect returns all nodes of a tree with their parents.
type nodeRef struct {
	parent *model.YNode
	idx    int  // index in Seq or Vals/Keys
	isKey  bool // refers to parent.Keys[idx]
	node   *model.YNode
}

func collect(n *model.YNode, out *[]nodeRef) {
	for i, c := range n.Seq {
		*out = append(*out, nodeRef{n, i, false, c})
		collect(c, out)
	}
	for i := range n.Keys {
		*out = append(*out, nodeRef{n, i, true, n.Keys[i]})
		*out = append(*out, nodeRef{n, i, false, n.Vals[i]})
		collect(n.Vals[i], out)
	}
}

func (r nodeRef) set(x *model.YNode) {
	switch {
	case r.parent.IsSeq:
		r.parent.Seq[r.idx] = x
	case r.isKey:
		r.parent.Keys[r.idx] = x
	default:
		r.parent.Vals[r.idx] = x
	}
}

func mutateTree(t *rapid.T, root *model.YNode) string {
	var refs []nodeRef
	collect(root, &refs)
	if len(refs) == 0 {
		return "none"
	}
	r := refs[rapid.IntRange(0, len(refs)-1).Draw(t, "mutAt")]
	op := rapid.IntRange(0, 8).Draw(t, "mutOp")
	switch op {
	case 0: // replace by hostile scalar
		n := model.YS(genScalar(t))
		n.Tag = r.node.Tag
		r.set(n)
		return "scalar"
	case 1: // replace by random tree
		if r.isKey {
			r.set(model.YS(genScalar(t)))
		} else {
			r.set(genTree(t, 2))
		}
		return "tree"
	case 2: // change / drop tag
		r.node.Tag = rapid.SampledFrom(yardlTags).Draw(t, "newTag")
		return "tag"
	case 3: // delete entry
		p := r.parent
		if p.IsSeq {
			p.Seq = append(p.Seq[:r.idx:r.idx], p.Seq[r.idx+1:]...)
		} else {
			p.Keys = append(p.Keys[:r.idx:r.idx], p.Keys[r.idx+1:]...)
			p.Vals = append(p.Vals[:r.idx:r.idx], p.Vals[r.idx+1:]...)
		}
		return "delete"
	case 4: // duplicate entry
		p := r.parent
		if p.IsSeq {
			p.Seq = append(p.Seq, p.Seq[r.idx].Clone())
		} else {
			p.Keys = append(p.Keys, p.Keys[r.idx].Clone())
			p.Vals = append(p.Vals, p.Vals[r.idx].Clone())
		}
		return "duplicate"
	case 5: // turn scalar into one-element seq / map into seq of its values
		if r.isKey {
			r.set(model.YS(genScalar(t)))
			return "scalar"
		}
		if r.node.Scalar != nil {
			r.set(model.YSeq(r.node))
		} else if r.node.IsMap {
			s := model.YSeq(r.node.Vals...)
			s.Tag = r.node.Tag
			r.set(s)
		} else {
			m := model.YMap()
			m.Tag = r.node.Tag
			for i, c := range r.node.Seq {
				m.Put(fmt.Sprintf("k%d", i), c)
			}
			r.set(m)
		}
		return "kindswap"
	case 6: // empty the node
		if r.isKey {
			r.set(model.YS(""))
		} else {
			e := model.YNull()
			e.Tag = r.node.Tag
			r.set(e)
		}
		return "empty"
	case 7: // huge / negative integer
		n := model.YS(rapid.SampledFrom([]string{"-1", "99999999999", "18446744073709551615", "18446744073709551616", "-9223372036854775808", "4294967296", "0", "1e9", "0x7fffffffffffffff"}).Draw(t, "bigint"))
		if !r.isKey {
			n.Tag = r.node.Tag
		}
		r.set(n)
		return "bigint"
	default: // swap with another node's content
		o := refs[rapid.IntRange(0, len(refs)-1).Draw(t, "swapWith")]
		if o.isKey || r.isKey {
			return "none"
		}
		r.set(o.node.Clone())
		return "graft"
	}
}

var typeTokens = []string{"int", "string", "Foo", "Rec0", "T", "Main.Rec0", "float", "<", ">", ",", "*", "?", "[", "]", "(", ")", "->", ":", "3", "0", "x", "y", " ", "<int>", "[]", "[,]", "*2", "??", "99999999999999999999", "-1", "."}
var exprTokens = []string{"a", "v", "fv", "arr", "narr", "marr", "marr3", "[x:0, y:1]", "[z:0, t:1]", "farr", "m", "o", "u", "r", "s", "e", "1", "2", "0", "-1", "1.5", "0x10", "'x'", "\"y\"", "+", "-", "*", "/", "**", "(", ")", "[", "]", ",", ":", ".", " as ", "int", "float64", "string", "size", "dimensionIndex", "dimensionCount", "x", "y", "b", " ", "99999999999999999999", "[]", "()", "[0]", "[x:0]", "[0,0]", "[x:0,y:0]", ".b", "size(", "!", "?", "_"}

var hostFields = []string{"a", "v", "fv", "arr", "narr", "unarr", "marr", "marr3", "marr", "farr", "m", "o", "u", "nu", "r", "s", "e", "d", "u8", "i64", "zz", "r.b", "r.w",
	// the computed fields of the same record (themselves included: reference cycles, forward references)
	"c0", "c1", "c2", "sw", "c0", "sw"}

// genExpr builds a syntactically well-formed (but semantically arbitrary) expression.
func genExpr(t *rapid.T, depth int) string {
	k := rapid.IntRange(0, 11).Draw(t, "exprKind")
	if depth <= 0 && k > 2 {
		k = k % 3
	}
	switch k {
	case 0:
		return rapid.SampledFrom(hostFields).Draw(t, "field")
	case 1:
		return rapid.SampledFrom([]string{"0", "1", "2", "-1", "3.5", "0x10", "'x'", "\"y\"", "99999999999", "18446744073709551616", "1e400", "-0"}).Draw(t, "lit")
	case 2:
		return rapid.SampledFrom(hostFields).Draw(t, "field2")
	case 3, 4: // subscript
		n := rapid.IntRange(0, 3).Draw(t, "subN")
		var args []string
		labelled := rapid.IntRange(0, 2).Draw(t, "labelled")
		for i := 0; i < n; i++ {
			a := genExpr(t, depth-1)
			if labelled == 1 || (labelled == 2 && rapid.Bool().Draw(t, "mixLabel")) {
				a = rapid.SampledFrom([]string{"x", "y", "z", "a", "t", "x"}).Draw(t, "dimLabel") + ":" + a
			}
			args = append(args, a)
		}
		return genExpr(t, depth-1) + "[" + strings.Join(args, ", ") + "]"
	case 5: // call
		fn := rapid.SampledFrom([]string{"size", "dimensionIndex", "dimensionCount", "foo"}).Draw(t, "fn")
		n := rapid.IntRange(0, 3).Draw(t, "callN")
		var args []string
		for i := 0; i < n; i++ {
			args = append(args, genExpr(t, depth-1))
		}
		return fn + "(" + strings.Join(args, ", ") + ")"
	case 6: // cast
		return genExpr(t, depth-1) + " as " + rapid.SampledFrom([]string{"int", "float64", "string", "uint8", "Inner", "En", "bool", "complexfloat", "date", "Foo", "size"}).Draw(t, "castT")
	case 7:
		return "(" + genExpr(t, depth-1) + ")"
	case 8:
		return "-" + genExpr(t, depth-1)
	case 9:
		return genExpr(t, depth-1) + "." + rapid.SampledFrom([]string{"b", "w", "a", "zz"}).Draw(t, "member")
	default:
		op := rapid.SampledFrom([]string{"+", "-", "*", "/", "**"}).Draw(t, "op")
		return genExpr(t, depth-1) + " " + op + " " + genExpr(t, depth-1)
	}
}

func genTokens(t *rapid.T, toks []string, label string) string {
	n := rapid.IntRange(1, 8).Draw(t, label+"N")
	var b strings.Builder
	for i := 0; i < n; i++ {
		b.WriteString(rapid.SampledFrom(toks).Draw(t, label))
	}
	return b.String()
}

// exprHost is a record with one field of every shape computed-field expressions can touch.
const exprHostHead = `Inner: !record
  fields:
    b: int
    w: float*
En: !enum
  values: [p, q]
Host: !record
  fields:
    a: int
    v: int*
    fv: int*3
    arr: int[]
    narr: int[x, y]
    unarr: int[,]
    marr: !array
      items: int
      dimensions: [~, x]
    marr3: !array
      items: float
      dimensions: [t, ~, z]
    farr: float[x:2, y:3]
    m: string->int
    o: int?
    u: [int, string, Inner]
    nu: [null, int, float]
    r: Inner
    s: string
    e: En
    d: double
    u8: uint8
    i64: long
  computedFields:
`

func genC10(t *rapid.T) C10Case {
	kinds := []string{"bytes", "tree", "mutate", "mutate", "mutate", "strings", "expr", "expr", "manifest", "refs", "refs"}
	kind := rapid.SampledFrom(kinds).Draw(t, "gen")
	c := C10Case{Gen: kind, Cmd: "validate"}
	if rapid.IntRange(0, 3).Draw(t, "cmd") == 0 {
		c.Cmd = "generate"
	}
	outputs := ""
	if c.Cmd == "generate" {
		outputs = "json:\n  outputDir: ../out/json\npython:\n  outputDir: ../out/py\ncpp:\n  sourcesOutputDir: ../out/cpp\n  generateHDF5: false\nmatlab:\n  outputDir: ../out/m\n"
	}
	manifest := "namespace: Main\n" + outputs
	switch kind {
	case "bytes":
		raw := string(rapid.SliceOfN(rapid.Byte(), 0, 120).Draw(t, "raw"))
		if rapid.Bool().Draw(t, "splice") {
			base := "R: !record\n  fields:\n    a: int\n    b: !vector\n      items: string\nP: !protocol\n  sequence:\n    s: !stream\n      items: R\n"
			pos := rapid.IntRange(0, len(base)).Draw(t, "pos")
			raw = base[:pos] + raw + base[pos:]
		}
		c.Layout = model.Layout{"main": {"_package.yml": manifest, "m.yml": raw}}
	case "tree":
		root := model.YMap()
		n := rapid.IntRange(1, 4).Draw(t, "defs")
		for i := 0; i < n; i++ {
			name := rapid.SampledFrom([]string{"A", "B", "Foo", "Bar<T>", "P", "a", "X<T, U>", "Baz<>", "9x", ""}).Draw(t, "defName")
			root.Put(name, genTree(t, 3))
		}
		c.Layout = model.Layout{"main": {"_package.yml": manifest, "m.yml": renderStyled(t, root)}}
	case "mutate":
		cfg := model.DefaultGen()
		cfg.MaxDefs = 5
		cfg.MaxSteps = 4
		cfg.MaxFiles = 2
		p := model.GenPackage(t, &cfg)
		l := model.EmitLayout(p, model.EmitOptions{ExtraManifest: outputs})
		// choose a package (main or an import) and a file, re-render it from a mutated tree
		pkgs := p.AllPackages()
		target := pkgs[rapid.IntRange(0, len(pkgs)-1).Draw(t, "mutPkg")]
		nodes := model.PackageNodes(target, rapidChooser(t))
		fi := rapid.IntRange(0, len(nodes)-1).Draw(t, "mutFile")
		k := rapid.IntRange(1, 4).Draw(t, "mutations")
		for i := 0; i < k; i++ {
			mutateTree(t, nodes[fi])
		}
		l[target.DirName][model.DefaultFileNames(len(nodes))[fi]] = renderStyled(t, nodes[fi])
		c.Layout = l
		if target != p {
			c.Gen = "mutate-import"
		}
	case "strings":
		var b strings.Builder
		b.WriteString(exprHostHead)
		n := rapid.IntRange(1, 4).Draw(t, "cfs")
		for i := 0; i < n; i++ {
			fmt.Fprintf(&b, "    c%d: %s\n", i, quoteYAML(genTokens(t, exprTokens, "etok")))
		}
		if rapid.Bool().Draw(t, "withSwitch") {
			fmt.Fprintf(&b, "    sw:\n      !switch %s:\n        %s: %s\n        %s: %s\n", rapid.SampledFrom([]string{"u", "o", "nu", "a", "r.b", "zz", "m"}).Draw(t, "swTarget"),
				quoteYAML(rapid.SampledFrom([]string{"int", "int x", "string s", "Inner i", "null", "_", "float f", "int*", "null n", "Foo", "int x y"}).Draw(t, "pat1")), quoteYAML(genTokens(t, exprTokens, "etok2")),
				quoteYAML(rapid.SampledFrom([]string{"_", "string", "Inner", "null", "float"}).Draw(t, "pat2")), quoteYAML(genTokens(t, exprTokens, "etok3")))
		}
		b.WriteString("T1: !record\n  fields:\n")
		m := rapid.IntRange(1, 4).Draw(t, "tfs")
		for i := 0; i < m; i++ {
			fmt.Fprintf(&b, "    f%d: %s\n", i, quoteYAML(genTokens(t, typeTokens, "ttok")))
		}
		c.Layout = model.Layout{"main": {"_package.yml": manifest, "m.yml": restyleBlockText(t, b.String())}}
	case "expr":
		var b strings.Builder
		b.WriteString(exprHostHead)
		n := rapid.IntRange(1, 3).Draw(t, "cfs")
		for i := 0; i < n; i++ {
			fmt.Fprintf(&b, "    c%d: %s\n", i, quoteYAML(genExpr(t, 3)))
		}
		if rapid.Bool().Draw(t, "withSwitch") {
			fmt.Fprintf(&b, "    sw:\n      !switch %s:\n", genExpr(t, 1))
			pats := []string{"int", "int x", "string s", "Inner i", "null", "_", "float f", "float", "string", "Inner", "int*", "En e", "double dd"}
			m := rapid.IntRange(1, 4).Draw(t, "swCases")
			used := map[string]bool{}
			for j := 0; j < m; j++ {
				p := rapid.SampledFrom(pats).Draw(t, "pat")
				if used[p] {
					continue
				}
				used[p] = true
				body := genExpr(t, 2)
				if parts := strings.Fields(p); len(parts) == 2 && rapid.Bool().Draw(t, "useVar") {
					body = parts[1] + rapid.SampledFrom([]string{"", " + 1", ".b", "[0]", " as float"}).Draw(t, "varUse")
				}
				fmt.Fprintf(&b, "        %s: %s\n", quoteYAML(p), quoteYAML(body))
			}
		}
		c.Layout = model.Layout{"main": {"_package.yml": manifest, "m.yml": restyleBlockText(t, b.String())}}
	case "refs":
		c.Layout = model.Layout{"main": {"_package.yml": manifest, "m.yml": restyleBlockText(t, genRefGraph(t))}}
	case "manifest":
		root := model.YMap()
		keys := []string{"namespace", "imports", "versions", "cpp", "python", "matlab", "json", "bogus"}
		n := rapid.IntRange(0, 5).Draw(t, "mkeys")
		// half of the manifests start out valid (a namespace and an output) and get 1-2 further keys, so
		// that what the keys hold is reached by the loader and, for generate, by the code behind it
		fromValid := rapid.Bool().Draw(t, "mFromValid")
		if fromValid {
			root.Put("namespace", model.YS("Main"))
			jm := model.YMap()
			jm.Put("outputDir", model.YS("../out/json"))
			root.Put("json", jm)
			keys = []string{"imports", "versions", "versions", "cpp", "python", "matlab", "bogus"}
			n = rapid.IntRange(1, 2).Draw(t, "mkeysValid")
			if rapid.Bool().Draw(t, "mGenerate") {
				c.Cmd = "generate"
			}
		}
		for i := 0; i < n; i++ {
			k := rapid.SampledFrom(keys).Draw(t, "mkey")
			var v *model.YNode
			if fromValid && k == "versions" && rapid.IntRange(0, 2).Draw(t, "mVersionsMap") != 0 {
				// a well-formed versions map: labels -> package locations, among them the package itself
				m := model.YMap()
				for j, nl := 0, rapid.IntRange(1, 2).Draw(t, "mLabels"); j < nl; j++ {
					m.Put(rapid.SampledFrom([]string{"v1", "v_1", "cur", "v2", "1v"}).Draw(t, "mLabel"),
						model.YS(rapid.SampledFrom([]string{".", "../main", "./", "../main/", "../imp", "../nope", ""}).Draw(t, "mLoc")))
				}
				root.Put(k, m)
				continue
			}
			switch rapid.IntRange(0, 3).Draw(t, "mval") {
			case 0:
				v = genTree(t, 2)
			case 1:
				v = model.YS(rapid.SampledFrom([]string{"Main", "main", "9x", "", "../imp", "../main", ".", "/nonexistent", "out", "true", "v1", "A.B"}).Draw(t, "mscalar"))
			case 2:
				m := model.YMap()
				for _, kk := range []string{"outputDir", "sourcesOutputDir", "generateHDF5", "disabled", "v1", "v_1", "1v"} {
					if rapid.Bool().Draw(t, "mk") {
						m.Put(kk, model.YS(rapid.SampledFrom([]string{"out", "true", "false", "", "../imp", "../main", "3"}).Draw(t, "mv")))
					}
				}
				v = m
			default:
				v = model.YSeq(model.YS("../imp"), model.YS(rapid.SampledFrom([]string{"../imp", "../main", "../nope", ".", ""}).Draw(t, "imp2")))
			}
			root.Put(k, v)
		}
		txt := root.Render()
		if len(root.Keys) == 0 {
			// a manifest that is no mapping at all
			txt = rapid.SampledFrom([]string{"", "~\n", "null\n", "[]\n", "3\n", "''\n", "---\n", "--- ~\n...\n", "# nothing\n", "{}\n", "!!map\n"}).Draw(t, "mDoc")
		}
		c.Layout = model.Layout{
			"main": {"_package.yml": txt, "m.yml": "R: !record\n  fields:\n    a: int\nP: !protocol\n  sequence:\n    r: R\n"},
			"imp":  {"_package.yml": "namespace: Imp\n", "i.yml": "Q: !record\n  fields:\n    a: int\n"},
		}
	}
	return c
}

// renderStyled prints a node tree in block style (mostly) or entirely in flow style, on one line or
// with line breaks that put scalars into the first column.
func renderStyled(t *rapid.T, n *model.YNode) string {
	switch rapid.IntRange(0, 7).Draw(t, "style") {
	case 0:
		return n.RenderFlow(0)
	case 1:
		return n.RenderFlow(1)
	case 2:
		return n.RenderFlow(2)
	}
	return n.Render()
}

// restyleBlockText re-renders a (valid YAML) block-style text in one of the styles of renderStyled.
func restyleBlockText(t *rapid.T, text string) string {
	style := rapid.IntRange(0, 7).Draw(t, "style")
	if style > 2 {
		return text
	}
	n, err := model.ParseYAMLText(text)
	if err != nil || n == nil {
		return text
	}
	return n.RenderFlow(style)
}

var refPool = []string{"A", "B", "C", "D", "E", "F", "A", "B", "T", "U", "int", "string", "float", "bool", "size", "uint8", "date", "Main.A", "Main.C", "Nope"}

// genRefType draws a type string whose named references are taken freely from a small pool of
// definition names: self references, cycles, wrong arities and bases that are aliases arise by chance.
func genRefType(t *rapid.T, depth int) string {
	k := rapid.IntRange(0, 13).Draw(t, "refKind")
	if depth <= 0 && k > 5 {
		k = k % 6
	}
	switch k {
	case 0, 1, 2, 3:
		return rapid.SampledFrom(refPool).Draw(t, "refName")
	case 4:
		return "E<" + genRefType(t, depth-1) + ">"
	case 5:
		return "F<" + genRefType(t, depth-1) + ", " + genRefType(t, depth-1) + ">"
	case 6:
		return genRefType(t, depth-1) + "?"
	case 7:
		return genRefType(t, depth-1) + "*"
	case 8:
		return genRefType(t, depth-1) + rapid.SampledFrom([]string{"*2", "[]", "[,]", "[x, y]", "[2, 3]", "[x:2, y]", "[x:2, y:3]"}).Draw(t, "refDims")
	case 9:
		return genRefType(t, depth-1) + "->" + genRefType(t, depth-1)
	default:
		return rapid.SampledFrom(refPool).Draw(t, "refName2")
	}
}

// refTypeNode: a type position, either a type string or a union written as a YAML sequence.
func refTypeYAML(t *rapid.T, depth int) string {
	if rapid.IntRange(0, 5).Draw(t, "refUnion") == 0 {
		n := rapid.IntRange(1, 3).Draw(t, "refCases")
		var cs []string
		if rapid.Bool().Draw(t, "refNull") {
			cs = append(cs, "null")
		}
		for i := 0; i < n; i++ {
			cs = append(cs, quoteYAML(genRefType(t, depth)))
		}
		return "[" + strings.Join(cs, ", ") + "]"
	}
	return quoteYAML(genRefType(t, depth))
}

// genRefGraph: 2-6 definitions named from the pool (aliases, records, enums/flags with a base drawn from
// the same pool, protocols), every type reference drawn freely from the pool.
func genRefGraph(t *rapid.T) string {
	var b strings.Builder
	names := []string{"A", "B", "C", "D", "E<T>", "F<T, U>"}
	n := rapid.IntRange(2, 6).Draw(t, "refDefs")
	for i := 0; i < n; i++ {
		name := names[i]
		if rapid.IntRange(0, 11).Draw(t, "refDup") == 0 {
			name = rapid.SampledFrom(names).Draw(t, "refDupName")
		}
		switch rapid.IntRange(0, 9).Draw(t, "refDefKind") {
		case 0, 1, 2: // alias
			fmt.Fprintf(&b, "%s: %s\n", quoteYAML(name), refTypeYAML(t, 2))
		case 3, 4, 5: // record
			fmt.Fprintf(&b, "%s: !record\n  fields:\n", quoteYAML(name))
			m := rapid.IntRange(1, 3).Draw(t, "refFields")
			for j := 0; j < m; j++ {
				fmt.Fprintf(&b, "    f%d: %s\n", j, refTypeYAML(t, 2))
			}
			if rapid.IntRange(0, 2).Draw(t, "refCf") == 0 {
				fmt.Fprintf(&b, "  computedFields:\n    c0: %s\n", quoteYAML(rapid.SampledFrom([]string{"f0", "f0 + 1", "f0[0]", "size(f0)", "f0.f0", "f1", "c0", "f0 as int", "f0[x:0, y:1]", "f0[y:0]"}).Draw(t, "refExpr")))
			}
		case 6, 7: // enum / flags
			fmt.Fprintf(&b, "%s: %s\n", quoteYAML(name), rapid.SampledFrom([]string{"!enum", "!flags"}).Draw(t, "refEnumTag"))
			if rapid.IntRange(0, 3).Draw(t, "refBase") > 0 {
				fmt.Fprintf(&b, "  base: %s\n", quoteYAML(genRefType(t, 1)))
			}
			if rapid.Bool().Draw(t, "refValMap") {
				fmt.Fprintf(&b, "  values:\n    a: %s\n    b: %s\n", rapid.SampledFrom([]string{"0", "1", "-1", "255", "256", "4294967296", "18446744073709551615", "18446744073709551616", "0x10"}).Draw(t, "refV1"), rapid.SampledFrom([]string{"1", "2", "0", "-129", "65536"}).Draw(t, "refV2"))
			} else {
				b.WriteString("  values: [a, b, c]\n")
			}
		default: // protocol
			fmt.Fprintf(&b, "%s: !protocol\n  sequence:\n", quoteYAML(strings.SplitN(name, "<", 2)[0]+"P"))
			m := rapid.IntRange(1, 3).Draw(t, "refSteps")
			for j := 0; j < m; j++ {
				if rapid.Bool().Draw(t, "refStream") {
					fmt.Fprintf(&b, "    s%d: !stream\n      items: %s\n", j, refTypeYAML(t, 2))
				} else {
					fmt.Fprintf(&b, "    s%d: %s\n", j, refTypeYAML(t, 2))
				}
			}
		}
	}
	return b.String()
}

func quoteYAML(s string) string {
	return "\"" + strings.NewReplacer("\\", "\\\\", "\"", "\\\"").Replace(s) + "\""
}

func init() {
	registerReplay("c10", func(raw json.RawMessage) *Fail {
		var c C10Case
		if err := json.Unmarshal(raw, &c); err != nil {
			return failf("c10", "bad replay: %v", err)
		}
		return checkC10(c)
	})
}

func TestC10(t *testing.T) {
	rec := core.Rec("C10")
	rec.SetRule(c10Rule)
	rec.Assume("the CLI binary built from /repo/tooling with -tags verif is the system under test", "a 10 s wall-clock limit and a 4 GiB address-space limit stand for 'promptly' and 'does not exhaust memory'")
	replayKnown(t, "C10")
	hung := false
	rapid.Check(t, func(rt *rapid.T) {
		if hung {
			// a hang was already recorded with its replay file; do not spend 10 s per shrink attempt
			rt.Fatalf("hang already recorded")
		}
		c := genC10(rt)
		rec.Eval()
		f := checkC10(c)
		if f != nil && strings.Contains(f.Msg, "did not terminate") {
			hung = true
		}
		report(rt, rec, f, c)
	})
}
