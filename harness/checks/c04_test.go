package checks

import (
	"encoding/json"
	"fmt"
	"os"
	"path/filepath"
	"strings"
	"testing"

	"pgregory.net/rapid"
	"verif/harness/core"
	"verif/harness/model"
	"verif/harness/ref"
	"verif/harness/sut"
)

// C04 — every stream carries a schema that pins down its encoding.

type C04Case struct {
	Base    *model.Package    `json:"base"`
	Edited  *model.Package    `json:"edited"`
	Edit    string            `json:"edit"`
	Class   string            `json:"class"` // neutral | wire
	Witness string            `json:"witness"`
	EmitB   model.EmitOptions `json:"-"`
	Order   []int             `json:"order,omitempty"`
	FileOf  []int             `json:"file_of,omitempty"`
}

const c04Outputs = "cpp:\n  sourcesOutputDir: ../out/cpp\n  generateHDF5: false\n  generateCMakeLists: false\npython:\n  outputDir: ../out/py\nmatlab:\n  outputDir: ../out/m\n"

const c04Rule = "generated package x one edit: neutral (documentation comments, add/remove computed fields, add unrelated definitions incl. ones referencing the protocol's types, permute definitions, re-split files) or wire-affecting with a guaranteed witness value (primitive replaced by one of another encoding class, field order, field/step added or removed, optionality, vector length / fixed-ness, array rank / shape, map key class, enum base class or value, union case order, enum<->flags), applied at a generated position in the protocol or in a transitively used named type (also inside an imported package). oracle: (a) the schema literal parses and its extracted content equals the content derived from the IR (protocol, ordered steps, transitive closure of named types with ordered fields / symbols / values / base / alias targets); (b) neutral edit => literal byte-identical; (c) wire-affecting edit => literal differs; (d) the literals embedded in generated C++, Python and MATLAB are byte-identical. non-trivial = the protocol uses at least 2 named types or the edit lands in a named type; distinct = hash of both models"

var encClass = map[string]string{"bool": "bool", "int8": "i8", "uint8": "u8", "int16": "sv", "int32": "sv", "int64": "sv", "date": "sv", "time": "sv", "datetime": "sv",
	"uint16": "uv", "uint32": "uv", "uint64": "uv", "size": "uv", "float32": "f32", "float64": "f64", "complexfloat32": "c32", "complexfloat64": "c64", "string": "str"}

// wireEdit applies one wire-affecting edit with a guaranteed witness to p (in place).
func wireEdit(t *rapid.T, p *model.Package) (string, string, bool) {
	env := model.NewEnv(p)
	reach := env.Reachable(p.Protocols()...)
	var slots []model.Slot
	for _, q := range p.AllPackages() {
		for _, s := range model.Slots(q) {
			if s.Def.Kind == model.DProtocol || reach[q.Namespace+"."+s.Def.Name] {
				slots = append(slots, s)
			}
		}
	}
	kind := rapid.SampledFrom([]string{"prim-class", "prim-class", "field-order", "add-field", "remove-field", "optional", "vector-length", "array-shape", "union-order", "enum-value", "enum-base", "enum-flags", "remove-step", "map-key"}).Draw(t, "wireKind")
	pickSlot := func(pred func(s model.Slot) bool) (model.Slot, bool) {
		var c []model.Slot
		for _, s := range slots {
			if pred(s) {
				c = append(c, s)
			}
		}
		if len(c) == 0 {
			return model.Slot{}, false
		}
		return c[rapid.IntRange(0, len(c)-1).Draw(t, "slot")], true
	}
	usedInCF := func(s model.Slot) bool {
		if s.Field < 0 || s.Def.Kind != model.DRecord {
			return false
		}
		n := s.Def.Fields[s.Field].Name
		for _, cf := range s.Def.Computed {
			if cf.Expr == n || cf.Expr == "size("+n+")" {
				return true
			}
		}
		return false
	}
	reachDefs := func(kinds ...model.DefKind) []*model.Def {
		var out []*model.Def
		for _, q := range p.AllPackages() {
			for _, d := range q.Defs {
				for _, k := range kinds {
					if d.Kind == k && (k == model.DProtocol || reach[q.Namespace+"."+d.Name]) {
						out = append(out, d)
					}
				}
			}
		}
		return out
	}
	switch kind {
	case "prim-class":
		s, ok := pickSlot(func(s model.Slot) bool { return s.Get().Kind == model.KPrim && s.Ctx != "mapkey" && !usedInCF(s) })
		if !ok {
			return "", "", false
		}
		old := s.Get().Prim
		var alts []string
		for _, q := range model.Prims {
			if encClass[q] != encClass[old] {
				alts = append(alts, q)
			}
		}
		nw := alts[rapid.IntRange(0, len(alts)-1).Draw(t, "newPrim")]
		s.Set(model.Prim(nw))
		// keep unions well-formed
		if !env.TypeOK(topOf(s)) {
			s.Set(model.Prim(old))
			return "", "", false
		}
		return "prim-class@" + s.Path, old + " -> " + nw + " (different encoding class)", true
	case "field-order":
		var c []*model.Def
		for _, d := range reachDefs(model.DRecord) {
			if len(d.Fields) >= 2 && env.Canon(d.Fields[0].Type) != env.Canon(d.Fields[1].Type) {
				c = append(c, d)
			}
		}
		if len(c) == 0 {
			return "", "", false
		}
		d := c[rapid.IntRange(0, len(c)-1).Draw(t, "rec")]
		d.Fields[0], d.Fields[1] = d.Fields[1], d.Fields[0]
		return "field-order@" + d.Name, "two fields of different type swapped", true
	case "add-field":
		c := reachDefs(model.DRecord)
		if len(c) == 0 {
			return "", "", false
		}
		d := c[rapid.IntRange(0, len(c)-1).Draw(t, "rec")]
		d.Fields = append(d.Fields, model.Field{Name: "addedWire", Type: model.Prim("int32")})
		return "add-field@" + d.Name, "one more value per record", true
	case "remove-field":
		var c []*model.Def
		for _, d := range reachDefs(model.DRecord) {
			if len(d.Fields) >= 2 && len(d.Computed) == 0 && len(d.TypeParams) == 0 {
				c = append(c, d)
			}
		}
		if len(c) == 0 {
			return "", "", false
		}
		d := c[rapid.IntRange(0, len(c)-1).Draw(t, "rec")]
		d.Fields = d.Fields[:len(d.Fields)-1]
		return "remove-field@" + d.Name, "one value fewer per record", true
	case "optional":
		s, ok := pickSlot(func(s model.Slot) bool {
			x := s.Get()
			u := env.Underlying(x)
			return s.Depth == 0 && s.Field >= 0 && x.Kind != model.KStream && x.Kind != model.KOptional && x.Kind != model.KUnion && x.Kind != model.KParam && u.Kind != model.KOptional && u.Kind != model.KUnion && !usedInCF(s)
		})
		if !ok {
			return "", "", false
		}
		s.Set(model.Optional(s.Get()))
		return "optional@" + s.Path, "a presence byte is added", true
	case "vector-length":
		s, ok := pickSlot(func(s model.Slot) bool { return s.Get().Kind == model.KVector && !usedInCF(s) })
		if !ok {
			return "", "", false
		}
		v := s.Get()
		if v.Len == nil {
			n := uint64(2)
			v.Len = &n
			return "vector-length@" + s.Path, "length prefix dropped", true
		}
		n := *v.Len + 1
		v.Len = &n
		return "vector-length@" + s.Path, "one more element", true
	case "array-shape":
		s, ok := pickSlot(func(s model.Slot) bool { return s.Get().Kind == model.KArray && !usedInCF(s) })
		if !ok {
			return "", "", false
		}
		a := s.Get()
		switch {
		case !a.HasDims:
			a.HasDims = true
			a.Dims = []model.Dim{{}, {}}
			return "array-shape@" + s.Path, "dynamic -> rank 2 (rank prefix dropped)", true
		case a.IsFixedArray():
			n := *a.Dims[0].Len + 1
			a.Dims[0].Len = &n
			return "array-shape@" + s.Path, "first dimension longer", true
		default:
			a.Dims = append(a.Dims, model.Dim{Name: func() string {
				if a.Dims[0].Name != "" {
					return "extraDim"
				}
				return ""
			}()})
			return "array-shape@" + s.Path, "rank + 1", true
		}
	case "union-order":
		s, ok := pickSlot(func(s model.Slot) bool {
			x := s.Get()
			return x.Kind == model.KUnion && len(x.Cases)-btoiC(x.HasNull()) >= 2 && !usedInCF(s)
		})
		if !ok {
			return "", "", false
		}
		u := s.Get()
		n := len(u.Cases)
		u.Cases[n-1], u.Cases[n-2] = u.Cases[n-2], u.Cases[n-1]
		u.Tags[n-1], u.Tags[n-2] = u.Tags[n-2], u.Tags[n-1]
		return "union-order@" + s.Path, "case indexes swapped", true
	case "enum-value", "enum-base", "enum-flags":
		c := reachDefs(model.DEnum, model.DFlags)
		if len(c) == 0 {
			return "", "", false
		}
		d := c[rapid.IntRange(0, len(c)-1).Draw(t, "enum")]
		d.ListValues = false
		for i := range d.Values {
			d.Values[i].Explicit = true
		}
		switch kind {
		case "enum-value":
			if len(d.Values) < 2 {
				return "", "", false
			}
			a, b := &d.Values[0], &d.Values[len(d.Values)-1]
			a.Value, b.Value = b.Value, a.Value
			a.UValue, b.UValue = b.UValue, a.UValue
			return "enum-value@" + d.Name, "integers of two symbols swapped", true
		case "enum-base":
			for _, v := range d.Values {
				if v.Value < 0 || v.Value > 100 || v.UValue > 100 {
					return "", "", false
				}
			}
			old := d.EffectiveBase()
			nb := "uint8"
			if encClass[old] == "u8" {
				nb = "int32"
			}
			d.Base = nb
			d.BaseRef = nil
			return "enum-base@" + d.Name, old + " -> " + nb + " (different encoding class)", true
		default:
			if d.Kind == model.DEnum {
				d.Kind = model.DFlags
			} else {
				d.Kind = model.DEnum
			}
			return "enum-flags@" + d.Name, "NDJSON form of every value changes (symbol vs array of symbols)", true
		}
	case "remove-step":
		var c []*model.Def
		for _, d := range p.Protocols() {
			if len(d.Fields) >= 2 {
				c = append(c, d)
			}
		}
		if len(c) == 0 {
			return "", "", false
		}
		d := c[rapid.IntRange(0, len(c)-1).Draw(t, "proto")]
		d.Fields = d.Fields[:len(d.Fields)-1]
		return "remove-step@" + d.Name, "one step fewer", true
	case "map-key":
		s, ok := pickSlot(func(s model.Slot) bool { return s.Get().Kind == model.KMap && !usedInCF(s) })
		if !ok {
			return "", "", false
		}
		m := s.Get()
		old := env.Underlying(m.Key).Prim
		nw := "string"
		if old == "string" {
			nw = "float64"
		}
		m.Key = model.Prim(nw)
		return "map-key@" + s.Path, old + " -> " + nw + " keys", true
	}
	return "", "", false
}

func btoiC(b bool) int {
	if b {
		return 1
	}
	return 0
}

// topOf returns the complete type of the field/step/alias a slot belongs to.
func topOf(s model.Slot) *model.Type {
	if s.Field >= 0 {
		return s.Def.Fields[s.Field].Type
	}
	return s.Def.Type
}

func genC04(t *rapid.T) (C04Case, bool) {
	cfg := model.DefaultGen()
	base := model.GenPackage(t, &cfg)
	c := C04Case{Base: base, Edited: base.DeepClone()}
	if rapid.Bool().Draw(t, "neutral") {
		c.Class = "neutral"
		kind := rapid.SampledFrom([]string{"comments", "computed", "unrelated", "permute-resplit"}).Draw(t, "neutralKind")
		c.Edit = kind
		p := c.Edited
		switch kind {
		case "comments":
			for _, q := range p.AllPackages() {
				// every documentation comment is independently set, changed or removed (a documented
				// element next to an undocumented one, in either nesting order)
				pick := func(label, text string) string {
					switch rapid.IntRange(0, 2).Draw(t, label) {
					case 0:
						return ""
					case 1:
						return text
					}
					return text + "\n(second line)"
				}
				for _, d := range q.Defs {
					d.Comment = pick("defComment", "new comment on "+d.Name)
					for i := range d.Fields {
						d.Fields[i].Comment = pick("fieldComment", "changed")
					}
					for i := range d.Values {
						d.Values[i].Comment = pick("symComment", "sym comment")
					}
					for i := range d.Computed {
						d.Computed[i].Comment = pick("cfComment", "computed comment")
					}
					model.DefTypes(d, func(ty *model.Type) {
						model.Walk(ty, func(x *model.Type) {
							if x.Kind == model.KArray && x.HasDims {
								for i := range x.Dims {
									x.Dims[i].Comment = pick("dimComment", "documented dimension")
								}
							}
						})
					})
				}
			}
		case "computed":
			for _, d := range p.Defs {
				if d.Kind == model.DRecord {
					if len(d.Computed) > 0 {
						d.Computed = nil
					} else {
						d.Computed = []model.Computed{{Name: "addedCf", Expr: "42"}, {Name: "addedCf2", Expr: d.Fields[0].Name}}
					}
				}
			}
		case "unrelated":
			p.Defs = append(p.Defs, &model.Def{Kind: model.DRecord, Name: "UnrelatedRec", Fields: []model.Field{{Name: "a", Type: model.Prim("int32")}}},
				&model.Def{Kind: model.DEnum, Name: "UnrelatedEnum", ListValues: true, Values: []model.EnumVal{{Symbol: "a"}}})
			// also something that *references* the protocol's types without being referenced by them
			for _, d := range p.Defs {
				if (d.Kind == model.DRecord || d.Kind == model.DEnum) && len(d.TypeParams) == 0 && d.Name != "UnrelatedRec" && d.Name != "UnrelatedEnum" {
					p.Defs = append(p.Defs, &model.Def{Kind: model.DAlias, Name: "UnrelatedUser", Type: model.Vector(model.Ref(p.Namespace, d.Name))})
					break
				}
			}
			p.Defs = append(p.Defs, &model.Def{Kind: model.DProtocol, Name: "UnrelatedProto", Fields: []model.Field{{Name: "x", Type: model.Ref(p.Namespace, "UnrelatedRec")}}})
		case "permute-resplit":
			n := len(p.Defs)
			c.Order = rapid.Permutation(seq(n)).Draw(t, "order")
			c.FileOf = make([]int, n)
			for i := range c.FileOf {
				c.FileOf[i] = rapid.IntRange(0, 2).Draw(t, "fileOf")
			}
		}
		return c, true
	}
	c.Class = "wire"
	for tries := 0; tries < 6; tries++ {
		if e, w, ok := wireEdit(t, c.Edited); ok {
			c.Edit, c.Witness = e, w
			return c, true
		}
	}
	return c, false
}

func schemasOf(p *model.Package, o model.EmitOptions) (map[string]map[string]string, string, error) {
	root := sut.TempDir("c04")
	defer os.RemoveAll(root)
	o.ExtraManifest = c04Outputs
	sut.WriteLayout(root, model.EmitLayout(p, o))
	r := sut.Yardl(filepath.Join(root, "main"), "generate")
	if r.Exit != 0 {
		return nil, sut.StripANSI(r.Combined()), fmt.Errorf("generate failed")
	}
	return schemaLiterals(sut.ReadTree(filepath.Join(root, "out"))), "", nil
}

func c04Known(c C04Case) string {
	if strings.HasPrefix(c.Edit, "enum-flags@") {
		return "C04-enum-flags-same-schema"
	}
	return ""
}

func checkC04(c C04Case) *Fail {
	rec := core.Rec("C04")
	sa, out, err := schemasOf(c.Base, model.EmitOptions{})
	if err != nil {
		return failf("c04-gen", "base model rejected (harness fault):\n%s", core.Trunc(out, 600))
	}
	ob := model.EmitOptions{}
	if c.Order != nil {
		ob.Order, ob.FileOf, ob.FileNames = c.Order, c.FileOf, model.DefaultFileNames(3)
	}
	sb, out, err := schemasOf(c.Edited, ob)
	if err != nil {
		rec.Class("edited-model-rejected")
		return nil // the edit produced an invalid model: not a schema question
	}
	env := model.NewEnv(c.Base)
	for _, proto := range c.Base.Protocols() {
		lit := sa["python"][proto.Name]
		// (d) same literal in every target
		for _, be := range []string{"cpp", "matlab"} {
			if sa[be][proto.Name] != lit {
				return failf("c04", "protocol %s: the %s schema literal differs from the Python one:\n--- python\n%s\n--- %s\n%s", proto.Name, be, core.Trunc(lit, 1200), be, core.Trunc(sa[be][proto.Name], 1200))
			}
		}
		// (a) content
		got, err := ref.ExtractSchema(lit)
		if err != nil {
			return failf("c04", "protocol %s: schema literal unusable: %v\n%s", proto.Name, err, core.Trunc(lit, 800))
		}
		want := ref.ExpectedSchema(env, proto)
		if got.String() != want.String() {
			return failf("c04", "protocol %s: schema content differs from the model:\n--- schema says\n%s\n--- model says\n%s\n--- literal\n%s\n%s", proto.Name, core.Trunc(got.String(), 1500), core.Trunc(want.String(), 1500), core.Trunc(lit, 800), modelText(c.Base))
		}
	}
	// (b)/(c)
	envB := model.NewEnv(c.Edited)
	for _, proto := range c.Base.Protocols() {
		pb := c.Edited.Find(proto.Name)
		if pb == nil {
			continue
		}
		la, lb := sa["python"][proto.Name], sb["python"][proto.Name]
		switch c.Class {
		case "neutral":
			if la != lb {
				return failf("c04", "neutral edit %q changed the schema of protocol %s:\n--- before\n%s\n--- after\n%s", c.Edit, proto.Name, core.Trunc(la, 1200), core.Trunc(lb, 1200))
			}
		case "wire":
			// only protocols whose content (per the IR) is touched by the edit
			if ref.ExpectedSchema(env, proto).String() == ref.ExpectedSchema(envB, pb).String() && !strings.HasPrefix(c.Edit, "enum-flags@") {
				continue
			}
			if strings.HasPrefix(c.Edit, "enum-flags@") {
				name := strings.TrimPrefix(c.Edit, "enum-flags@")
				if !envB.Reachable(pb)[c.Edited.Namespace+"."+name] && !reachableAnyNs(envB, pb, name) {
					continue
				}
			}
			if la == lb {
				f := failf("c04", "wire-affecting edit %s (%s) left the schema of protocol %s unchanged:\n%s\n--- edited model\n%s", c.Edit, c.Witness, proto.Name, core.Trunc(la, 1200), core.Trunc(modelText(c.Edited), 1500))
				f.KnownID = c04Known(c)
				return f
			}
			rec.Class("wire-edit-changes-schema")
		}
	}
	return nil
}

func reachableAnyNs(env *model.Env, proto *model.Def, name string) bool {
	for k := range env.Reachable(proto) {
		if strings.HasSuffix(k, "."+name) {
			return true
		}
	}
	return false
}

func init() {
	fn := func(raw json.RawMessage) *Fail {
		var c C04Case
		if err := json.Unmarshal(raw, &c); err != nil {
			return failf("c04", "bad replay: %v", err)
		}
		return checkC04(c)
	}
	registerReplay("c04", fn)
	registerReplay("c04-gen", fn)
}

func TestC04(t *testing.T) {
	rec := core.Rec("C04")
	rec.SetRule(c04Rule)
	rec.Assume("the header actually written by generated writers is compared with the literal by C01/C02 (binary header bytes, NDJSON header JSON)", "dimension names, explicit union tags and type parameter names are part of the schema content and may change it")
	replayKnown(t, "C04")
	rapid.Check(t, func(rt *rapid.T) {
		c, ok := genC04(rt)
		if !ok {
			rec.Class("inapplicable")
			return
		}
		rec.Eval()
		rec.Class("edit:" + strings.SplitN(c.Edit, "@", 2)[0])
		if !strings.Contains(c.Edit, "@Proto") {
			rec.Nontrivial(core.Hash(modelText(c.Base), modelText(c.Edited), c.Order, c.FileOf))
			rec.Sample(map[string]any{"class": c.Class, "edit": c.Edit, "witness": c.Witness, "model": core.Trunc(model.EmitPackage(c.Base, model.EmitOptions{}).Text(), 400)})
		}
		report(rt, rec, checkC04(c), c)
	})
}
