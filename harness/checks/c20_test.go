package checks

import (
	"encoding/json"
	"fmt"
	"os"
	"os/exec"
	"path/filepath"
	"strings"
	"syscall"
	"testing"
	"time"

	"pgregory.net/rapid"
	"verif/harness/core"
	"verif/harness/model"
	"verif/harness/sut"
)

// C20 — watch mode converges to the output for the final package contents.

type WatchEdit struct {
	File    string `json:"file"`    // relative to the package dir
	Content string `json:"content"` // new content ("" with Delete = remove the file)
	Delete  bool   `json:"delete,omitempty"`
	// RenameTo: rename File to this name inside the package directory
	RenameTo string `json:"rename_to,omitempty"`
	GapMs    int    `json:"gap_ms"` // pause after this edit
	Kind     string `json:"kind"`
}

type C20Case struct {
	Initial model.Files `json:"initial"` // files of the package dir at watcher start
	Edits   []WatchEdit `json:"edits"`
	Delays  string      `json:"delays"` // VERIF_WATCH_DELAYS for the watcher process
}

const c20Rule = "a package of 1-3 model files importing a sibling package, watched by `yardl generate --watch` (built with the verif tag) x a generated schedule of 2-7 saves (valid change, YAML syntax error, rule violation, file deleted / created / renamed to a name yardl does not read and back, touch without change, the imported package's manifest broken by an import that cannot be fetched / repaired, the python section removed from / restored in the watched package's own manifest while the watcher is idle, a valid change of the imported package's model; the last state valid, the last change a save - in the watched package or in the imported one -, a creation, a deletion or a rename) separated by gaps of 0-120 ms x per-regeneration delays of 0/60/350 ms injected at the hook inside generateImpl, so that an early regeneration can be made to outlast later ones. oracle: after the last save and quiescence (no output change for 1.2 s) the watcher is still running and the output tree equals that of a one-shot `yardl generate` of the final contents (when the final manifest has no python section: the python files are exactly those on disk when the section was removed, which a one-shot run would leave alone). non-trivial = a regeneration was delayed while later saves arrived (or regenerations overlapped in time per the hook log), or an invalid intermediate state occurred; distinct = hash of the schedule"

const c20Manifest = "namespace: Mdl\nimports:\n  - ../base\npython:\n  outputDir: ../out/py\njson:\n  outputDir: ../out/json\ncpp:\n  sourcesOutputDir: ../out/cpp\n  generateHDF5: false\n  generateCMakeLists: false\n"

// the same manifest without its python section (the target is switched off by removing it)
const c20ManifestNoPython = "namespace: Mdl\nimports:\n  - ../base\njson:\n  outputDir: ../out/json\ncpp:\n  sourcesOutputDir: ../out/cpp\n  generateHDF5: false\n  generateCMakeLists: false\n"

const c20BaseManifest = "namespace: Base\n"
const c20BaseManifestBroken = "namespace: Base\nimports:\n  - http://example.com/more-models\n" // cannot be fetched: unsupported scheme

func watchModel(variant int, extra int) string {
	var b strings.Builder
	fmt.Fprintf(&b, "Rec: !record\n  fields:\n    a: int\n    base: Base.BaseRec\n")
	for i := 0; i < variant; i++ {
		fmt.Fprintf(&b, "    f%d: string\n", i)
	}
	b.WriteString("Proto: !protocol\n  sequence:\n    r: Rec\n")
	for i := 0; i < extra; i++ {
		fmt.Fprintf(&b, "    s%d: !stream\n      items: float\n", i)
	}
	return b.String()
}

func genC20(t *rapid.T) C20Case {
	c := C20Case{Initial: model.Files{"_package.yml": c20Manifest, "a.yml": watchModel(0, 0), "b.yml": "Other: !record\n  fields:\n    x: int\n",
		"../base/_package.yml": c20BaseManifest, "../base/base.yml": "BaseRec: !record\n  fields:\n    v: int\n"}}
	baseBroken := false
	aInvalid := false // a.yml currently holds an invalid model
	n := rapid.IntRange(2, 7).Draw(t, "edits")
	hasB := true
	bAway := false // b.yml currently sits in the package directory as b.yml.disabled
	hasPy := true
	for i := 0; i < n; i++ {
		last := i == n-1
		kinds := []string{"valid", "valid", "valid", "syntax-error", "rule-violation", "delete-b", "create-b", "touch", "base-break", "base-fix"}
		if !last {
			// b.yml renamed to a name yardl does not read (as good as deleted) and back
			if hasB {
				kinds = append([]string{"rename-b-away"}, kinds...)
			} else if bAway {
				kinds = append([]string{"rename-b-back"}, kinds...)
			}
		}
		if !last && !baseBroken && !aInvalid {
			// the watched package's own manifest: the python section removed / put back (done while the
			// package is valid and the watcher idle, see runWatch)
			if hasPy {
				kinds = append([]string{"manifest-drop-python", "manifest-drop-python"}, kinds...)
			} else {
				kinds = append([]string{"manifest-restore-python"}, kinds...)
			}
		}
		if i == n-2 {
			// the imported package is whole again before the last save
			kinds = kinds[:len(kinds)-2]
			if baseBroken {
				kinds = []string{"base-fix"}
			}
		}
		if !last && i != n-2 {
			kinds = append(kinds, "base-model")
		}
		if last {
			// the final state must be valid: a save of a valid model (of the watched package or of the
			// package it imports), or b.yml (which nothing refers to) removed or created
			kinds = []string{"valid", "valid", "valid", "create-b", "base-model", "base-model"}
			if hasB {
				kinds = append(kinds, "delete-b", "rename-b-away")
			} else if bAway {
				kinds = append(kinds, "rename-b-back")
			}
			if aInvalid {
				kinds = []string{"valid"}
			}
		}
		k := rapid.SampledFrom(kinds).Draw(t, "editKind")
		e := WatchEdit{Kind: k, File: "a.yml", GapMs: rapid.SampledFrom([]int{0, 1, 3, 8, 20, 60, 120}).Draw(t, "gap")}
		switch k {
		case "syntax-error", "rule-violation":
			aInvalid = true
		case "valid":
			aInvalid = false
		}
		switch k {
		case "valid":
			e.Content = watchModel(rapid.IntRange(0, 6).Draw(t, "variant"), rapid.IntRange(0, 3).Draw(t, "extra"))
		case "syntax-error":
			e.Content = "Rec: !record\n  fields:\n    a: [int\n"
		case "rule-violation":
			e.Content = watchModel(1, 0) + "Bad: NoSuchType\n"
		case "delete-b":
			e.File, e.Delete = "b.yml", true
			hasB = false
		case "rename-b-away":
			e.File, e.RenameTo = "b.yml", "b.yml.disabled"
			hasB, bAway = false, true
		case "rename-b-back":
			e.File, e.RenameTo = "b.yml.disabled", "b.yml"
			hasB, bAway = true, false
		case "create-b":
			e.File, e.Content = "b.yml", fmt.Sprintf("Other: !record\n  fields:\n    x: int\n    y%d: int\n", i)
			hasB = true
		case "touch":
			e.Content = "" // resolved at run time: rewrite current content
		case "manifest-drop-python":
			e.File, e.Content = "_package.yml", c20ManifestNoPython
			hasPy = false
		case "manifest-restore-python":
			e.File, e.Content = "_package.yml", c20Manifest
			hasPy = true
		case "base-model":
			// a valid change in the imported package: its types are generated along with the watched package's
			e.File, e.Content = "../base/base.yml", fmt.Sprintf("BaseRec: !record\n  fields:\n    v: int\n    w%d: float\n", i)
		case "base-break":
			// the manifest of the imported package (outside the watched directory) names an import that
			// cannot be fetched; the next regeneration fails while loading it
			e.File, e.Content = "../base/_package.yml", c20BaseManifestBroken
			baseBroken = true
		case "base-fix":
			e.File, e.Content = "../base/_package.yml", c20BaseManifest
			baseBroken = false
		}
		if last {
			e.GapMs = 0
		}
		c.Edits = append(c.Edits, e)
	}
	_, _ = hasB, hasPy
	var ds []string
	for k := 1; k <= n+2; k++ {
		d := rapid.SampledFrom([]int{0, 0, 60, 350}).Draw(t, "delay")
		if d > 0 {
			ds = append(ds, fmt.Sprintf("%d:%d", k, d))
		}
	}
	c.Delays = strings.Join(ds, ",")
	return c
}

// runWatch executes the schedule once; returns a failure description or "".
func runWatch(c C20Case) (string, bool, bool) {
	root := sut.TempDir("c20")
	defer os.RemoveAll(root)
	pkg := filepath.Join(root, "pkg")
	sut.WriteFiles(pkg, c.Initial)
	home := filepath.Join(root, "home")
	os.MkdirAll(home, 0o755)
	logPath := filepath.Join(root, "hook.log")
	cmd := exec.Command(sut.YardlBin(), "generate", "--watch")
	cmd.Dir = pkg
	cmd.Env = append(os.Environ(), "HOME="+home, "NO_COLOR=1", "VERIF_WATCH_DELAYS="+c.Delays, "VERIF_WATCH_LOG="+logPath, "TERM=dumb")
	outFile, _ := os.Create(filepath.Join(root, "watch.out"))
	cmd.Stdout, cmd.Stderr = outFile, outFile
	cmd.SysProcAttr = &syscall.SysProcAttr{Setpgid: true}
	if err := cmd.Start(); err != nil {
		return "cannot start watcher: " + err.Error(), false, false
	}
	exited := make(chan error, 1)
	go func() { exited <- cmd.Wait() }()
	defer func() {
		syscall.Kill(-cmd.Process.Pid, syscall.SIGKILL)
		outFile.Close()
	}()
	outDir := filepath.Join(root, "out")
	// wait for the initial generation
	deadline := time.Now().Add(10 * time.Second)
	for time.Now().Before(deadline) {
		if _, err := os.Stat(filepath.Join(outDir, "json", "model.json")); err == nil {
			break
		}
		time.Sleep(20 * time.Millisecond)
	}
	current := map[string]string{}
	for n, s := range c.Initial {
		current[n] = s
	}
	invalid := false
	// quiesce waits until the output has not changed for 1.2 s and no regeneration is in flight
	// (hook log balanced), at most 20 s
	quiesce := func() {
		var last sut.Snapshot
		stableSince := time.Now()
		deadline := time.Now().Add(20 * time.Second)
		for time.Now().Before(deadline) {
			time.Sleep(150 * time.Millisecond)
			s := sut.Snap(outDir, true)
			logTxt, _ := os.ReadFile(logPath)
			balanced := strings.Count(string(logTxt), "start ") == strings.Count(string(logTxt), "end ")
			if last != nil && len(last.Diff(s)) == 0 && balanced {
				if time.Since(stableSince) > 1200*time.Millisecond {
					return
				}
			} else {
				stableSince = time.Now()
			}
			last = s
		}
	}
	// frozenPy: the python output as it was when the python section had been removed from the
	// manifest and the watcher had settled; a one-shot generate of any later state of the package
	// does not touch it, so neither may the watcher
	var frozenPy map[string]string
	for _, e := range c.Edits {
		p := filepath.Join(pkg, e.File)
		if strings.HasPrefix(e.Kind, "manifest-") {
			quiesce()
			os.WriteFile(p, []byte(e.Content), 0o644)
			current[e.File] = e.Content
			quiesce()
			frozenPy = nil
			if e.Kind == "manifest-drop-python" {
				frozenPy = map[string]string{}
				for f, txt := range sut.ReadTree(outDir) {
					if strings.HasPrefix(f, "py/") {
						frozenPy[f] = txt
					}
				}
			}
			time.Sleep(time.Duration(e.GapMs) * time.Millisecond)
			continue
		}
		switch {
		case e.RenameTo != "":
			os.Rename(p, filepath.Join(pkg, e.RenameTo))
			if txt, ok := current[e.File]; ok {
				current[e.RenameTo] = txt
				delete(current, e.File)
			}
		case e.Delete:
			os.Remove(p)
			delete(current, e.File)
		case e.Kind == "touch":
			os.WriteFile(p, []byte(current[e.File]), 0o644)
		default:
			os.WriteFile(p, []byte(e.Content), 0o644)
			current[e.File] = e.Content
		}
		if e.Kind == "syntax-error" || e.Kind == "rule-violation" {
			invalid = true
		}
		time.Sleep(time.Duration(e.GapMs) * time.Millisecond)
	}
	// quiescence: output unchanged for 1.2 s and no regeneration in flight (hook log balanced)
	quiesce()
	select {
	case err := <-exited:
		out, _ := os.ReadFile(filepath.Join(root, "watch.out"))
		return fmt.Sprintf("the watcher exited during the schedule (%v):\n%s", err, core.Trunc(sut.StripANSI(string(out)), 1500)), false, invalid
	default:
	}
	// overlap observed?
	overlap := false
	logTxt, _ := os.ReadFile(logPath)
	open := 0
	for _, l := range strings.Split(string(logTxt), "\n") {
		if strings.HasPrefix(l, "start") {
			open++
			if open >= 2 {
				overlap = true
			}
		} else if strings.HasPrefix(l, "end") {
			open--
		}
	}
	// one-shot generation of the final contents
	ref := filepath.Join(root, "ref")
	sut.WriteFiles(filepath.Join(ref, "pkg"), current)
	r := sut.Yardl(filepath.Join(ref, "pkg"), "generate")
	if r.Exit != 0 {
		return "harness fault: final contents do not generate: " + core.Trunc(r.Combined(), 400), overlap, invalid
	}
	want := sut.ReadTree(filepath.Join(ref, "out"))
	got := sut.ReadTree(outDir)
	var diffs []string
	if frozenPy != nil {
		// the final manifest has no python section: the one-shot run writes no python files, and the
		// python files on disk must be the ones that were there when the section was removed
		for f, g := range got {
			if strings.HasPrefix(f, "py/") {
				if w, ok := frozenPy[f]; !ok {
					diffs = append(diffs, "written after the python section was removed: "+f)
				} else if w != g {
					diffs = append(diffs, "rewritten after the python section was removed: "+f+": "+firstDiff(w, g))
				}
				delete(got, f)
			}
		}
	}
	for p, w := range want {
		if g, ok := got[p]; !ok {
			diffs = append(diffs, "missing "+p)
		} else if g != w {
			diffs = append(diffs, "differs "+p+": "+firstDiff(w, g))
		}
	}
	for p := range got {
		if _, ok := want[p]; !ok {
			diffs = append(diffs, "stale "+p)
		}
	}
	if len(diffs) > 0 {
		if len(diffs) > 6 {
			diffs = append(diffs[:6], fmt.Sprintf("... %d more", len(diffs)-6))
		}
		return "output of the watcher differs from a one-shot generate of the final contents:\n  " + strings.Join(diffs, "\n  ") + "\nhook log:\n" + core.Trunc(string(logTxt), 600), overlap, invalid
	}
	return "", overlap, invalid
}

func checkC20(c C20Case) *Fail {
	rec := core.Rec("C20")
	msg, overlap, invalid := runWatch(c)
	if overlap {
		rec.Class("regenerations-overlapped")
	}
	if invalid {
		rec.Class("invalid-intermediate-state")
	}
	if c.Delays != "" && len(c.Edits) >= 2 {
		rec.Class("delayed-regeneration-with-later-saves")
	}
	if overlap || invalid || (c.Delays != "" && len(c.Edits) >= 2) {
		rec.Nontrivial(core.Hash(c))
	}
	if msg == "" {
		return nil
	}
	// timing outside the hook is real time: report only what reproduces
	repro := 0
	for i := 0; i < 3; i++ {
		if m, _, _ := runWatch(c); m != "" {
			repro++
		}
	}
	if repro == 0 {
		rec.Class("flaky-not-reproduced")
		rec.Note("not reproduced in 3 re-runs: " + core.Trunc(msg, 300))
		return nil
	}
	return failf("c20", "%s\n(reproduced in %d of 3 re-runs)\nschedule: %s\ndelays: %s", msg, repro, scheduleStr(c), c.Delays)
}

func scheduleStr(c C20Case) string {
	var parts []string
	for _, e := range c.Edits {
		parts = append(parts, fmt.Sprintf("%s(%s)+%dms", e.Kind, e.File, e.GapMs))
	}
	return strings.Join(parts, " ")
}

func init() {
	registerReplay("c20", func(raw json.RawMessage) *Fail {
		var c C20Case
		if err := json.Unmarshal(raw, &c); err != nil {
			return failf("c20", "bad replay: %v", err)
		}
		return checkC20(c)
	})
}

func TestC20(t *testing.T) {
	rec := core.Rec("C20")
	rec.SetRule(c20Rule)
	rec.Assume("timing outside the delay hook is real time: a failure is reported only if it reproduces from its schedule (at least 1 of 3 re-runs), otherwise it is logged as flaky", "this technique cannot show the absence of a race; it forces the interleaving the property names (a slow regeneration overtaken by a fast one)")
	replayKnown(t, "C20")
	rapid.Check(t, func(rt *rapid.T) {
		c := genC20(rt)
		rec.Eval()
		rec.Sample(map[string]any{"schedule": scheduleStr(c), "delays": c.Delays})
		report(rt, rec, checkC20(c), c)
	})
}
