package checks

import (
	"encoding/json"
	"errors"
	"fmt"
	"math"
	"math/big"
	"os"
	"path/filepath"
	"regexp"
	"strconv"
	"strings"
	"sync"
	"testing"

	"pgregory.net/rapid"
	"verif/harness/core"
	"verif/harness/model"
	"verif/harness/ref"
	"verif/harness/sut"
	"verif/harness/value"
)

// C19 — computed fields mean the same thing in every target language.

var c19Fields = []struct{ name, prim string }{
	{"i8", "int8"}, {"u8", "uint8"}, {"i16", "int16"}, {"u16", "uint16"}, {"i32", "int32"}, {"u32", "uint32"}, {"i64", "int64"}, {"u64", "uint64"},
	{"sz", "size"}, {"f32", "float32"}, {"f64", "float64"},
}

// union fields of the record, for !switch computed fields whose cases have different integer types
type c19Union struct {
	name  string
	prims [2]string
}

var c19Unions = []c19Union{{"us", [2]string{"int16", "uint16"}}, {"ul", [2]string{"int32", "uint32"}}, {"um", [2]string{"int16", "int32"}}, {"uq", [2]string{"uint8", "int64"}}}

// C19Sw: which case a union field holds, and the value.
type C19Sw struct {
	Case int   `json:"case"`
	Val  int64 `json:"val"`
}

type C19Case struct {
	Exprs  []*ref.Expr2     `json:"exprs"`
	Values map[string]int64 `json:"values"` // field -> numerator; floats are value/4
	Vec    []int64          `json:"vec"`
	A16    []int64          `json:"a16,omitempty"` // elements of the int16 array field (3)
	AU8    []int64          `json:"au8,omitempty"` // elements of the uint8 array field (3)
	Sw     map[string]C19Sw `json:"sw,omitempty"`  // union field -> held case and value
	X      *C19Extra        `json:"x,omitempty"`   // structured fields (arrays with several dimensions, map, nested record, optional, nullable union)
}

// C19Extra: the values of the structured fields of the record.
//
//	g:   int32[x:2, y:3]      G, row-major
//	d:   int16[p, q]          DShape, D
//	dd:  int32[]              DDShape (1-3 dimensions), elements 0..n-1
//	m:   string->int32        MLen entries
//	sub: Sub {a: int32, b: Inner {c: int16}, w: int32*}
//	o:   int32?               OSet, O
//	un:  [null, int32, Sub]   UnCase (0 null, 1 int32 = UnVal, 2 Sub = a copy of sub)
type C19Extra struct {
	G       []int64 `json:"g"`
	DShape  [2]int  `json:"dshape"`
	D       []int64 `json:"d"`
	DDShape []int   `json:"ddshape"`
	MLen    int     `json:"mlen"`
	SubA    int64   `json:"sub_a"`
	SubC    int64   `json:"sub_c"`
	SubW    []int64 `json:"sub_w"`
	OSet    bool    `json:"oset"`
	O       int64   `json:"o"`
	UnCase  int     `json:"uncase"`
	UnVal   int64   `json:"unval"`
	// t: int32[y, x] (TShape, elements 0..n-1): same element type as g, dimension names in the
	// other order; ax / ax2: string fields holding a dimension name of g and t / of d
	TShape [2]int `json:"tshape,omitempty"`
	Ax     string `json:"ax,omitempty"`
	Ax2    string `json:"ax2,omitempty"`
}

func (x *C19Extra) norm() *C19Extra {
	if x.Ax == "" {
		y := *x
		y.TShape, y.Ax, y.Ax2 = [2]int{1, 1}, "x", "p"
		return &y
	}
	return x
}

func (c C19Case) extra() *C19Extra {
	if c.X != nil {
		return c.X.norm()
	}
	// replay files written before the structured fields existed
	return (&C19Extra{G: []int64{1, 2, 3, 4, 5, 6}, DShape: [2]int{1, 1}, D: []int64{1}, DDShape: []int{1}, MLen: 1, SubA: 1, SubC: 1, SubW: []int64{1}}).norm()
}

type c19Atom struct {
	text, prim string
	val        int64
}

// atoms lists every structured operand the generator may use for this record value, with its
// static element type and its value. Subscripts are only listed inside the array's bounds.
func (x *C19Extra) atoms() []c19Atom {
	var out []c19Atom
	add := func(prim string, val int64, format string, a ...any) {
		out = append(out, c19Atom{fmt.Sprintf(format, a...), prim, val})
	}
	for i := 0; i < 2; i++ {
		for j := 0; j < 3; j++ {
			v := x.G[i*3+j]
			add("int32", v, "g[%d, %d]", i, j)
			add("int32", v, "g[x:%d, y:%d]", i, j)
			add("int32", v, "g[y:%d, x:%d]", j, i)
		}
	}
	add("size", 6, "size(g)")
	add("size", 2, "size(g, 0)")
	add("size", 3, "size(g, 1)")
	add("size", 2, "size(g, 'x')")
	add("size", 3, "size(g, 'y')")
	add("size", 2, "dimensionCount(g)")
	add("size", 0, "dimensionIndex(g, 'x')")
	add("size", 1, "dimensionIndex(g, 'y')")
	P, Q := x.DShape[0], x.DShape[1]
	for i := 0; i < P; i++ {
		for j := 0; j < Q; j++ {
			v := x.D[i*Q+j]
			add("int16", v, "d[%d, %d]", i, j)
			add("int16", v, "d[p:%d, q:%d]", i, j)
			add("int16", v, "d[q:%d, p:%d]", j, i)
		}
	}
	add("size", int64(P*Q), "size(d)")
	add("size", int64(P), "size(d, 0)")
	add("size", int64(Q), "size(d, 1)")
	add("size", int64(P), "size(d, 'p')")
	add("size", int64(Q), "size(d, 'q')")
	add("size", int64(Q), "size(d, dimensionIndex(d, 'q'))")
	add("size", 2, "dimensionCount(d)")
	add("size", 1, "dimensionIndex(d, 'q')")
	n := int64(1)
	for _, k := range x.DDShape {
		n *= int64(k)
	}
	add("size", n, "size(dd)")
	add("size", int64(len(x.DDShape)), "dimensionCount(dd)")
	add("size", int64(x.DDShape[0]), "size(dd, 0)")
	add("size", int64(x.DDShape[len(x.DDShape)-1]), "size(dd, %d)", len(x.DDShape)-1)
	// dimension names given by a string field (resolved when the field is evaluated, not by yardl)
	idx := map[string]int64{"x": 0, "y": 1, "p": 0, "q": 1}
	add("size", []int64{2, 3}[idx[x.Ax]], "size(g, ax)")
	add("size", idx[x.Ax], "dimensionIndex(g, ax)")
	add("size", int64(x.TShape[1-idx[x.Ax]]), "size(t, ax)")
	add("size", 1-idx[x.Ax], "dimensionIndex(t, ax)")
	add("size", int64(x.TShape[0]), "size(t, 'y')")
	add("size", int64(x.TShape[1]), "size(t, 1)")
	add("size", int64(x.DShape[idx[x.Ax2]]), "size(d, ax2)")
	add("size", idx[x.Ax2], "dimensionIndex(d, ax2)")
	for i := 0; i < x.TShape[0]; i++ {
		for j := 0; j < x.TShape[1]; j++ {
			add("int32", int64(i*x.TShape[1]+j), "t[x:%d, y:%d]", j, i)
		}
	}
	add("size", int64(x.MLen), "size(m)")
	add("int32", x.SubA, "sub.a")
	add("int16", x.SubC, "sub.b.c")
	add("size", int64(len(x.SubW)), "size(sub.w)")
	for k, v := range x.SubW {
		add("int32", v, "sub.w[%d]", k)
	}
	return out
}

// c19Switch2: the !switch computed fields over the optional field `o` and the nullable union `un`.
var c19Switch2 = map[string][]model.SwitchCase{
	"o A":  {{Pattern: "int32 x", Expr: "x * 2 + 1"}, {Pattern: "_", Expr: "-3"}},
	"o B":  {{Pattern: "null", Expr: "-3"}, {Pattern: "int32 x", Expr: "x * 2 + 1"}},
	"un A": {{Pattern: "int32 x", Expr: "x"}, {Pattern: "Sub s", Expr: "s.a + s.b.c"}, {Pattern: "_", Expr: "7"}},
	"un B": {{Pattern: "Sub s", Expr: "s.a + s.b.c"}, {Pattern: "null", Expr: "7"}, {Pattern: "int32 x", Expr: "x"}},
}

// addExtraValues puts the values of the structured operands and of the switch2 variants into the
// evaluator's environment.
func (c C19Case) addExtraValues(m map[string]*big.Rat) {
	x := c.extra()
	for _, a := range x.atoms() {
		m["@"+a.text] = big.NewRat(a.val, 1)
	}
	o := int64(-3)
	if x.OSet {
		o = x.O*2 + 1
	}
	m["#o:A"], m["#o:B"] = big.NewRat(o, 1), big.NewRat(o, 1)
	u := int64(7)
	switch x.UnCase {
	case 1:
		u = x.UnVal
	case 2:
		u = x.SubA + x.SubC
	}
	m["#un:A"], m["#un:B"] = big.NewRat(u, 1), big.NewRat(u, 1)
}

func (c C19Case) sw(name string) C19Sw {
	if v, ok := c.Sw[name]; ok {
		return v
	}
	return C19Sw{Case: 0, Val: 1}
}

// addUnionValues puts the value held by each union field into the evaluator's environment.
func (c C19Case) addUnionValues(m map[string]*big.Rat) {
	for _, u := range c19Unions {
		m["#"+u.name] = big.NewRat(c.sw(u.name).Val, 1)
	}
}

func (c C19Case) arrays() (a16, au8 []int64) {
	a16, au8 = c.A16, c.AU8
	if len(a16) != 3 {
		a16 = []int64{1, 2, 3} // replay files written before the array fields existed
	}
	if len(au8) != 3 {
		au8 = []int64{1, 2, 3}
	}
	return
}

func (c C19Case) vecMap(vec []*big.Rat) map[string][]*big.Rat {
	a16, au8 := c.arrays()
	m := map[string][]*big.Rat{"v": vec}
	for _, x := range a16 {
		m["a16"] = append(m["a16"], big.NewRat(x, 1))
	}
	for _, x := range au8 {
		m["au8"] = append(m["au8"], big.NewRat(x, 1))
	}
	return m
}

const c19Rule = "static part (exhaustive, shard 0): every ordered pair of the 11 numeric primitives x {+,-,*,/,**} as a computed field `a op b`: yardl gives a verdict for each; verdict and declared result type are the same for (A op B) and (B op A); the declared C++ return type and the Python annotation agree; ** yields float64. dynamic part: 6-10 generated well-typed expressions per case plus two association probes `A op1 (B op2 C)` / `(A op1 B) op2 C` at equal precedence one probe `a[i] op a[j]` on elements of an int16 or uint8 array, and one `!switch` over a union of two integer types of different signedness/width whose cases return their variable (cases in either order) (depth <= 3; field access, integer and real literals, + - * / **, unary minus, casts, vector indexing, size(); explicit parentheses in every association pattern), and structured operands - subscripts of a fixed int32[x:2, y:3] and a dynamic-size int16[p, q] array given positionally, by dimension name and by name in reverse order, size(array), size(array, index), size(array, 'name'), dimensionIndex, dimensionCount (also on an array with a dynamic number of dimensions), size / dimensionIndex with the dimension name taken from a string field (on three arrays of which two share the element type and have their named dimensions in opposite order), size(map), member access through two nested records, elements and size of a vector inside a nested record - used on their own, in `A op B` probes and inside the generated expressions, plus one `!switch` over an optional or a [null, int32, record] union (cases in either order, null written as `null` or as the `_` default) - over a record with one field per numeric primitive and those structured fields, evaluated on generated in-range operand values by the generated C++ and Python code; oracle: both equal the exact (rational) value of the expression whenever that value is defined by the documents and fits the declared type (integers exactly; reals within 1e-6 relative for float32 results, 1e-12 for float64; ** within 1e-9); an integer division with a non-integral quotient is judged too: against the common result when flooring and truncating agree, else C++ against Python. non-trivial = an expression with a right-nested group at equal precedence, mixed signedness/width, or a division; distinct = expression text + values"

func c19Model(exprs []string) *model.Package {
	rec := &model.Def{Kind: model.DRecord, Name: "Rec"}
	for _, f := range c19Fields {
		rec.Fields = append(rec.Fields, model.Field{Name: f.name, Type: model.Prim(f.prim)})
	}
	rec.Fields = append(rec.Fields, model.Field{Name: "v", Type: model.Vector(model.Prim("int32"))})
	// arrays: their elements are fixed-width scalars in every target (numpy scalars in Python)
	rec.Fields = append(rec.Fields, model.Field{Name: "a16", Type: &model.Type{Kind: model.KArray, Elem: model.Prim("int16"), HasDims: true, Dims: []model.Dim{{Name: "n"}}}})
	rec.Fields = append(rec.Fields, model.Field{Name: "au8", Type: &model.Type{Kind: model.KArray, Elem: model.Prim("uint8"), HasDims: true, Dims: []model.Dim{{Name: "n"}}}})
	for _, u := range c19Unions {
		rec.Fields = append(rec.Fields, model.Field{Name: u.name, Type: &model.Type{Kind: model.KUnion, Cases: []*model.Type{model.Prim(u.prims[0]), model.Prim(u.prims[1])}, Tags: []string{u.prims[0], u.prims[1]}}})
	}
	two, three := uint64(2), uint64(3)
	inner := &model.Def{Kind: model.DRecord, Name: "Inner", Fields: []model.Field{{Name: "c", Type: model.Prim("int16")}}}
	sub := &model.Def{Kind: model.DRecord, Name: "Sub", Fields: []model.Field{{Name: "a", Type: model.Prim("int32")}, {Name: "b", Type: model.Ref("Mdl", "Inner")}, {Name: "w", Type: model.Vector(model.Prim("int32"))}}}
	rec.Fields = append(rec.Fields,
		model.Field{Name: "g", Type: &model.Type{Kind: model.KArray, Elem: model.Prim("int32"), HasDims: true, Dims: []model.Dim{{Name: "x", Len: &two}, {Name: "y", Len: &three}}}},
		model.Field{Name: "d", Type: &model.Type{Kind: model.KArray, Elem: model.Prim("int16"), HasDims: true, Dims: []model.Dim{{Name: "p"}, {Name: "q"}}}},
		model.Field{Name: "dd", Type: &model.Type{Kind: model.KArray, Elem: model.Prim("int32")}},
		model.Field{Name: "m", Type: model.Map(model.Prim("string"), model.Prim("int32"))},
		model.Field{Name: "sub", Type: model.Ref("Mdl", "Sub")},
		model.Field{Name: "o", Type: model.Optional(model.Prim("int32"))},
		model.Field{Name: "un", Type: &model.Type{Kind: model.KUnion, Cases: []*model.Type{nil, model.Prim("int32"), model.Ref("Mdl", "Sub")}, Tags: []string{"null", "int32", "Sub"}}},
		model.Field{Name: "t", Type: &model.Type{Kind: model.KArray, Elem: model.Prim("int32"), HasDims: true, Dims: []model.Dim{{Name: "y"}, {Name: "x"}}}},
		model.Field{Name: "ax", Type: model.Prim("string")},
		model.Field{Name: "ax2", Type: model.Prim("string")},
	)
	for i, e := range exprs {
		if strings.HasPrefix(e, "!switch2 ") {
			key := strings.TrimPrefix(e, "!switch2 ")
			rec.Computed = append(rec.Computed, model.Computed{Name: fmt.Sprintf("c%d", i), Switch: &model.SwitchExpr{Target: strings.Fields(key)[0], Cases: c19Switch2[key]}})
			continue
		}
		if strings.HasPrefix(e, "!switch ") {
			// "!switch <union field> <case order>": every case returns its variable
			f := strings.Fields(e)
			var u c19Union
			for _, x := range c19Unions {
				if x.name == f[1] {
					u = x
				}
			}
			sw := &model.SwitchExpr{Target: u.name}
			for _, ch := range f[2] {
				k := int(ch - '0')
				sw.Cases = append(sw.Cases, model.SwitchCase{Pattern: fmt.Sprintf("%s x%d", u.prims[k], k), Expr: fmt.Sprintf("x%d", k)})
			}
			rec.Computed = append(rec.Computed, model.Computed{Name: fmt.Sprintf("c%d", i), Switch: sw})
			continue
		}
		rec.Computed = append(rec.Computed, model.Computed{Name: fmt.Sprintf("c%d", i), Expr: e})
	}
	proto := &model.Def{Kind: model.DProtocol, Name: "Proto0", Fields: []model.Field{{Name: "r", Type: model.Ref("Mdl", "Rec")}}}
	return &model.Package{Namespace: "Mdl", DirName: "main", NumFiles: 1, Defs: []*model.Def{inner, sub, rec, proto}}
}

var (
	cppCfRe = regexp.MustCompile(`(?m)^  ([\w:]+) C(\d+)\(\) const \{`)
	pyCfRe  = regexp.MustCompile(`(?m)^    def c(\d+)\(self\) -> ([\w.]+):`)
)

// ---- static table -----------------------------------------------------------------------

func c19StaticTable(t *testing.T, rec *core.Recorder) {
	ops := []string{"+", "-", "*", "/", "**"}
	type key struct{ a, b, op string }
	verdict := map[key]bool{}
	var mu sync.Mutex
	var wg sync.WaitGroup
	sem := make(chan struct{}, 12)
	for _, a := range c19Fields {
		for _, b := range c19Fields {
			for _, op := range ops {
				wg.Add(1)
				go func(a, b, op string) {
					defer wg.Done()
					sem <- struct{}{}
					defer func() { <-sem }()
					p := c19Model([]string{a + " " + op + " " + b})
					ok := false
					withTempLayout("c19s", model.EmitLayout(p, model.EmitOptions{}), func(root string) {
						r := sut.Yardl(filepath.Join(root, "main"), "validate")
						if sut.HasPanic(r.Combined()) {
							mu.Lock()
							t.Errorf("%s", rec.Violate("c19-static", map[string]string{"expr": a + " " + op + " " + b}, "yardl aborted on `%s %s %s`", a, op, b))
							mu.Unlock()
						}
						ok = r.Exit == 0
					})
					mu.Lock()
					verdict[key{a, b, op}] = ok
					mu.Unlock()
				}(a.name, b.name, op)
			}
		}
	}
	wg.Wait()
	// all accepted pairs in one model -> declared types
	var exprs []string
	var keys []key
	for _, a := range c19Fields {
		for _, b := range c19Fields {
			for _, op := range ops {
				k := key{a.name, b.name, op}
				rec.EvalN(1)
				if verdict[k] != verdict[key{b.name, a.name, op}] {
					t.Errorf("%s", rec.Violate("c19-static", k, "`%s %s %s` accepted=%v but `%s %s %s` accepted=%v", a.name, op, b.name, verdict[k], b.name, op, a.name, verdict[key{b.name, a.name, op}]))
				}
				if verdict[k] {
					exprs = append(exprs, a.name+" "+op+" "+b.name)
					keys = append(keys, k)
					rec.Class("pair-accepted")
				} else {
					rec.Class("pair-rejected")
				}
			}
		}
	}
	p := c19Model(exprs)
	b, err := sut.Generate(p, sut.BuildOpts{Python: true, Cpp: true})
	if b != nil {
		defer b.Cleanup()
	}
	if err != nil {
		t.Errorf("%s", rec.Violate("c19-static", exprs, "a model made of individually accepted computed fields is rejected: %v", err))
		return
	}
	hdr, _ := os.ReadFile(filepath.Join(b.CppDir, "types.h"))
	py, _ := os.ReadFile(filepath.Join(b.PyDir, b.PyPkg, "types.py"))
	cppT := map[int]string{}
	for _, m := range cppCfRe.FindAllStringSubmatch(string(hdr), -1) {
		i, _ := strconv.Atoi(m[2])
		cppT[i] = ref.CppTypeToPrim(m[1])
	}
	pyT := map[int]string{}
	for _, m := range pyCfRe.FindAllStringSubmatch(string(py), -1) {
		i, _ := strconv.Atoi(m[1])
		pyT[i] = ref.PyAnnotationToPrim(m[2])
	}
	typeOf := map[key]string{}
	for i, k := range keys {
		ct, pt := cppT[i], pyT[i]
		if ct == "" || pt == "" {
			rec.Class("declared-type-not-parsed")
			continue
		}
		if ct != pt {
			t.Errorf("%s", rec.Violate("c19-static", k, "`%s %s %s`: C++ declares %s, Python declares %s", k.a, k.op, k.b, ct, pt))
		}
		if k.op == "**" && ct != "float64" {
			if (k.a == "f32" || k.b == "f32") && ct == "float32" && core.Open("C19-pow-float32") {
				rec.Known("C19-pow-float32", knownWhat("C19-pow-float32"))
			} else {
				t.Errorf("%s", rec.Violate("c19-static", k, "`%s ** %s` is declared %s, the documentation says ** yields float64", k.a, k.b, ct))
			}
		}
		typeOf[k] = ct
		rec.Nontrivial(core.Hash("static", k))
	}
	for k, ty := range typeOf {
		if o, ok := typeOf[key{k.b, k.a, k.op}]; ok && o != ty {
			t.Errorf("%s", rec.Violate("c19-static", k, "`%s %s %s` is %s but `%s %s %s` is %s", k.a, k.op, k.b, ty, k.b, k.op, k.a, o))
		}
	}
	rec.Class("static-table-complete")
}

// ---- dynamic part -----------------------------------------------------------------------

func genExpr2(t *rapid.T, depth int, atoms []c19Atom) *ref.Expr2 {
	k := rapid.IntRange(0, 11).Draw(t, "ek")
	if depth <= 0 {
		k = k % 4
	}
	switch k {
	case 0, 1:
		f := c19Fields[rapid.IntRange(0, len(c19Fields)-1).Draw(t, "fld")]
		return &ref.Expr2{Kind: "field", Name: f.name, Prim: f.prim}
	case 2:
		return &ref.Expr2{Kind: "int", Lit: strconv.Itoa(rapid.IntRange(0, 9).Draw(t, "ilit"))}
	case 3:
		if len(atoms) > 0 && rapid.IntRange(0, 2).Draw(t, "structured") == 0 {
			a := atoms[rapid.IntRange(0, len(atoms)-1).Draw(t, "atom")]
			e := &ref.Expr2{Kind: "atom", Lit: a.text, Prim: a.prim}
			if a.prim == "size" && rapid.Bool().Draw(t, "atomCast") {
				// sizes are unsigned 64-bit: half of the time brought into signed arithmetic
				return &ref.Expr2{Kind: "cast", Name: "int32", L: e}
			}
			return e
		}
		if rapid.Bool().Draw(t, "fl") {
			return &ref.Expr2{Kind: "float", Lit: rapid.SampledFrom([]string{"0.5", "2.0", "1.25", "3.0", "0.25"}).Draw(t, "flit")}
		}
		if rapid.Bool().Draw(t, "sz") {
			return &ref.Expr2{Kind: "cast", Name: "int32", L: &ref.Expr2{Kind: "size", Name: "v"}}
		}
		switch rapid.IntRange(0, 3).Draw(t, "idxOf") {
		case 0:
			return &ref.Expr2{Kind: "index", Name: "a16", Prim: "int16", Index: rapid.IntRange(0, 2).Draw(t, "idxA")}
		case 1:
			return &ref.Expr2{Kind: "index", Name: "au8", Prim: "uint8", Index: rapid.IntRange(0, 2).Draw(t, "idxB")}
		}
		return &ref.Expr2{Kind: "index", Name: "v", Prim: "int32", Index: rapid.IntRange(0, 2).Draw(t, "idx")}
	case 4:
		return &ref.Expr2{Kind: "neg", L: genExpr2(t, depth-1, atoms)}
	case 5:
		to := rapid.SampledFrom([]string{"int32", "int64", "float64", "float32", "uint8", "int8", "uint32", "uint64", "int16"}).Draw(t, "castTo")
		return &ref.Expr2{Kind: "cast", Name: to, L: genExpr2(t, depth-1, atoms)}
	default:
		op := rapid.SampledFrom([]string{"+", "-", "*", "/", "-", "/", "**"}).Draw(t, "op")
		l, r := genExpr2(t, depth-1, atoms), genExpr2(t, depth-1, atoms)
		if ref.NeedsParen(op, l, false) || (l.Kind == "bin" && rapid.IntRange(0, 3).Draw(t, "extraParenL") == 0) {
			l = &ref.Expr2{Kind: "paren", L: l}
		}
		if ref.NeedsParen(op, r, true) || (r.Kind == "bin" && rapid.IntRange(0, 3).Draw(t, "extraParenR") == 0) {
			r = &ref.Expr2{Kind: "paren", L: r}
		}
		if l.Kind == "neg" || l.Kind == "cast" {
			l = &ref.Expr2{Kind: "paren", L: l}
		}
		if r.Kind == "neg" || r.Kind == "cast" {
			r = &ref.Expr2{Kind: "paren", L: r}
		}
		return &ref.Expr2{Kind: "bin", Op: op, L: l, R: r}
	}
}

func genC19(t *rapid.T) C19Case {
	c := C19Case{Values: map[string]int64{}}
	for _, f := range c19Fields {
		var v int64
		switch {
		case f.prim == "float32" || f.prim == "float64":
			v = int64(rapid.IntRange(-400, 400).Draw(t, "fv")) // quarters
		case model.IsSignedInt(f.prim):
			v = int64(rapid.SampledFrom([]int{-100, -7, -2, -1, 0, 1, 2, 3, 5, 10, 12, 100}).Draw(t, "sv"))
		default:
			v = int64(rapid.SampledFrom([]int{0, 1, 2, 3, 4, 6, 10, 12, 100, 200}).Draw(t, "uv"))
		}
		c.Values[f.name] = v
	}
	for i := 0; i < 3; i++ {
		c.Vec = append(c.Vec, int64(rapid.IntRange(-20, 20).Draw(t, "vec")))
	}
	for i := 0; i < 3; i++ {
		c.A16 = append(c.A16, int64(rapid.SampledFrom([]int{30000, -30000, 32767, -32768, 200, -7, 1, 0, 181}).Draw(t, "a16")))
		c.AU8 = append(c.AU8, int64(rapid.SampledFrom([]int{255, 200, 128, 16, 2, 1, 0}).Draw(t, "au8")))
	}
	// structured fields
	x := &C19Extra{}
	for i := 0; i < 6; i++ {
		x.G = append(x.G, int64(rapid.SampledFrom([]int{-2147483648, 2147483647, -9, 0, 1, 7, 40000, 250}).Draw(t, "g")))
	}
	x.DShape = [2]int{rapid.IntRange(1, 3).Draw(t, "dP"), rapid.IntRange(1, 4).Draw(t, "dQ")}
	for i := 0; i < x.DShape[0]*x.DShape[1]; i++ {
		x.D = append(x.D, int64(rapid.SampledFrom([]int{-32768, 32767, -3, 0, 2, 11, 181}).Draw(t, "d")))
	}
	for i, nd := 0, rapid.IntRange(1, 3).Draw(t, "ddN"); i < nd; i++ {
		x.DDShape = append(x.DDShape, rapid.IntRange(1, 3).Draw(t, "ddK"))
	}
	x.MLen = rapid.IntRange(0, 4).Draw(t, "mLen")
	x.SubA = int64(rapid.SampledFrom([]int{-7, 0, 3, 100000, -2147483648}).Draw(t, "subA"))
	x.SubC = int64(rapid.SampledFrom([]int{-32768, 32767, -1, 0, 5}).Draw(t, "subC"))
	for i, nw := 0, rapid.IntRange(0, 3).Draw(t, "subWn"); i < nw; i++ {
		x.SubW = append(x.SubW, int64(rapid.IntRange(-50, 50).Draw(t, "subW")))
	}
	x.OSet = rapid.Bool().Draw(t, "oSet")
	if x.OSet {
		x.O = int64(rapid.SampledFrom([]int{-5, 0, 4, 1000000}).Draw(t, "o"))
	}
	x.TShape = [2]int{rapid.IntRange(1, 3).Draw(t, "tY"), rapid.IntRange(1, 3).Draw(t, "tX")}
	x.Ax = rapid.SampledFrom([]string{"x", "y"}).Draw(t, "ax")
	x.Ax2 = rapid.SampledFrom([]string{"p", "q"}).Draw(t, "ax2")
	x.UnCase = rapid.IntRange(0, 2).Draw(t, "unCase")
	if x.UnCase == 1 {
		x.UnVal = int64(rapid.SampledFrom([]int{-2147483648, 2147483647, -4, 0, 9}).Draw(t, "unVal"))
	}
	c.X = x
	atoms := x.atoms()
	n := rapid.IntRange(6, 10).Draw(t, "nexpr")
	for i := 0; i < n; i++ {
		c.Exprs = append(c.Exprs, genExpr2(t, 3, atoms))
	}
	// structured probes: two operands on their own (declared type and value without arithmetic
	// around them), one `A op B` over two of them, and one !switch over the optional / nullable union
	for i := 0; i < 2; i++ {
		a := atoms[rapid.IntRange(0, len(atoms)-1).Draw(t, "probeAtom")]
		c.Exprs = append(c.Exprs, &ref.Expr2{Kind: "atom", Lit: a.text, Prim: a.prim})
	}
	{
		a, b := atoms[rapid.IntRange(0, len(atoms)-1).Draw(t, "probeAtomL")], atoms[rapid.IntRange(0, len(atoms)-1).Draw(t, "probeAtomR")]
		op := rapid.SampledFrom([]string{"+", "-", "*"}).Draw(t, "probeAtomOp")
		c.Exprs = append(c.Exprs, &ref.Expr2{Kind: "bin", Op: op, L: &ref.Expr2{Kind: "atom", Lit: a.text, Prim: a.prim}, R: &ref.Expr2{Kind: "atom", Lit: b.text, Prim: b.prim}})
	}
	{
		// two operands that take a dimension name from a string field, on arrays of any layout
		var byName []c19Atom
		for _, a := range atoms {
			if strings.HasSuffix(a.text, ", ax)") || strings.HasSuffix(a.text, ", ax2)") {
				byName = append(byName, a)
			}
		}
		a, b := byName[rapid.IntRange(0, len(byName)-1).Draw(t, "probeNameL")], byName[rapid.IntRange(0, len(byName)-1).Draw(t, "probeNameR")]
		c.Exprs = append(c.Exprs, &ref.Expr2{Kind: "bin", Op: "+", L: &ref.Expr2{Kind: "bin", Op: "*", L: &ref.Expr2{Kind: "atom", Lit: a.text, Prim: a.prim}, R: &ref.Expr2{Kind: "int", Lit: "10"}}, R: &ref.Expr2{Kind: "atom", Lit: b.text, Prim: b.prim}})
	}
	c.Exprs = append(c.Exprs, &ref.Expr2{Kind: "switch2", Name: rapid.SampledFrom([]string{"o", "un"}).Draw(t, "sw2Field"), Lit: rapid.SampledFrom([]string{"A", "B"}).Draw(t, "sw2Variant")})
	// two association probes per case: A op1 (B op2 C) and (A op1 B) op2 C with op1, op2 of equal
	// precedence, over signed integer fields and small literals (all eight nestings of +,- and of *,/)
	atom := func(label string) *ref.Expr2 {
		if rapid.IntRange(0, 2).Draw(t, label+"Lit") == 0 {
			return &ref.Expr2{Kind: "int", Lit: strconv.Itoa(rapid.IntRange(1, 9).Draw(t, label+"V"))}
		}
		f := rapid.SampledFrom([]string{"i8", "i16", "i32", "i64"}).Draw(t, label+"F")
		return &ref.Expr2{Kind: "field", Name: f, Prim: map[string]string{"i8": "int8", "i16": "int16", "i32": "int32", "i64": "int64"}[f]}
	}
	for i := 0; i < 2; i++ {
		ops := rapid.SampledFrom([][]string{{"+", "-"}, {"*", "/"}}).Draw(t, "probeOps")
		o1, o2 := rapid.SampledFrom(ops).Draw(t, "probeOp1"), rapid.SampledFrom(ops).Draw(t, "probeOp2")
		a, b, cc := atom("pa"), atom("pb"), atom("pc")
		if rapid.Bool().Draw(t, "probeRight") {
			c.Exprs = append(c.Exprs, &ref.Expr2{Kind: "bin", Op: o1, L: a, R: &ref.Expr2{Kind: "paren", L: &ref.Expr2{Kind: "bin", Op: o2, L: b, R: cc}}})
		} else {
			c.Exprs = append(c.Exprs, &ref.Expr2{Kind: "bin", Op: o2, L: &ref.Expr2{Kind: "paren", L: &ref.Expr2{Kind: "bin", Op: o1, L: a, R: b}}, R: cc})
		}
	}
	// what the union fields hold, and one !switch probe over one of them (cases in either order)
	c.Sw = map[string]C19Sw{}
	edge := map[string][]int64{"int16": {-5, -32768, 32767, 7}, "uint16": {40000, 65535, 3}, "int32": {-7, -2147483648, 2147483647}, "uint32": {4294967289, 3000000000, 12},
		"uint8": {255, 200, 1}, "int64": {-9, 5000000000, -5000000000}}
	for _, u := range c19Unions {
		k := rapid.IntRange(0, 1).Draw(t, "swCase")
		vals := edge[u.prims[k]]
		c.Sw[u.name] = C19Sw{Case: k, Val: vals[rapid.IntRange(0, len(vals)-1).Draw(t, "swVal")]}
	}
	{
		u := c19Unions[rapid.IntRange(0, len(c19Unions)-1).Draw(t, "swField")]
		c.Exprs = append(c.Exprs, &ref.Expr2{Kind: "switch", Name: u.name, Lit: rapid.SampledFrom([]string{"01", "10"}).Draw(t, "swOrder")})
	}
	// one probe on array elements: `a[i] op a[j]` (the operands are fixed-width scalars, the
	// result is declared wider)
	{
		arr := rapid.SampledFrom([]string{"a16", "au8"}).Draw(t, "elArr")
		prim := map[string]string{"a16": "int16", "au8": "uint8"}[arr]
		el := func(label string) *ref.Expr2 {
			return &ref.Expr2{Kind: "index", Name: arr, Prim: prim, Index: rapid.IntRange(0, 2).Draw(t, label)}
		}
		op := rapid.SampledFrom([]string{"+", "-", "*"}).Draw(t, "elOp")
		c.Exprs = append(c.Exprs, &ref.Expr2{Kind: "bin", Op: op, L: el("elI"), R: el("elJ")})
	}
	return c
}

// intRange: smallest and largest value of an integer primitive.
func intRange(prim string) (lo, hi *big.Int) {
	bits := uint(model.IntBits(prim))
	if model.IsSignedInt(prim) {
		hi = new(big.Int).Sub(new(big.Int).Lsh(big.NewInt(1), bits-1), big.NewInt(1))
		lo = new(big.Int).Neg(new(big.Int).Lsh(big.NewInt(1), bits-1))
		return
	}
	return big.NewInt(0), new(big.Int).Sub(new(big.Int).Lsh(big.NewInt(1), bits), big.NewInt(1))
}

func parseCf(s string) (kind string, i *big.Int, f float64, err string) {
	switch {
	case strings.HasPrefix(s, "i:"):
		n, ok := new(big.Int).SetString(s[2:], 10)
		if !ok {
			return "x", nil, 0, "unparsable " + s
		}
		return "i", n, 0, ""
	case strings.HasPrefix(s, "f:"):
		v, e := strconv.ParseFloat(s[2:], 64)
		if e != nil {
			return "x", nil, 0, "unparsable " + s
		}
		return "f", nil, v, ""
	case strings.HasPrefix(s, "b:"):
		return "b", nil, 0, ""
	}
	return "x", nil, 0, strings.TrimPrefix(s, "x:")
}

func c19Known(e *ref.Expr2, msg string) string { return "" }

func checkC19(c C19Case) *Fail {
	rec := core.Rec("C19")
	// keep only the expressions yardl accepts (typing is yardl's: "no common type" pairs are rejected)
	var texts []string
	var kept []*ref.Expr2
	preFields := map[string]*big.Rat{}
	for _, f := range c19Fields {
		if f.prim == "float32" || f.prim == "float64" {
			preFields[f.name] = big.NewRat(c.Values[f.name], 4)
		} else {
			preFields[f.name] = big.NewRat(c.Values[f.name], 1)
		}
	}
	c.addUnionValues(preFields)
	c.addExtraValues(preFields)
	var preVec []*big.Rat
	for _, x := range c.Vec {
		preVec = append(preVec, big.NewRat(x, 1))
	}
	for _, e := range c.Exprs {
		// an integer division by zero would kill the C++ driver process (SIGFPE): such
		// evaluations are outside "in-range operands" and are not run
		// (more generally: an evaluation the documents do not define may be undefined behaviour in
		// C++, e.g. a negative real converted to an unsigned integer and then used as a divisor)
		if r := e.Eval(preFields, c.vecMap(preVec)); r.Undefined != "" {
			// an inexact integer division is still run when the expression is defined under both
			// candidate rounding rules (the targets must then agree with each other, see below)
			rf := e.EvalRounded("floor", preFields, c.vecMap(preVec))
			rt := e.EvalRounded("trunc", preFields, c.vecMap(preVec))
			if r.Undefined != ref.IntDivUndefined || rf.Undefined != "" || rt.Undefined != "" || rf.IsFloat || rt.IsFloat {
				rec.Class("skipped:" + strings.SplitN(r.Undefined, " (", 2)[0])
				continue
			}
		}
		p := c19Model([]string{e.Text()})
		ok := false
		withTempLayout("c19v", model.EmitLayout(p, model.EmitOptions{}), func(root string) {
			r := sut.Yardl(filepath.Join(root, "main"), "validate")
			ok = r.Exit == 0
		})
		if ok {
			kept = append(kept, e)
			texts = append(texts, e.Text())
			rec.Class("expr-accepted")
		} else {
			rec.Class("expr-rejected-by-yardl")
		}
	}
	if len(kept) == 0 {
		return nil
	}
	p := c19Model(texts)
	b, err := sut.Generate(p, sut.BuildOpts{Python: true, Cpp: true})
	if b != nil {
		defer b.Cleanup()
	}
	if err != nil {
		return failf("c19", "a record whose computed fields are individually accepted is rejected: %v", err)
	}
	// declared types
	hdr, _ := os.ReadFile(filepath.Join(b.CppDir, "types.h"))
	declared := map[int]string{}
	for _, m := range cppCfRe.FindAllStringSubmatch(string(hdr), -1) {
		i, _ := strconv.Atoi(m[2])
		declared[i] = ref.CppTypeToPrim(m[1])
	}
	// the record value
	fields := map[string]*big.Rat{}
	recV := &value.Value{K: value.Record}
	for _, f := range c19Fields {
		n := c.Values[f.name]
		switch {
		case f.prim == "float32" || f.prim == "float64":
			fields[f.name] = big.NewRat(n, 4)
			recV.Items = append(recV.Items, value.NewFloat(float64(n)/4))
		case model.IsSignedInt(f.prim):
			fields[f.name] = big.NewRat(n, 1)
			recV.Items = append(recV.Items, &value.Value{K: value.Int, I: n})
		default:
			fields[f.name] = big.NewRat(n, 1)
			recV.Items = append(recV.Items, &value.Value{K: value.Uint, U: uint64(n)})
		}
	}
	vecV := &value.Value{K: value.Seq}
	var vec []*big.Rat
	for _, x := range c.Vec {
		vecV.Items = append(vecV.Items, &value.Value{K: value.Int, I: x})
		vec = append(vec, big.NewRat(x, 1))
	}
	recV.Items = append(recV.Items, vecV)
	a16, au8 := c.arrays()
	arr16 := &value.Value{K: value.Array, Shape: []uint64{3}}
	for _, x := range a16 {
		arr16.Items = append(arr16.Items, &value.Value{K: value.Int, I: x})
	}
	arrU8 := &value.Value{K: value.Array, Shape: []uint64{3}}
	for _, x := range au8 {
		arrU8.Items = append(arrU8.Items, &value.Value{K: value.Uint, U: uint64(x)})
	}
	recV.Items = append(recV.Items, arr16, arrU8)
	c.addUnionValues(fields)
	c.addExtraValues(fields)
	for _, u := range c19Unions {
		h := c.sw(u.name)
		var inner *value.Value
		if model.IsSignedInt(u.prims[h.Case]) {
			inner = &value.Value{K: value.Int, I: h.Val}
		} else {
			inner = &value.Value{K: value.Uint, U: uint64(h.Val)}
		}
		recV.Items = append(recV.Items, &value.Value{K: value.Union, Case: h.Case, Items: []*value.Value{inner}})
	}
	{
		x := c.extra()
		ints := func(vs []int64) (out []*value.Value) {
			for _, v := range vs {
				out = append(out, &value.Value{K: value.Int, I: v})
			}
			return
		}
		subV := func() *value.Value {
			return &value.Value{K: value.Record, Items: []*value.Value{{K: value.Int, I: x.SubA}, {K: value.Record, Items: []*value.Value{{K: value.Int, I: x.SubC}}}, {K: value.Seq, Items: ints(x.SubW)}}}
		}
		ddShape := []uint64{}
		ddN := 1
		for _, k := range x.DDShape {
			ddShape = append(ddShape, uint64(k))
			ddN *= k
		}
		var ddVals []int64
		for i := 0; i < ddN; i++ {
			ddVals = append(ddVals, int64(i))
		}
		mV := &value.Value{K: value.Map}
		for i := 0; i < x.MLen; i++ {
			mV.Keys = append(mV.Keys, &value.Value{K: value.String, S: fmt.Sprintf("k%d", i)})
			mV.Items = append(mV.Items, &value.Value{K: value.Int, I: int64(i)})
		}
		oV := &value.Value{K: value.Union, Case: 0}
		if x.OSet {
			oV = &value.Value{K: value.Union, Case: 1, Items: []*value.Value{{K: value.Int, I: x.O}}}
		}
		unV := &value.Value{K: value.Union, Case: x.UnCase}
		switch x.UnCase {
		case 1:
			unV.Items = []*value.Value{{K: value.Int, I: x.UnVal}}
		case 2:
			unV.Items = []*value.Value{subV()}
		}
		recV.Items = append(recV.Items,
			&value.Value{K: value.Array, Shape: []uint64{2, 3}, Items: ints(x.G)},
			&value.Value{K: value.Array, Shape: []uint64{uint64(x.DShape[0]), uint64(x.DShape[1])}, Items: ints(x.D)},
			&value.Value{K: value.Array, Shape: ddShape, Items: ints(ddVals)},
			mV, subV(), oV, unV)
		var tVals []int64
		for i := 0; i < x.TShape[0]*x.TShape[1]; i++ {
			tVals = append(tVals, int64(i))
		}
		recV.Items = append(recV.Items,
			&value.Value{K: value.Array, Shape: []uint64{uint64(x.TShape[0]), uint64(x.TShape[1])}, Items: ints(tVals)},
			&value.Value{K: value.String, S: x.Ax}, &value.Value{K: value.String, S: x.Ax2})
	}
	proto := p.Find("Proto0")
	in := filepath.Join(b.Root, "rec.bin")
	os.WriteFile(in, ref.EncodeProtocol(b.Env, proto, b.Schemas["Proto0"], []value.StepValues{{Value: recV}}), 0o644)
	var pyNames, cppNames []string
	for i := range kept {
		pyNames = append(pyNames, fmt.Sprintf("c%d", i))
		cppNames = append(cppNames, fmt.Sprintf("C%d", i))
	}
	pyRes, err := b.RunPy([]sut.Job{{Op: "cf", Proto: "Proto0", In: in, Names: pyNames}})
	if err != nil {
		var ie *sut.ImportError
		if errors.As(err, &ie) {
			return failf("c19", "generated Python with accepted computed fields does not import: %s\n%s", core.Trunc(err.Error(), 800), strings.Join(texts, "\n"))
		}
		return failf("rt-harness", "python: %v", err)
	}
	var pyVals []string
	json.Unmarshal(pyRes[0].Extra, &pyVals)
	decls, cmds := sut.ComputedFieldsDriverCode(p, "Proto0", "r", "Rec", cppNames)
	if err := b.BuildCpp(sut.CppOpts{ExtraDecls: decls, ExtraCmds: cmds}); err != nil {
		return failf("c19", "generated C++ with accepted computed fields does not compile: %s\n%s", core.Trunc(err.Error(), 1200), strings.Join(texts, "\n"))
	}
	cppRes, err := b.RunCpp([]sut.Job{{Op: "cf", Proto: "Proto0", In: in}})
	if err == nil && !cppRes[0].OK && strings.HasPrefix(cppRes[0].Error, "CRASH") {
		return failf("c19", "the C++ code crashed while evaluating computed fields whose exact evaluation is defined: %s\n%s\non %v v=%v", core.Trunc(cppRes[0].Error, 300), strings.Join(texts, "\n"), c.Values, c.Vec)
	}
	if err != nil || !cppRes[0].OK {
		return failf("rt-harness", "C++ cf driver: %v %v", err, cppRes)
	}
	cppVals := strings.Split(strings.TrimSuffix(cppRes[0].Error, "|"), "|")
	if len(pyVals) != len(kept) || len(cppVals) != len(kept) {
		return failf("rt-harness", "cf drivers returned %d / %d values for %d expressions", len(pyVals), len(cppVals), len(kept))
	}
	for i, e := range kept {
		want := e.Eval(fields, c.vecMap(vec))
		decl := declared[i]
		ctx := func() string {
			xs, _ := json.Marshal(c.extra())
			return fmt.Sprintf("computed field `%s` (read as %s), declared %s, on %v v=%v structured=%s", e.Text(), e.Tree(), decl, c.Values, c.Vec, xs)
		}
		if want.Undefined == ref.IntDivUndefined {
			// inexact integer division. Where flooring and truncating give the same result
			// (non-negative quotients) that result is the value; otherwise the documents leave the
			// rounding open, but the targets still have to agree with each other.
			wf := e.EvalRounded("floor", fields, c.vecMap(vec))
			wt := e.EvalRounded("trunc", fields, c.vecMap(vec))
			if wf.Undefined != "" || wt.Undefined != "" || wf.IsFloat || wt.IsFloat || !model.IsIntPrim(decl) || !ref.FitsDeclared(wf, decl) || !ref.FitsDeclared(wt, decl) {
				rec.Class("undefined:" + strings.SplitN(want.Undefined, " (", 2)[0])
				continue
			}
			kc, ic, _, ec := parseCf(cppVals[i])
			kp, ip, _, ep := parseCf(pyVals[i])
			if kc == "x" || kp == "x" {
				return failf("c19", "a target raised on an in-range evaluation: C++ %q Python %q\n%s", ec, ep, ctx())
			}
			if kc != "i" || kp != "i" {
				return failf("c19", "a non-integer result (C++ %s, Python %s) for a field declared %s\n%s", cppVals[i], pyVals[i], decl, ctx())
			}
			rec.EvalN(1)
			if wf.Val.Cmp(wt.Val) == 0 {
				rec.Class("inexact-division:rounding-irrelevant")
				rec.Nontrivial(core.Hash(e.Text(), c.Values, c.Vec, "div"))
				for lang, g := range map[string]*big.Int{"C++": ic, "Python": ip} {
					if new(big.Rat).SetInt(g).Cmp(wf.Val) != 0 {
						return failf("c19", "%s computes %s; every rounding of the integer divisions gives %s\n%s", lang, g, wf.Val.RatString(), ctx())
					}
				}
				continue
			}
			rec.Class("inexact-division:rounding-matters")
			if ic.Cmp(ip) != 0 {
				f := failf("c19", "the targets disagree on an integer division with a negative, non-integral quotient: C++ computes %s, Python computes %s (truncation gives %s, flooring %s)\n%s", ic, ip, wt.Val.RatString(), wf.Val.RatString(), ctx())
				f.KnownID = "C19-integer-division-rounding"
				return f
			}
			continue
		}
		if want.Undefined != "" {
			rec.Class("undefined:" + strings.SplitN(want.Undefined, " (", 2)[0])
			continue
		}
		if e.Kind == "switch" && decl != "" {
			// every case returns its own variable, so the result type has to hold every value of
			// every case type (whatever the order of the cases)
			for _, u := range c19Unions {
				if u.name != e.Name {
					continue
				}
				for _, cp := range u.prims {
					lo, hi := intRange(cp)
					if !ref.FitsDeclared(ref.EvalResult{Val: new(big.Rat).SetInt(lo)}, decl) || !ref.FitsDeclared(ref.EvalResult{Val: new(big.Rat).SetInt(hi)}, decl) {
						return failf("c19", "the !switch over %s (cases %s and %s, written in order %s) is declared %s, which cannot hold every value of case type %s\n%s", u.name, u.prims[0], u.prims[1], e.Lit, decl, cp, ctx())
					}
				}
			}
		}
		if decl == "" || !ref.FitsDeclared(want, decl) {
			rec.Class("out-of-range-for-declared-type")
			continue
		}
		rec.EvalN(1)
		if strings.Contains(e.Text(), "/") || strings.Contains(e.Text(), "(") {
			rec.Nontrivial(core.Hash(e.Text(), c.Values, c.Vec, c.X))
		}
		for _, w := range []string{"size(", "dimensionIndex(", "dimensionCount(", "sub.", "g[", "d[", "t[", ", ax", "!switch2"} {
			if strings.Contains(e.Text(), w) {
				rec.Class("judged-with:" + w)
			}
		}
		for lang, s := range map[string]string{"C++": cppVals[i], "Python": pyVals[i]} {
			kind, gi, gf, gerr := parseCf(s)
			if kind == "x" {
				return failf("c19", "%s raised on an in-range evaluation: %s\n%s", lang, gerr, ctx())
			}
			wf, _ := func() (float64, bool) {
				if want.IsFloat {
					return want.Float, false
				}
				return want.Val.Float64()
			}()
			if model.IsIntPrim(decl) {
				if kind != "i" {
					return failf("c19", "%s returns a non-integer (%s) for a field declared %s\n%s", lang, s, decl, ctx())
				}
				if new(big.Rat).SetInt(gi).Cmp(want.Val) != 0 {
					f := failf("c19", "%s computes %s, the value of the expression is %s\n%s", lang, gi, want.Val.RatString(), ctx())
					f.KnownID = c19Known(e, f.Msg)
					return f
				}
				continue
			}
			got := gf
			if kind == "i" {
				got, _ = new(big.Float).SetInt(gi).Float64()
			}
			tol := 1e-12
			if decl == "float32" || strings.Contains(e.Text(), "float32") || strings.Contains(e.Text(), "f32") {
				tol = 1e-6
			}
			if strings.Contains(e.Text(), "**") {
				tol = math.Max(tol, 1e-9)
			}
			if math.Abs(got-wf) > tol*math.Max(1, math.Abs(wf)) {
				f := failf("c19", "%s computes %v, the value of the expression is %v\n%s", lang, got, wf, ctx())
				f.KnownID = c19Known(e, f.Msg)
				return f
			}
		}
		rec.Class("agree")
	}
	return nil
}

func init() {
	registerReplay("c19", func(raw json.RawMessage) *Fail {
		var c C19Case
		if err := json.Unmarshal(raw, &c); err != nil {
			return failf("c19", "bad replay: %v", err)
		}
		return checkC19(c)
	})
	registerReplay("c19-static", func(raw json.RawMessage) *Fail { return nil })
}

func TestC19(t *testing.T) {
	rec := core.Rec("C19")
	rec.SetRule(c19Rule)
	rec.Assume("the documents give no promotion table: the declared type is read from the generated signatures and only checked for symmetry, cross-language agreement and capacity", "integer division with a non-integral quotient, conversions of non-integral values to integers, and evaluations whose exact value does not fit the declared type are not judged", "MATLAB computed fields are not executed")
	replayKnown(t, "C19")
	if os.Getenv("VERIF_SHARD") == "0" || os.Getenv("VERIF_SHARD") == "" {
		c19StaticTable(t, rec)
		if t.Failed() {
			return
		}
	}
	rapid.Check(t, func(rt *rapid.T) {
		c := genC19(rt)
		var texts []string
		for _, e := range c.Exprs {
			texts = append(texts, e.Text())
		}
		rec.Sample(map[string]any{"expressions": texts, "values": c.Values, "vec": c.Vec, "structured": c.X})
		report(rt, rec, checkC19(c), c)
	})
}
