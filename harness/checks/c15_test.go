package checks

import (
	"encoding/json"
	"fmt"
	"os"
	"path/filepath"
	"strings"
	"testing"

	"pgregory.net/rapid"
	"verif/harness/core"
	"verif/harness/model"
	"verif/harness/ref"
	"verif/harness/sut"
	"verif/harness/value"
)

// C15 — readers refuse streams of a different schema or format.
//
// Package A and package B = A + one schema-changing edit (same protocol names) are both
// generated; streams of A (reference-encoded with A's schema) are fed to B's generated readers.
// In addition B's own valid streams are fed to B's readers with a corrupted header. The reader
// is observed through a copy into a generated NDJSON writer: lines after the header line are
// the values it delivered.

type Corruption struct {
	Fmt  string `json:"fmt"`  // binary | ndjson
	Kind string `json:"kind"` // flip | truncate | json-edit
	Pos  int    `json:"pos"`  // byte offset (binary) / variant index (ndjson)
	Xor  int    `json:"xor"`
}

type C15Case struct {
	A           *model.Package     `json:"a"`
	B           *model.Package     `json:"b"`
	Edit        string             `json:"edit"`
	Proto       string             `json:"proto"`
	Steps       []value.StepValues `json:"steps"`   // values of A's protocol
	StepsB      []value.StepValues `json:"steps_b"` // values of B's protocol (for header corruptions)
	Corruptions []Corruption       `json:"corruptions"`
}

const c15Rule = "pairs of packages (A, B = A + one schema-changing edit at a generated position, protocol names unchanged: field/step type change, optionality, union cases, enum values/base, field order, added/removed fields or steps) with A's reference-encoded streams (binary and NDJSON) fed to B's generated readers in Python and C++; plus B's own valid streams with a corrupted header (every single-byte flip class: magic, version, schema length varint, schema text; truncation inside the header; NDJSON header with missing key, other version, edited schema, not JSON). oracle: the reader fails and the sink (generated NDJSON writer) received no value. non-trivial = the schemas differ in a nested named type rather than the step list, or the corruption lies inside the schema text; distinct = hash of both models + corruption list"

func deliveredLines(path string) []string {
	data, err := os.ReadFile(path)
	if err != nil {
		return nil
	}
	var out []string
	for _, l := range strings.Split(strings.TrimRight(string(data), "\n"), "\n") {
		if l == "" || strings.HasPrefix(l, "{\"yardl\"") {
			continue
		}
		out = append(out, l)
	}
	return out
}

func genC15(t *rapid.T) (C15Case, bool) {
	cfg := rtGenConfig()
	applyRuntimeExclusions(&cfg)
	cfg.MaxImports = 1
	cfg.TwiceGenericPct = 35 // a type that reaches the protocol only through the second instantiation of a generic
	a := model.GenPackage(t, &cfg)
	b := a.Clone()
	var c C15Case
	applied := false
	if d := b.Find("TwiceArgB"); d != nil && len(d.Fields) > 0 && d.Fields[0].Type.Kind == model.KPrim && rapid.Bool().Draw(t, "editSecondInstantiation") {
		// the edit lands in a type that reaches the protocol only as the argument of the second
		// instantiation of a generic record
		d.Fields[0].Type = model.Prim("float64")
		c = C15Case{A: a, B: b, Edit: "wire:prim-class@TwiceArgB." + d.Fields[0].Name}
		applied = true
	}
	if !applied && rapid.Bool().Draw(t, "wireEdit") {
		// an edit from C04's table: each changes how some value is encoded
		if kind, where, ok := wireEdit(t, b); ok {
			c = C15Case{A: a, B: b, Edit: "wire:" + kind + "@" + where}
			applied = true
		}
	}
	for tries := 0; tries < 8 && !applied; tries++ {
		e := model.EvoEdits[rapid.IntRange(0, len(model.EvoEdits)-1).Draw(t, "edit")]
		if e.Name == "add-alias" || e.Name == "rename-through-alias" {
			continue
		}
		if w, ok := e.Apply(t, b, model.NewEnv(b)); ok {
			c = C15Case{A: a, B: b, Edit: e.Name + "@" + w}
			applied = true
		}
	}
	if !applied {
		return c, false
	}
	// a protocol that exists in both
	protos := a.Protocols()
	p := protos[rapid.IntRange(0, len(protos)-1).Draw(t, "proto")]
	if b.Find(p.Name) == nil {
		return c, false
	}
	c.Proto = p.Name
	o := valueOpts(value.GenOpts{Budget: 30, FiniteFloats: true}, true)
	c.Steps = value.GenSteps(t, model.NewEnv(a), p, &o, 4)
	o2 := valueOpts(value.GenOpts{Budget: 30, FiniteFloats: true}, true)
	c.StepsB = value.GenSteps(t, model.NewEnv(b), b.Find(p.Name), &o2, 4)
	n := rapid.IntRange(3, 8).Draw(t, "ncorr")
	for i := 0; i < n; i++ {
		k := rapid.SampledFrom([]string{"flip", "flip", "flip", "truncate", "json-edit", "json-edit"}).Draw(t, "ckind")
		cr := Corruption{Kind: k, Fmt: "binary"}
		switch k {
		case "flip":
			// position class: 0 magic, 1 version, 2 schema length, 3 schema text
			cr.Pos = rapid.IntRange(0, 1<<20).Draw(t, "cpos") // reduced modulo the header length at use
			cr.Xor = 1 << uint(rapid.IntRange(0, 7).Draw(t, "bit"))
		case "truncate":
			cr.Pos = rapid.IntRange(0, 1<<20).Draw(t, "tpos")
		case "json-edit":
			cr.Fmt = "ndjson"
			cr.Pos = rapid.IntRange(0, 5).Draw(t, "jvariant")
		}
		c.Corruptions = append(c.Corruptions, cr)
	}
	return c, true
}

func corruptHeader(data []byte, headerLen int, cr Corruption) ([]byte, string) {
	out := append([]byte{}, data...)
	switch cr.Kind {
	case "flip":
		// spread positions over the four header regions
		var pos int
		switch cr.Pos % 4 {
		case 0:
			pos = (cr.Pos / 4) % 5
		case 1:
			pos = 5 + (cr.Pos/4)%4
		case 2:
			pos = 9 + (cr.Pos/4)%2
		default:
			pos = 11 + (cr.Pos/4)%(headerLen-11)
		}
		if pos >= headerLen {
			pos = headerLen - 1
		}
		out[pos] ^= byte(cr.Xor)
		return out, fmt.Sprintf("byte %d of the %d-byte header xor 0x%02x", pos, headerLen, cr.Xor)
	case "truncate":
		pos := cr.Pos % headerLen
		return out[:pos], fmt.Sprintf("truncated to %d of %d header bytes", pos, headerLen)
	}
	return out, "none"
}

func corruptJSONHeader(text string, schema string, variant int) (string, string) {
	lines := strings.SplitN(text, "\n", 2)
	rest := ""
	if len(lines) > 1 {
		rest = lines[1]
	}
	switch variant {
	case 0:
		return "{\"yardl\":{\"version\":2,\"schema\":" + schema + "}}\n" + rest, "version 2"
	case 1:
		return "{\"yardI\":{\"version\":1,\"schema\":" + schema + "}}\n" + rest, "key yardl misspelt"
	case 2:
		return "{\"yardl\":{\"version\":1}}\n" + rest, "schema missing"
	case 3:
		return "this is not json\n" + rest, "first line not JSON"
	case 4:
		return rest, "header line missing"
	default:
		edited := strings.Replace(schema, "\"name\":\"", "\"name\":\"X", 1)
		return "{\"yardl\":{\"version\":1,\"schema\":" + edited + "}}\n" + rest, "a name inside the schema edited"
	}
}

func checkC15(c C15Case) *Fail {
	rec := core.Rec("C15")
	// A is only generated (for its schema string), B is built
	ba, err := sut.Generate(c.A, sut.BuildOpts{Python: true})
	if ba != nil {
		defer ba.Cleanup()
	}
	if err != nil {
		rec.Skip("generate-A-failed")
		return nil
	}
	bb, usable, f := buildFor(rec, RTCase{Pkg: c.B}, []string{"python", "cpp"}, true)
	if f != nil {
		if f.Check == "rt-gen" {
			rec.Skip("generate-B-failed")
			return nil
		}
		return f
	}
	defer bb.Cleanup()
	schemaA, schemaB := ba.Schemas[c.Proto], bb.Schemas[c.Proto]
	if schemaA == "" || schemaB == "" {
		rec.Skip("protocol-missing")
		return nil
	}
	type input struct {
		path, fmt, what string
		mustFail        bool
	}
	var inputs []input
	add := func(name, fmtName string, data []byte, what string) {
		p := filepath.Join(bb.Root, name)
		os.WriteFile(p, data, 0o644)
		inputs = append(inputs, input{p, fmtName, what, true})
	}
	protoA, protoB := c.A.Find(c.Proto), c.B.Find(c.Proto)
	if schemaA != schemaB {
		add("foreign.bin", "binary", ref.EncodeProtocol(ba.Env, protoA, schemaA, c.Steps), "stream of the pre-edit model ("+c.Edit+")")
		add("foreign.ndjson", "ndjson", []byte(ref.EmitProtocol(ba.Env, protoA, schemaA, c.Steps)), "NDJSON stream of the pre-edit model ("+c.Edit+")")
		rec.Class("foreign:" + strings.SplitN(c.Edit, "@", 2)[0])
	} else {
		rec.Class("edit-leaves-schema-unchanged")
	}
	own := ref.EncodeProtocol(bb.Env, protoB, schemaB, c.StepsB)
	ownText := ref.EmitProtocol(bb.Env, protoB, schemaB, c.StepsB)
	headerLen := len(own) - len(func() []byte { w := &ref.Writer{}; ref.EncodeSteps(w, bb.Env, protoB, c.StepsB); return w.Buf }())
	for i, cr := range c.Corruptions {
		if cr.Fmt == "binary" {
			data, what := corruptHeader(own, headerLen, cr)
			add(fmt.Sprintf("corrupt%d.bin", i), "binary", data, "own stream, "+what)
		} else {
			txt, what := corruptJSONHeader(ownText, schemaB, cr.Pos)
			add(fmt.Sprintf("corrupt%d.ndjson", i), "ndjson", []byte(txt), "own NDJSON stream, "+what)
		}
		rec.Class("corruption:" + cr.Kind)
	}
	for _, lang := range []string{"python", "cpp"} {
		if !usable[lang] {
			continue
		}
		var jobs []sut.Job
		for i, in := range inputs {
			jobs = append(jobs, sut.Job{Op: "copy", Proto: c.Proto, InFmt: in.fmt, OutFmt: "ndjson", In: in.path, Out: filepath.Join(bb.Root, fmt.Sprintf("sink%d.%s.ndjson", i, lang))})
		}
		results, err := runJobs(bb, lang, jobs)
		if err != nil {
			return failf("rt-harness", "%s driver: %v", lang, err)
		}
		for i, in := range inputs {
			lines := deliveredLines(jobs[i].Out)
			if strings.HasPrefix(results[i].Error, "CRASH") {
				return failf("c15", "%s reader crashed on %s: %s\n%s", lang, in.what, core.Trunc(results[i].Error, 1500), modelText(c.B))
			}
			if results[i].OK {
				return failf("c15", "%s reader accepted %s and completed normally (%d values delivered)\n--- schema of the stream\n%s\n--- schema of the reader\n%s", lang, in.what, len(lines), core.Trunc(schemaA, 1500), core.Trunc(schemaB, 1500))
			}
			if len(lines) > 0 {
				return failf("c15", "%s reader delivered %d value(s) before refusing %s: %s\nfirst: %s", lang, len(lines), in.what, core.Trunc(results[i].Error, 300), core.Trunc(lines[0], 300))
			}
			rec.Class("refused:" + lang)
		}
	}
	return nil
}

func init() {
	registerReplay("c15", func(raw json.RawMessage) *Fail {
		var c C15Case
		if err := json.Unmarshal(raw, &c); err != nil {
			return failf("c15", "bad replay: %v", err)
		}
		for i := range c.Steps {
			c.Steps[i].Fix()
		}
		for i := range c.StepsB {
			c.StepsB[i].Fix()
		}
		return checkC15(c)
	})
}

func TestC15(t *testing.T) {
	rec := core.Rec("C15")
	rec.SetRule(c15Rule)
	rec.Assume("delivered values are observed at a generated NDJSON writer used as the sink of CopyTo/copy_to", "header rewrites that keep the NDJSON header semantically identical (whitespace, key order) are not generated: the property does not say whether they must be accepted")
	replayKnown(t, "C15")
	rapid.Check(t, func(rt *rapid.T) {
		c, ok := genC15(rt)
		if !ok {
			rec.Class("inapplicable")
			return
		}
		rec.Eval()
		nested := !strings.Contains(c.Edit, "@Proto")
		inSchema := false
		for _, cr := range c.Corruptions {
			if cr.Kind == "json-edit" || (cr.Kind == "flip" && cr.Pos%4 == 3) {
				inSchema = true
			}
		}
		if nested || inSchema {
			rec.Nontrivial(core.Hash(modelText(c.A), modelText(c.B), c.Corruptions))
			rec.Sample(map[string]any{"edit": c.Edit, "protocol": c.Proto, "corruptions": c.Corruptions})
		}
		report(rt, rec, checkC15(c), c)
	})
}
