package checks

import (
	"encoding/json"
	"errors"
	"fmt"
	"os"
	"path/filepath"
	"strings"
	"testing"

	"pgregory.net/rapid"
	"verif/harness/core"
	"verif/harness/model"
	"verif/harness/ref"
	"verif/harness/sut"
	"verif/harness/value"
)

// C05 — accepted schema evolution preserves data across versions (C++ binary, the only
// combination the documentation says evolution exists for).

type C05Case struct {
	Versions []*model.Package     `json:"versions"` // oldest first; the last one is the current model
	Edits    []string             `json:"edits"`
	Proto    string               `json:"proto"`
	Values   [][]value.StepValues `json:"values"` // Values[i]: one run of Versions[i]'s protocol
}

const c05Rule = "chains M0 -> M1 (-> M2) of generated models, each step 1-2 documented compatible or partially compatible edits at generated positions (add optional/vector/stream step, add/remove optional field, reorder fields, rename through alias, primitive changes among integers/floats/strings, make (non-)optional, optional<->union, add/remove required field, add/remove union case), the newest package listing every predecessor; chains yardl rejects are discarded (counted). For every listed version i a generated value sequence Vi. read direction: reference encoding of Vi under Mi's schema -> newest model's generated C++ reader -> current writer -> reference decoder under the newest model = documented conversion of Vi; write direction: values of the newest model -> C++ writer constructed with Version::<label i> -> stream that decodes under Mi (with Mi's schema in the header) to the documented conversion. The documented-conversion function is three-valued: exact value / error allowed / not documented (not judged). non-trivial = the conversion of the run is exact and not the identity, or the chain has two steps; distinct = hash of all versions + values"

func genC05(t *rapid.T) (C05Case, bool) {
	cfg := rtGenConfig()
	applyRuntimeExclusions(&cfg)
	// only the C++ binary code runs here: shapes excluded because of Python or NDJSON findings are allowed
	for _, sw := range []string{"generic-identity-alias", "nested-optional-via-alias", "array-of-struct", "union-as-generic-arg", "union-flags-with-number", "union-with-param-case", "array-of-vector", "union-nested-in-alias"} {
		delete(cfg.Excl, sw)
	}
	cfg.MaxImports = 0
	cfg.MaxProtocols = 1
	cfg.MaxDefs = 5
	cfg.Computed = false
	cfg.EvoShapesPct = 30
	cfg.ArgRefPct = 35 // generics instantiated with named types that the edits may then change
	m0 := model.GenPackage(t, &cfg)
	c := C05Case{Versions: []*model.Package{m0}}
	n := rapid.IntRange(1, 2).Draw(t, "chainLen")
	edits := model.EvoEditsOfClass("compatible", "warning")
	cur := m0
	for s := 0; s < n; s++ {
		next := cur.Clone()
		applied := 0
		want := rapid.IntRange(1, 2).Draw(t, "editsPerStep")
		for tries := 0; tries < 16 && applied < want; tries++ {
			e := edits[rapid.IntRange(0, len(edits)-1).Draw(t, "edit")]
			if (e.Name == "add-optional-step" || e.Name == "add-alias") && rapid.IntRange(0, 3).Draw(t, "keepTrivialEdit") != 0 {
				// always applicable and converts nothing: keep them from crowding out the edits that do
				continue
			}
			if w, ok := e.Apply(t, next, model.NewEnv(next)); ok {
				if nc := model.LastNumericChange(); nc != "" && e.Name == "change-numeric-primitive" {
					w += " (" + nc + ")"
				}
				c.Edits = append(c.Edits, fmt.Sprintf("v%d->v%d:%s@%s", s, s+1, e.Name, w))
				applied++
			}
		}
		if applied == 0 {
			return c, false
		}
		c.Versions = append(c.Versions, next)
		cur = next
	}
	c.Proto = m0.Protocols()[0].Name
	for _, v := range c.Versions {
		p := v.Find(c.Proto)
		if p == nil {
			return c, false
		}
		o := value.GenOpts{Budget: 30, FiniteFloats: true}
		c.Values = append(c.Values, value.GenSteps(t, model.NewEnv(v), p, &o, 4))
	}
	return c, true
}

func schemaOf(p *model.Package, proto string) (string, error) {
	b, err := sut.Generate(p, sut.BuildOpts{Python: true})
	if b != nil {
		defer b.Cleanup()
	}
	if err != nil {
		return "", err
	}
	return b.Schemas[proto], nil
}

func checkC05(c C05Case) *Fail {
	rec := core.Rec("C05")
	n := len(c.Versions) - 1
	// assemble the newest package with its predecessors
	cur := c.Versions[n].Clone()
	cur.Versions = nil
	var labels []string
	for i := 0; i < n; i++ {
		v := c.Versions[i].Clone()
		v.DirName = fmt.Sprintf("v%d", i)
		v.Versions = nil
		cur.Versions = append(cur.Versions, model.Version{Label: fmt.Sprintf("v%d", i), Pkg: v})
		labels = append(labels, fmt.Sprintf("v%d", i))
	}
	b, err := sut.Generate(cur, sut.BuildOpts{Python: false, Cpp: true, NDJson: false})
	if b != nil {
		defer b.Cleanup()
	}
	if err != nil {
		rec.Class("chain-rejected-by-yardl")
		return nil
	}
	rec.Class("chain-accepted")
	if err := b.BuildCpp(sut.CppOpts{Versions: labels}); err != nil {
		var ce *sut.CompileError
		if errors.As(err, &ce) {
			f := failf("c05", "yardl accepts the version chain but the generated C++ does not compile:\n%s\nedits: %v\n%s", core.Trunc(err.Error(), 1500), c.Edits, versionsText(c))
			return f
		}
		return failf("rt-harness", "%v", err)
	}
	schemas := make([]string, n+1)
	schemas[n] = b.Schemas[c.Proto]
	for i := 0; i < n; i++ {
		s, err := schemaOf(c.Versions[i], c.Proto)
		if err != nil || s == "" {
			rec.Skip("old-version-does-not-generate")
			return nil
		}
		schemas[i] = s
	}
	envN := model.NewEnv(c.Versions[n])
	protoN := c.Versions[n].Find(c.Proto)
	var jobs []sut.Job
	type expect struct {
		what   string
		env    *model.Env
		proto  *model.Def
		schema string
		want   []value.StepValues
		status ref.EvoStatus
		why    string
		src    string
	}
	var exps []expect
	for i := 0; i < n; i++ {
		envI := model.NewEnv(c.Versions[i])
		protoI := c.Versions[i].Find(c.Proto)
		// read direction
		in := filepath.Join(b.Root, fmt.Sprintf("old%d.bin", i))
		os.WriteFile(in, ref.EncodeProtocol(envI, protoI, schemas[i], c.Values[i]), 0o644)
		jobs = append(jobs, sut.Job{Op: "copy", Proto: c.Proto, InFmt: "binary", OutFmt: "binary", In: in, Out: in + ".as-current"})
		w, st, why := ref.EvolveSteps(envI, protoI, envN, protoN, c.Values[i])
		exps = append(exps, expect{fmt.Sprintf("reading a v%d stream with the current reader", i), envN, protoN, schemas[n], w, st, why, describeSteps(protoI, c.Values[i])})
		// write direction
		inN := filepath.Join(b.Root, "cur.bin")
		os.WriteFile(inN, ref.EncodeProtocol(envN, protoN, schemas[n], c.Values[n]), 0o644)
		jobs = append(jobs, sut.Job{Op: "copy", Proto: c.Proto, InFmt: "binary", OutFmt: "binary", In: inN, Out: inN + fmt.Sprintf(".as-v%d", i), Mode: fmt.Sprintf("v%d", i)})
		w2, st2, why2 := ref.EvolveSteps(envN, protoN, envI, protoI, c.Values[n])
		exps = append(exps, expect{fmt.Sprintf("writing current values as version v%d", i), envI, protoI, schemas[i], w2, st2, why2, describeSteps(protoN, c.Values[n])})
	}
	results, err := b.RunCpp(jobs)
	if err != nil {
		return failf("rt-harness", "C++ driver: %v", err)
	}
	for k, e := range exps {
		ctx := func() string {
			return fmt.Sprintf("%s\nedits: %v\nsource values:\n%s\n%s", e.what, c.Edits, e.src, versionsText(c))
		}
		res := results[k]
		if strings.HasPrefix(res.Error, "CRASH") {
			return failf("c05", "crash: %s\n%s", core.Trunc(res.Error, 1200), ctx())
		}
		switch e.status {
		case ref.Unspec:
			rec.Class("conversion-not-documented")
			continue
		case ref.MustError:
			// the value has no counterpart in the target version (integer out of range, text that
			// is not a number, union case that does not exist there): docs/cpp/evolution.md,
			// "Runtime errors". Completing the run means something else was delivered in its place.
			rec.EvalN(1)
			if res.OK {
				return failf("c05", "a value that has no counterpart in the target version was converted silently instead of raising the documented runtime error (%s)\n%s", e.why, ctx())
			}
			rec.Class("documented-error-case-errored")
			rec.Nontrivial(core.Hash(versionsText(c), c.Values, k, "err"))
			continue
		}
		rec.EvalN(1)
		if !res.OK {
			return failf("c05", "a documented conversion failed at run time: %s\n%s", core.Trunc(res.Error, 600), ctx())
		}
		data, _ := os.ReadFile(jobs[k].Out)
		dec, derr := ref.DecodeProtocol(e.env, e.proto, data)
		if derr != nil {
			return failf("c05", "the converted stream does not decode under the target version: %v\n%s", derr, ctx())
		}
		if dec.Schema != e.schema {
			return failf("c05", "the converted stream carries the wrong schema\n  got:  %s\n  want: %s\n%s", core.Trunc(dec.Schema, 500), core.Trunc(e.schema, 500), ctx())
		}
		if d := value.StepsEqual(e.want, dec.Steps); d != "" {
			return failf("c05", "converted values differ from the documented conversion: %s\n  expected: %s\n%s", d, core.Trunc(describeSteps(e.proto, e.want), 600), ctx())
		}
		rec.Class("conversion-exact")
		if n >= 2 || value.StepsEqual(e.want, c.Values[srcIdx(k, n)]) != "" {
			rec.Nontrivial(core.Hash(versionsText(c), c.Values, k))
		}
	}
	return nil
}

// srcIdx: index of the version whose values were the source of expectation k (even = read
// direction from version k/2, odd = write direction from the newest version).
func srcIdx(k, n int) int {
	if k%2 == 0 {
		return k / 2
	}
	return n
}

func describeSteps(proto *model.Def, steps []value.StepValues) string {
	var sb strings.Builder
	for i, s := range steps {
		if i >= len(proto.Fields) {
			break
		}
		if s.Stream {
			fmt.Fprintf(&sb, "  %s = stream %s\n", proto.Fields[i].Name, core.Trunc((&value.Value{K: value.Seq, Items: s.Items}).String(), 300))
		} else {
			fmt.Fprintf(&sb, "  %s = %s\n", proto.Fields[i].Name, core.Trunc(s.Value.String(), 300))
		}
	}
	return sb.String()
}

func versionsText(c C05Case) string {
	var sb strings.Builder
	for i, v := range c.Versions {
		fmt.Fprintf(&sb, "=== version %d\n%s", i, model.EmitPackage(v, model.EmitOptions{}).Text())
	}
	return core.Trunc(sb.String(), 4000)
}

func init() {
	registerReplay("c05", func(raw json.RawMessage) *Fail {
		var c C05Case
		if err := json.Unmarshal(raw, &c); err != nil {
			return failf("c05", "bad replay: %v", err)
		}
		for i := range c.Values {
			for j := range c.Values[i] {
				c.Values[i][j].Fix()
			}
		}
		return checkC05(c)
	})
}

func TestC05(t *testing.T) {
	rec := core.Rec("C05")
	rec.SetRule(c05Rule)
	rec.Assume("evolution is documented for C++ binary only; other targets are not exercised", "where docs/cpp/evolution.md says a runtime error \"may\" be emitted (overflow, unparsable string, removed union case) an error is accepted and, if none is raised, the value is not judged", "conversions the document leaves open (rounding, float text, zero value of null-less unions and arrays) are not judged")
	replayKnown(t, "C05")
	rapid.Check(t, func(rt *rapid.T) {
		c, ok := genC05(rt)
		if !ok {
			rec.Class("inapplicable")
			return
		}
		for _, e := range c.Edits {
			name := e[strings.Index(e, ":")+1:]
			if i := strings.Index(name, "@"); i >= 0 {
				name = name[:i]
			}
			rec.Class("edit:" + name)
			if strings.Contains(e, "size") && strings.Contains(e, "->") && name == "change-numeric-primitive" {
				rec.Class("edit:change-numeric-primitive involving size")
			}
		}
		rec.Sample(map[string]any{"edits": c.Edits, "current_model": core.Trunc(model.EmitPackage(c.Versions[len(c.Versions)-1], model.EmitOptions{}).Text(), 500)})
		report(rt, rec, checkC05(c), c)
	})
}
