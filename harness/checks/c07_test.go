package checks

import (
	"encoding/json"
	"errors"
	"fmt"
	"os"
	"path/filepath"
	"strconv"
	"strings"
	"testing"

	"pgregory.net/rapid"
	"verif/harness/core"
	"verif/harness/model"
	"verif/harness/ref"
	"verif/harness/sut"
)

// C07 — protocol step order is enforced by generated readers and writers.

type C07Case struct {
	Shape  []bool   `json:"shape"`  // per step: is it a stream
	Counts []int    `json:"counts"` // scripted number of items per stream step (reader side)
	CppW   []ref.Op `json:"cpp_w"`
	CppR   []ref.Op `json:"cpp_r"`
	PyW    []ref.Op `json:"py_w"`
	PyR    []ref.Op `json:"py_r"`
	// further call sequences on the same shape (running a sequence is cheap next to generating and
	// compiling the shape's code)
	MoreCppW [][]ref.Op `json:"more_cpp_w,omitempty"`
	MoreCppR [][]ref.Op `json:"more_cpp_r,omitempty"`
	MorePyW  [][]ref.Op `json:"more_py_w,omitempty"`
	MorePyR  [][]ref.Op `json:"more_py_r,omitempty"`
	// MATLAB: call sequences for the generated abstract base classes, executed structurally
	// (ref/matlab_steps.go): writer ops W/E/C, reader ops R/H/C
	MW [][]ref.Op `json:"m_w,omitempty"`
	MR [][]ref.Op `json:"m_r,omitempty"`
}

func seqs(first []ref.Op, more [][]ref.Op) [][]ref.Op {
	return append([][]ref.Op{first}, more...)
}

const c07Rule = "protocol shapes (1-8 steps, any stream/non-stream pattern; 1 in 8 cases a hostile size of 127-130 or 255-257 steps) x generated call sequences (C++ writer: write/batch-write/end/close; C++ reader: read/batch-read(capacity)/close against a scripted source; Python writer: write/write-iterable/close; Python reader: read/iterate n/close; MATLAB writer: write/end/close and MATLAB reader: read/has/close, six sequences each, run against the generated base classes by structural interpretation of their text), 70% of the calls drawn along the legal path, 30% arbitrary, each sequence ending at its first rejected call. oracle: reference step automaton per API (harness/ref/steps.go): every call the automaton accepts must succeed and deliver exactly the scripted data, the first call it rejects must raise; calls in corners the documents leave open are not judged. The generated abstract base classes are driven through stub implementations (C++ compiled, Python executed). non-trivial = the sequence contains a rejected call after at least one accepted stream call, or walks a shape with at least 2 streams to completion; distinct = (shape, sequences)"

func genShape(t *rapid.T) []bool {
	n := rapid.IntRange(1, 8).Draw(t, "steps")
	if rapid.IntRange(0, 7).Draw(t, "hostileSize") == 0 {
		n = rapid.SampledFrom([]int{127, 128, 129, 130, 255, 256, 257}).Draw(t, "hostileN")
	}
	shape := make([]bool, n)
	for i := range shape {
		shape[i] = rapid.IntRange(0, 99).Draw(t, "isStream") < 45
	}
	return shape
}

// genOps draws a call sequence with the help of a fresh reference automaton.
func genOps(t *rapid.T, shape []bool, counts []int, api string) []ref.Op {
	n := len(shape)
	var ops []ref.Op
	var cw *ref.CppWriter
	var pw *ref.PyWriter
	var cr *ref.CppReader
	var pr *ref.PyReader
	switch api {
	case "cppw":
		cw = &ref.CppWriter{Shape: shape}
	case "pyw":
		pw = &ref.PyWriter{Shape: shape}
	case "cppr":
		cr = &ref.CppReader{Shape: shape, Counts: counts}
	case "pyr":
		pr = &ref.PyReader{Shape: shape, Counts: counts}
	}
	cur := 0           // our own notion of the current step (advanced on accepted calls)
	open := false      // python reader: iterable handed out
	abandoned := false // python reader: the iterable was closed by the consumer before its end
	limit := 3*n + 12
	for len(ops) < limit {
		legal := rapid.IntRange(0, 99).Draw(t, "legal") < 72
		if n > 100 && cur < n-2 {
			legal = true // long protocols: walk the legal path to the far end first
		}
		var op ref.Op
		step := cur
		if !legal {
			step = rapid.IntRange(0, n-1).Draw(t, "anyStep")
		}
		if step >= n {
			step = n - 1
		}
		isStream := shape[step]
		switch api {
		case "cppw":
			kinds := []string{"W"}
			if isStream {
				kinds = []string{"W", "B", "E", "E"}
			}
			if cur >= n || !legal {
				kinds = append(kinds, "C")
			}
			if cur >= n && legal {
				kinds = []string{"C"}
			}
			op = ref.Op{Kind: rapid.SampledFrom(kinds).Draw(t, "kind"), Step: step}
			if op.Kind == "B" {
				op.N = rapid.IntRange(0, 4).Draw(t, "batchN")
			}
		case "pyw":
			kinds := []string{"W"}
			if isStream {
				kinds = []string{"W", "B"}
			}
			if legal && isStream && step == cur && step+1 < n && rapid.Bool().Draw(t, "moveOn") {
				step = cur + 1 // implicit end of the current stream
				kinds = []string{"W"}
			}
			if cur >= n-1 || !legal {
				kinds = append(kinds, "C")
			}
			op = ref.Op{Kind: rapid.SampledFrom(kinds).Draw(t, "kind"), Step: step}
			if op.Kind == "B" {
				op.N = rapid.IntRange(0, 4).Draw(t, "batchN")
			}
			if op.Kind == "B" && !shape[op.Step] {
				op.Kind = "W"
			}
		case "cppr":
			kinds := []string{"R"}
			if isStream {
				kinds = []string{"R", "R", "B"}
			}
			if legal && isStream && step == cur && step+1 < n && rapid.IntRange(0, 3).Draw(t, "moveOn") == 0 {
				step = cur + 1
				kinds = []string{"R"}
				if shape[step] {
					kinds = []string{"R", "B"}
				}
			}
			if cur >= n-1 || !legal {
				kinds = append(kinds, "C")
			}
			op = ref.Op{Kind: rapid.SampledFrom(kinds).Draw(t, "kind"), Step: step}
			if op.Kind == "B" {
				op.N = rapid.IntRange(1, 5).Draw(t, "cap")
			}
		case "pyr":
			if abandoned {
				// the iterable was dropped before it was exhausted: the stream is still open,
				// whatever comes next (the following step, close) is out of order
				nxt := cur + 1
				if nxt >= n {
					nxt = n - 1
				}
				op = ref.Op{Kind: rapid.SampledFrom([]string{"R", "R", "C"}).Draw(t, "afterAbandon"), Step: nxt}
			} else if open && legal && rapid.IntRange(0, 5).Draw(t, "abandon") == 0 {
				op = ref.Op{Kind: "X", Step: cur}
				abandoned = true
			} else if open && legal {
				op = ref.Op{Kind: "I", Step: cur, N: rapid.SampledFrom([]int{-1, -1, 0, 1, 2, 5}).Draw(t, "pull")}
			} else {
				kinds := []string{"R"}
				if cur >= n-1 || !legal {
					kinds = append(kinds, "C")
				}
				if open {
					kinds = append(kinds, "I")
				}
				op = ref.Op{Kind: rapid.SampledFrom(kinds).Draw(t, "kind"), Step: step}
				if op.Kind == "I" {
					op.N = rapid.SampledFrom([]int{-1, 0, 1, 3}).Draw(t, "pull2")
					op.Step = cur
				}
			}
		}
		ops = append(ops, op)
		var v ref.Verdict
		switch api {
		case "cppw":
			v = cw.Do(op)
			if v == ref.Accept && (op.Kind == "E" || (op.Kind == "W" && !shape[op.Step])) {
				cur = op.Step + 1
			}
		case "pyw":
			v = pw.Do(op)
			if v == ref.Accept {
				cur = op.Step
				if !shape[op.Step] {
					cur = op.Step + 1
				}
			}
		case "cppr":
			o := cr.Do(op)
			v = o.V
			if v == ref.Accept && op.Kind != "C" {
				cur = op.Step
				if !shape[op.Step] || !o.Result {
					cur = op.Step + 1
				}
			}
		case "pyr":
			o := pr.Do(op)
			v = o.V
			if v == ref.Accept {
				switch op.Kind {
				case "R":
					if shape[op.Step] {
						open = true
					} else {
						cur = op.Step + 1
					}
				case "I":
					if o.Result {
						open = false
						cur++
					}
				}
			}
		}
		if v != ref.Accept || op.Kind == "C" {
			break
		}
	}
	return ops
}

// genMatlabOps draws a call sequence for the MATLAB writer (W write, E end stream, C close) or reader
// (R read, H has, C close), mostly along the legal path, ending at the first rejected call.
func genMatlabOps(t *rapid.T, shape []bool, counts []int, side string) []ref.Op {
	n := len(shape)
	w := &ref.MatlabWriter{Shape: shape}
	r := &ref.MatlabReader{Shape: shape, Counts: counts}
	cur := 0
	var ops []ref.Op
	for len(ops) < 3*n+14 {
		legal := rapid.IntRange(0, 99).Draw(t, "mLegal") < 75
		if n > 100 && cur < n-2 {
			legal = true
		}
		step := cur
		if !legal || step >= n {
			step = rapid.IntRange(0, n-1).Draw(t, "mAnyStep")
		}
		var op ref.Op
		if side == "writer" {
			kinds := []string{"W"}
			if shape[step] {
				kinds = []string{"W", "W", "E"}
			}
			if cur >= n || !legal {
				kinds = append(kinds, "C")
			}
			if cur >= n && legal {
				kinds = []string{"C"}
			}
			op = ref.Op{Kind: rapid.SampledFrom(kinds).Draw(t, "mKind"), Step: step}
			v := w.Do(op)
			ops = append(ops, op)
			if v != ref.Accept || op.Kind == "C" {
				break
			}
			if op.Kind == "E" || !shape[op.Step] {
				cur = op.Step + 1
			}
			continue
		}
		kinds := []string{"R"}
		if shape[step] {
			if legal && step == cur && r.Remaining() == 0 {
				kinds = []string{"H"} // nothing left: only asking is defined
			} else {
				kinds = []string{"R", "H", "H"}
			}
		}
		if cur >= n || !legal {
			kinds = append(kinds, "C")
		}
		if cur >= n && legal {
			kinds = []string{"C"}
		}
		op = ref.Op{Kind: rapid.SampledFrom(kinds).Draw(t, "mKind"), Step: step}
		o := r.Do(op)
		ops = append(ops, op)
		if o.V != ref.Accept || op.Kind == "C" {
			break
		}
		if (op.Kind == "R" && !shape[op.Step]) || (op.Kind == "H" && !o.Result) {
			cur = op.Step + 1
		}
	}
	return ops
}

func genC07(t *rapid.T) C07Case {
	c := C07Case{Shape: genShape(t)}
	c.Counts = make([]int, len(c.Shape))
	for i, s := range c.Shape {
		if s {
			c.Counts[i] = rapid.SampledFrom([]int{0, 0, 1, 2, 3, 5}).Draw(t, "count")
		}
	}
	c.CppW = genOps(t, c.Shape, c.Counts, "cppw")
	c.CppR = genOps(t, c.Shape, c.Counts, "cppr")
	c.PyW = genOps(t, c.Shape, c.Counts, "pyw")
	c.PyR = genOps(t, c.Shape, c.Counts, "pyr")
	nm := 6
	if len(c.Shape) > 16 {
		nm = 2
	}
	for k := 0; k < nm; k++ {
		c.MW = append(c.MW, genMatlabOps(t, c.Shape, c.Counts, "writer"))
		c.MR = append(c.MR, genMatlabOps(t, c.Shape, c.Counts, "reader"))
	}
	if len(c.Shape) <= 16 {
		for k := 0; k < 5; k++ {
			c.MoreCppW = append(c.MoreCppW, genOps(t, c.Shape, c.Counts, "cppw"))
			c.MoreCppR = append(c.MoreCppR, genOps(t, c.Shape, c.Counts, "cppr"))
			c.MorePyW = append(c.MorePyW, genOps(t, c.Shape, c.Counts, "pyw"))
			c.MorePyR = append(c.MorePyR, genOps(t, c.Shape, c.Counts, "pyr"))
		}
	}
	return c
}

func shapePackage(shape []bool) *model.Package {
	d := &model.Def{Kind: model.DProtocol, Name: "Proto0"}
	for i, s := range shape {
		t := model.Prim("int32")
		if s {
			t = model.Stream(t)
		}
		d.Fields = append(d.Fields, model.Field{Name: fmt.Sprintf("s%d", i), Type: t})
	}
	return &model.Package{Namespace: "Mdl", DirName: "main", NumFiles: 1, Defs: []*model.Def{d}}
}

type stepRes struct {
	OK     bool   `json:"ok"`
	Items  []int  `json:"items"`
	Result bool   `json:"result"`
	Err    string `json:"err"`
}

func parseCppSteps(payload string) []stepRes {
	var out []stepRes
	for _, tok := range strings.Split(strings.TrimSuffix(strings.TrimSpace(payload), ";"), ";") {
		if tok == "" {
			continue
		}
		switch {
		case strings.HasPrefix(tok, "X:"):
			out = append(out, stepRes{OK: false, Err: tok[2:]})
		case tok == "N":
			out = append(out, stepRes{OK: false, Err: "driver: unknown op"})
		default:
			f := strings.Split(tok, ":")
			r := stepRes{OK: true}
			if len(f) >= 2 {
				switch f[1] {
				case "T":
					r.Result = true
				case "V":
					r.Result = true
				}
			}
			if len(f) >= 3 && f[2] != "" {
				for _, x := range strings.Split(f[2], ",") {
					v, _ := strconv.Atoi(x)
					r.Items = append(r.Items, v)
				}
			}
			out = append(out, r)
		}
	}
	return out
}

func c07Known(c C07Case, api string, opIdx int) string {
	if api == "C++ reader" && len(c.Shape) >= 128 {
		return "C07-cpp-reader-state-overflow"
	}
	if api == "C++ writer" && len(c.Shape) >= 256 {
		return "C07-cpp-reader-state-overflow"
	}
	return ""
}

func judge(c C07Case, api string, ops []ref.Op, res []stepRes, do func(ref.Op) ref.Outcome, checkData bool) *Fail {
	rec := core.Rec("C07")
	acceptedStream := false
	for i, op := range ops {
		want := do(op)
		if want.V == ref.Unspecified {
			rec.Class("unspecified-corner")
			return nil
		}
		if i >= len(res) {
			return failf("c07", "%s: the driver returned no result for call #%d %+v (shape %v)", api, i, op, shapeStr(c.Shape))
		}
		got := res[i]
		desc := func() string {
			return fmt.Sprintf("%s, shape %s, stream sizes %v, calls %s, call #%d = %+v", api, shapeStr(c.Shape), c.Counts, opsStr(ops[:i+1]), i, op)
		}
		switch want.V {
		case ref.Accept:
			if !got.OK {
				f := failf("c07", "a legal call was rejected: %s\n  error: %s", desc(), got.Err)
				f.KnownID = c07Known(c, api, i)
				return f
			}
			if checkData {
				if fmt.Sprint(want.Items) != fmt.Sprint(got.Items) && !(len(want.Items) == 0 && len(got.Items) == 0) {
					return failf("c07", "wrong data delivered: %s\n  expected %v got %v", desc(), want.Items, got.Items)
				}
				if (op.Kind == "R" || op.Kind == "B" || op.Kind == "I") && c.Shape[op.Step] && api != "Python reader R" && want.Result != got.Result && !(api == "Python reader" && op.Kind == "R") {
					return failf("c07", "wrong end-of-stream indication: %s\n  expected %v got %v", desc(), want.Result, got.Result)
				}
			}
			if c.Shape[minI(op.Step, len(c.Shape)-1)] && op.Kind != "C" {
				acceptedStream = true
			}
			rec.Class("accepted:" + api)
		case ref.Reject:
			if got.OK {
				f := failf("c07", "an out-of-order call was accepted: %s", desc())
				f.KnownID = c07Known(c, api, i)
				return f
			}
			rec.Class("rejected:" + api)
			if acceptedStream {
				rec.Nontrivial(core.Hash(api, c.Shape, ops))
			}
			return nil
		}
	}
	return nil
}

func shapeStr(shape []bool) string {
	if len(shape) > 16 {
		n := 0
		for _, s := range shape {
			if s {
				n++
			}
		}
		return fmt.Sprintf("(%d steps, %d streams)", len(shape), n)
	}
	var b strings.Builder
	for _, s := range shape {
		if s {
			b.WriteByte('S')
		} else {
			b.WriteByte('v')
		}
	}
	return b.String()
}

func opsStr(ops []ref.Op) string {
	if len(ops) > 24 {
		return "…" + opsStr(ops[len(ops)-24:])
	}
	var parts []string
	for _, o := range ops {
		s := fmt.Sprintf("%s%d", o.Kind, o.Step)
		if o.N != 0 {
			s += fmt.Sprintf("(%d)", o.N)
		}
		parts = append(parts, s)
	}
	return strings.Join(parts, " ")
}

func toSutOps(ops []ref.Op) []sut.Op {
	out := make([]sut.Op, len(ops))
	for i, o := range ops {
		out[i] = sut.Op{Kind: o.Kind, Step: o.Step, N: o.N}
	}
	return out
}

func checkC07(c C07Case) *Fail {
	rec := core.Rec("C07")
	p := shapePackage(c.Shape)
	b, err := sut.Generate(p, sut.BuildOpts{Python: true, Cpp: true, NDJson: false, Matlab: true})
	if b != nil {
		defer b.Cleanup()
	}
	if err != nil {
		return failf("c07-gen", "generate failed: %v", err)
	}
	if f := checkC07Matlab(c, b); f != nil {
		return f
	}
	// Python
	var pyJobs []sut.Job
	pyW, pyR := seqs(c.PyW, c.MorePyW), seqs(c.PyR, c.MorePyR)
	for _, ops := range pyW {
		pyJobs = append(pyJobs, sut.Job{Op: "steps", Proto: "Proto0", Side: "writer", Counts: c.Counts, Ops: toSutOps(ops)})
	}
	for _, ops := range pyR {
		pyJobs = append(pyJobs, sut.Job{Op: "steps", Proto: "Proto0", Side: "reader", Counts: c.Counts, Ops: toSutOps(ops)})
	}
	pyRes, err := b.RunPy(pyJobs)
	if err != nil {
		var ie *sut.ImportError
		if errors.As(err, &ie) {
			rec.Skip("python-does-not-build")
		} else {
			return failf("rt-harness", "python driver: %v", err)
		}
	} else {
		for k, ops := range pyW {
			var rw []stepRes
			json.Unmarshal(pyRes[k].Extra, &rw)
			pw := &ref.PyWriter{Shape: c.Shape}
			if f := judge(c, "Python writer", ops, rw, func(o ref.Op) ref.Outcome { return ref.Outcome{V: pw.Do(o)} }, false); f != nil {
				return f
			}
		}
		for k, ops := range pyR {
			var rr []stepRes
			json.Unmarshal(pyRes[len(pyW)+k].Extra, &rr)
			pr := &ref.PyReader{Shape: c.Shape, Counts: c.Counts}
			if f := judge(c, "Python reader", ops, rr, pr.Do, true); f != nil {
				return f
			}
		}
	}
	// C++
	decls, cmds := sut.StepsDriverCode(p)
	if err := b.BuildCpp(sut.CppOpts{ExtraDecls: decls, ExtraCmds: cmds}); err != nil {
		var ce *sut.CompileError
		if errors.As(err, &ce) {
			return failf("c07-gen", "C++ stubs do not compile: %v", core.Trunc(err.Error(), 1500))
		}
		return failf("rt-harness", "C++ build: %v", err)
	}
	cppW, cppR := seqs(c.CppW, c.MoreCppW), seqs(c.CppR, c.MoreCppR)
	var cppJobs []sut.Job
	for _, ops := range cppW {
		cppJobs = append(cppJobs, sut.Job{Op: "steps", Proto: "Proto0", Side: "writer", Counts: c.Counts, Ops: toSutOps(ops)})
	}
	for _, ops := range cppR {
		cppJobs = append(cppJobs, sut.Job{Op: "steps", Proto: "Proto0", Side: "reader", Counts: c.Counts, Ops: toSutOps(ops)})
	}
	cppRes, err := b.RunCpp(cppJobs)
	if err != nil {
		return failf("rt-harness", "C++ driver: %v", err)
	}
	for i, r := range cppRes {
		if !r.OK {
			return failf("c07", "C++ driver failed on job %d: %s", i, core.Trunc(r.Error, 800))
		}
	}
	for k, ops := range cppW {
		cw := &ref.CppWriter{Shape: c.Shape}
		if f := judge(c, "C++ writer", ops, parseCppSteps(cppRes[k].Error), func(o ref.Op) ref.Outcome { return ref.Outcome{V: cw.Do(o)} }, false); f != nil {
			return f
		}
	}
	for k, ops := range cppR {
		cr := &ref.CppReader{Shape: c.Shape, Counts: c.Counts}
		if f := judge(c, "C++ reader", ops, parseCppSteps(cppRes[len(cppW)+k].Error), cr.Do, true); f != nil {
			return f
		}
	}
	return nil
}

// checkC07Matlab executes the MATLAB call sequences against the generated base classes, structurally.
func checkC07Matlab(c C07Case, b *sut.Built) *Fail {
	rec := core.Rec("C07")
	if len(c.MW) == 0 && len(c.MR) == 0 {
		return nil
	}
	dir := filepath.Join(b.Root, "out", "m", "+mdl")
	load := func(name string) *ref.MatlabClass {
		src, err := os.ReadFile(filepath.Join(dir, name))
		if err != nil {
			rec.Skip("matlab-base-class-not-found")
			return nil
		}
		cl, err := ref.ParseMatlabClass(string(src))
		if err != nil {
			rec.Skip("matlab-outside-vocabulary")
			rec.Note("matlab " + name + ": " + err.Error())
			return nil
		}
		return cl
	}
	method := func(op ref.Op, side string) string {
		switch op.Kind {
		case "C":
			return "close"
		case "W":
			return fmt.Sprintf("write_s%d", op.Step)
		case "E":
			return fmt.Sprintf("end_s%d", op.Step)
		case "R":
			return fmt.Sprintf("read_s%d", op.Step)
		case "H":
			return fmt.Sprintf("has_s%d", op.Step)
		}
		return "?"
	}
	impl := func(op ref.Op) string {
		switch op.Kind {
		case "C":
			return "close_"
		case "E":
			return "end_stream_"
		}
		return method(op, "") + "_"
	}
	run := func(api string, cl *ref.MatlabClass, ops []ref.Op, do func(ref.Op) ref.Outcome) *Fail {
		r := ref.NewMatlabRun(cl)
		left := append([]int(nil), c.Counts...)
		r.More = func(callee string) bool {
			var k int
			fmt.Sscanf(callee, "has_s%d_", &k)
			return k < len(left) && left[k] > 0
		}
		acceptedStream := false
		for i, op := range ops {
			want := do(op)
			if want.V == ref.Unspecified {
				rec.Class("unspecified-corner")
				return nil
			}
			before := len(r.Calls)
			raised, known := r.Call(method(op, api))
			desc := func() string {
				return fmt.Sprintf("%s (generated MATLAB text, executed structurally), shape %s, stream sizes %v, calls %s, call #%d = %+v", api, shapeStr(c.Shape), c.Counts, opsStr(ops[:i+1]), i, op)
			}
			if !known {
				return failf("c07", "the generated class has no method %s: %s", method(op, api), desc())
			}
			if op.Kind == "R" && c.Shape[op.Step] && !raised && op.Step < len(left) {
				left[op.Step]--
			}
			switch want.V {
			case ref.Accept:
				if raised {
					return failf("c07", "a legal call was rejected: %s", desc())
				}
				if len(r.Calls) != before+1 || r.Calls[before] != impl(op) {
					return failf("c07", "a legal call did not reach the implementation method %s (reached %v): %s", impl(op), r.Calls[before:], desc())
				}
				if c.Shape[minI(op.Step, len(c.Shape)-1)] && op.Kind != "C" {
					acceptedStream = true
				}
				rec.Class("accepted:" + api)
			case ref.Reject:
				if !raised {
					return failf("c07", "an out-of-order call was accepted: %s", desc())
				}
				if op.Kind != "C" && len(r.Calls) != before {
					return failf("c07", "an out-of-order call reached the implementation (%v) before being rejected: %s", r.Calls[before:], desc())
				}
				rec.Class("rejected:" + api)
				if acceptedStream {
					rec.Nontrivial(core.Hash(api, c.Shape, ops))
				}
				return nil
			}
		}
		return nil
	}
	if cl := load("Proto0WriterBase.m"); cl != nil {
		for _, ops := range c.MW {
			w := &ref.MatlabWriter{Shape: c.Shape}
			if f := run("MATLAB writer", cl, ops, func(o ref.Op) ref.Outcome { return ref.Outcome{V: w.Do(o)} }); f != nil {
				return f
			}
		}
	}
	if cl := load("Proto0ReaderBase.m"); cl != nil {
		for _, ops := range c.MR {
			r := &ref.MatlabReader{Shape: c.Shape, Counts: c.Counts}
			if f := run("MATLAB reader", cl, ops, r.Do); f != nil {
				return f
			}
		}
	}
	return nil
}

func init() {
	registerReplay("c07", func(raw json.RawMessage) *Fail {
		var c C07Case
		if err := json.Unmarshal(raw, &c); err != nil {
			return failf("c07", "bad replay: %v", err)
		}
		return checkC07(c)
	})
}

func TestC07(t *testing.T) {
	rec := core.Rec("C07")
	rec.SetRule(c07Rule)
	rec.Assume("step payloads are int32: the step state machine does not depend on payload types", "error messages are not compared; MATLAB classes cannot be run (no interpreter): the step checks of the generated MATLAB base classes, written in a fixed statement vocabulary, are parsed and executed structurally (ref/matlab_steps.go); a file outside that vocabulary is skipped with a note", "corners left open by the documents are not judged: Python stream step that never received a call followed by the next step; C++ reader moving on / closing when every item was delivered but no read has returned false yet; zero-capacity batch reads")
	replayKnown(t, "C07")
	rapid.Check(t, func(rt *rapid.T) {
		c := genC07(rt)
		rec.Eval()
		ns := 0
		for _, s := range c.Shape {
			if s {
				ns++
			}
		}
		if ns >= 2 {
			rec.Nontrivial(core.Hash(c))
		}
		if len(c.Shape) > 100 {
			rec.Class("hostile-size")
		}
		rec.Sample(map[string]any{"shape": shapeStr(c.Shape), "counts_head": c.Counts[:minI(8, len(c.Counts))], "cpp_writer": opsStr(c.CppW), "cpp_reader": opsStr(c.CppR), "py_writer": opsStr(c.PyW), "py_reader": opsStr(c.PyR)})
		report(rt, rec, checkC07(c), c)
	})
}
