package checks

import (
	"encoding/json"
	"fmt"
	"os"
	"path/filepath"
	"sort"
	"strings"
	"testing"
	"time"

	"pgregory.net/rapid"
	"verif/harness/core"
	"verif/harness/model"
	"verif/harness/sut"
)

// C18 — package imports resolve correctly for every import graph.

type C18Case struct {
	N       int     `json:"n"`       // packages 0..N-1, 0 is the root
	Imports [][]int `json:"imports"` // ordered import lists
	Ns      []int   `json:"ns"`      // namespace id of each package (equal ids = same namespace)
	Style   [][]int `json:"style"`   // spelling of each import path: 0 relative, 1 absolute, 2 ./x/../x, 3 trailing slash
	Gen     string  `json:"gen"`
	// Depth: directory nesting of each package below the layout root (0: p<i>, 1: sub/p<i>, 2: sub/deep/p<i>);
	// relative import paths are relative to the importing package's own directory
	Depth []int `json:"depth,omitempty"`
	// Leaf: when set, package i lives in a directory named p<Leaf[i]> (two packages at different depths may
	// then share the directory name, so that one and the same relative path text - `../p3` - written in two
	// importers means two different packages)
	Leaf []int `json:"leaf,omitempty"`
	// Rogue: pairs (i, j): package i refers to a type of package j's namespace without importing j
	Rogue [][2]int `json:"rogue,omitempty"`
	// Usable: also generate C++ and Python for the root and check that the C++ types compile and the
	// Python package imports (the loaded packages are usable from their importers, in a workable order)
	Usable bool `json:"usable,omitempty"`
}

const importLimit = 10 // packaging.MaxImportRecursionDepth; re-stated here, checked against the source by TestC18Limit

const c18Rule = "import graphs: exhaustive (all adjacency matrices on up to 3 packages in quick, 4 in thorough, self-loops included, each with the declared order and a permuted order of every import list) and random (5-14 packages with chains of 8-12 edges around the limit, shortcuts, diamonds, cycles away from the root, two directories declaring one namespace, relative/absolute/redundant path spellings, a third of them with the packages at different directory depths so that relative paths differ per importer, half of those with two import edges whose relative path text is the same while the packages they mean differ: a directory name shared one level apart). oracle = reference loader over the abstract graph: reachable cycle or reachable namespace clash or every path to some package has more than 10 edges => error; all paths at most 9 edges and no cycle/clash => exit 0, model.json lists exactly the reachable namespaces once each with exactly their own definitions and cross-namespace references resolve; a package that refers to a namespace neither it nor its imports import must be rejected (all three-package graphs with such a reference, and a fifth of the random ones); for graphs with a shared import (exhaustive part) and one random graph in forty-eight C++ and Python are generated as well and the C++ types must compile and the Python package import (the loaded packages are usable from their importers); verdict and namespace->definitions map invariant under permutation of import lists. non-trivial = graph has a diamond, a cycle not through the root, a clash or a chain of at least 9 edges; distinct = canonical text of the graph"

func (c C18Case) dirOf(i int) string {
	d := 0
	if i < len(c.Depth) {
		d = c.Depth[i]
	}
	leaf := i
	if i < len(c.Leaf) {
		leaf = c.Leaf[i]
	}
	return []string{"", "sub/", "sub/deep/"}[d%3] + fmt.Sprintf("p%d", leaf)
}

func (c C18Case) layout(root string) model.Layout {
	l := model.Layout{}
	for i := 0; i < c.N; i++ {
		dir := c.dirOf(i)
		var m strings.Builder
		fmt.Fprintf(&m, "namespace: N%d\n", c.Ns[i])
		if len(c.Imports[i]) > 0 {
			m.WriteString("imports:\n")
			for k, j := range c.Imports[i] {
				st := 0
				if i < len(c.Style) && k < len(c.Style[i]) {
					st = c.Style[i][k]
				}
				var p string
				rel, _ := filepath.Rel(dir, c.dirOf(j))
				switch st {
				case 1:
					p = filepath.Join(root, c.dirOf(j))
				case 2:
					p = "./" + rel + "/../" + filepath.Base(c.dirOf(j))
				case 3:
					p = rel + "/"
				default:
					p = rel
				}
				fmt.Fprintf(&m, "  - %s\n", p)
			}
		}
		if i == 0 {
			m.WriteString("json:\n  outputDir: ../out\n")
			if c.Usable {
				m.WriteString("cpp:\n  sourcesOutputDir: ../out/cpp\n  overrideArrayHeader: verif_ndarray.h\n  generateHDF5: false\n  generateNDJson: false\n  generateCMakeLists: false\npython:\n  outputDir: ../out/py\n")
			}
		}
		var y strings.Builder
		// every package also offers generic types (one nested in the other) and uses those of its imports
		fmt.Fprintf(&y, "G%d<T>: !record\n  fields:\n    v: T\n    w: W%d<T>\n", i, i)
		fmt.Fprintf(&y, "R%d: !record\n  fields:\n    own: int\n", i)
		seen := map[int]bool{}
		for _, j := range c.Imports[i] {
			if seen[j] || c.Ns[j] == c.Ns[i] {
				continue
			}
			seen[j] = true
			fmt.Fprintf(&y, "    from%d: N%d.R%d\n", j, c.Ns[j], j)
			fmt.Fprintf(&y, "    gen%d: N%d.G%d<float>\n", j, c.Ns[j], j)
		}
		for _, rg := range c.Rogue {
			if rg[0] == i {
				fmt.Fprintf(&y, "    rogue%d: N%d.R%d\n", rg[1], c.Ns[rg[1]], rg[1])
			}
		}
		fmt.Fprintf(&y, "W%d<T>: !record\n  fields:\n    item: T\n", i)
		if i == 0 {
			y.WriteString("P: !protocol\n  sequence:\n    r: R0\n")
		}
		l[dir] = model.Files{"_package.yml": m.String(), "m.yml": y.String()}
	}
	return l
}

type c18Ref struct {
	// RogueTransitive: some package refers to a namespace it imports only indirectly: the verdict is left
	// open, only its independence of the import order is asserted
	RogueTransitive bool
	MustErr, MustOK bool
	Why             string
	Reachable       []int
}

func (c C18Case) reference() c18Ref {
	var r c18Ref
	// reachability
	reach := map[int]bool{0: true}
	stack := []int{0}
	for len(stack) > 0 {
		v := stack[len(stack)-1]
		stack = stack[:len(stack)-1]
		for _, w := range c.Imports[v] {
			if !reach[w] {
				reach[w] = true
				stack = append(stack, w)
			}
		}
	}
	for v := range reach {
		r.Reachable = append(r.Reachable, v)
	}
	sort.Ints(r.Reachable)
	// cycle among reachable nodes (colour DFS)
	colour := map[int]int{}
	var hasCycle func(v int) bool
	hasCycle = func(v int) bool {
		colour[v] = 1
		for _, w := range c.Imports[v] {
			if colour[w] == 1 {
				return true
			}
			if colour[w] == 0 && hasCycle(w) {
				return true
			}
		}
		colour[v] = 2
		return false
	}
	if hasCycle(0) {
		r.MustErr, r.Why = true, "cycle reachable from the root"
		return r
	}
	// namespace clash among reachable directories
	byNs := map[int]int{}
	for _, v := range r.Reachable {
		if o, ok := byNs[c.Ns[v]]; ok && o != v {
			r.MustErr, r.Why = true, fmt.Sprintf("namespace N%d declared by p%d and p%d", c.Ns[v], o, v)
			return r
		}
		byNs[c.Ns[v]] = v
	}
	// a reference to a namespace that the referring package does not import (directly or through its imports)
	for _, rg := range c.Rogue {
		i, j := rg[0], rg[1]
		if !reach[i] || c.Ns[i] == c.Ns[j] {
			continue
		}
		sub := map[int]bool{i: true}
		st := []int{i}
		for len(st) > 0 {
			v := st[len(st)-1]
			st = st[:len(st)-1]
			for _, w := range c.Imports[v] {
				if !sub[w] {
					sub[w] = true
					st = append(st, w)
				}
			}
		}
		imported := false
		for v := range sub {
			if v != i && c.Ns[v] == c.Ns[j] {
				imported = true
			}
		}
		if !imported {
			r.MustErr, r.Why = true, fmt.Sprintf("p%d refers to N%d without importing it", i, c.Ns[j])
			return r
		}
		r.RogueTransitive = true
	}
	// acyclic: shortest and longest path (in edges) from the root to every reachable node
	short := map[int]int{0: 0}
	long := map[int]int{0: 0}
	order := c.topo(r.Reachable)
	for _, v := range order {
		for _, w := range c.Imports[v] {
			if _, ok := short[w]; !ok || short[v]+1 < short[w] {
				short[w] = short[v] + 1
			}
			if long[v]+1 > long[w] {
				long[w] = long[v] + 1
			}
		}
	}
	maxShort, maxLong := 0, 0
	for _, v := range r.Reachable {
		if short[v] > maxShort {
			maxShort = short[v]
		}
		if long[v] > maxLong {
			maxLong = long[v]
		}
	}
	switch {
	case maxShort > importLimit:
		r.MustErr, r.Why = true, fmt.Sprintf("every path to some package has more than %d edges", importLimit)
	case r.RogueTransitive:
		r.Why = "a package refers to a namespace that only one of its imports imports: only order-independence is asserted"
	case maxLong < importLimit:
		r.MustOK, r.Why = true, "acyclic, no clash, all chains within the limit"
	default:
		r.Why = "some chain has at least the limit's number of edges but a shorter one exists (or exactly the limit): only order-independence is asserted"
	}
	return r
}

func (c C18Case) topo(nodes []int) []int {
	indeg := map[int]int{}
	in := map[int]bool{}
	for _, v := range nodes {
		in[v] = true
	}
	for _, v := range nodes {
		seen := map[int]bool{}
		for _, w := range c.Imports[v] {
			if in[w] && !seen[w] {
				seen[w] = true
				indeg[w]++
			}
		}
	}
	var q, out []int
	for _, v := range nodes {
		if indeg[v] == 0 {
			q = append(q, v)
		}
	}
	for len(q) > 0 {
		v := q[0]
		q = q[1:]
		out = append(out, v)
		seen := map[int]bool{}
		for _, w := range c.Imports[v] {
			if in[w] && !seen[w] {
				seen[w] = true
				indeg[w]--
				if indeg[w] == 0 {
					q = append(q, w)
				}
			}
		}
	}
	return out
}

type c18Obs struct {
	Unusable string // non-empty: generated C++ types do not compile / generated Python does not import
	Exit     int
	Out      string
	Ns       map[string][]string // namespace -> sorted type names (from model.json)
	Dup      string
}

func runC18(c C18Case) c18Obs {
	root := sut.TempDir("c18")
	defer os.RemoveAll(root)
	sut.WriteLayout(root, c.layout(root))
	r := sut.Yardl(filepath.Join(root, "p0"), "generate")
	o := c18Obs{Exit: r.Exit, Out: sut.StripANSI(r.Combined()), Ns: map[string][]string{}}
	if r.TimedOut {
		o.Exit = -9
	}
	if r.Exit == 0 && c.Usable {
		core.Rec("C18").Class("usability-checked")
		cppDir := filepath.Join(root, "out", "cpp")
		os.WriteFile(filepath.Join(cppDir, "verif_ndarray.h"), mustRead(filepath.Join(sut.VerifDir(), "shim", "verif_ndarray.h")), 0o644)
		g := sut.Run(cppDir, nil, 300*time.Second, nil, "g++", "-std=c++17", "-fsyntax-only", "-w", "-I"+filepath.Join(sut.VerifDir(), "shim"), "-I"+cppDir, "types.cc")
		if g.Exit != 0 {
			o.Unusable = "generated C++ types do not compile:\n" + firstErrors(g.Combined(), 5)
		} else if ok, e := pyTreeImports(sut.ReadTree(filepath.Join(root, "out"))); !ok {
			o.Unusable = "generated Python package does not import: " + e
		}
	}
	if r.Exit == 0 {
		data, err := os.ReadFile(filepath.Join(root, "out", "model.json"))
		if err == nil {
			var mj struct {
				Namespaces []struct {
					Name  string                       `json:"name"`
					Types []map[string]json.RawMessage `json:"types"`
				} `json:"namespaces"`
			}
			if json.Unmarshal(data, &mj) == nil {
				for _, ns := range mj.Namespaces {
					if _, dup := o.Ns[ns.Name]; dup {
						o.Dup = ns.Name
					}
					names := []string{}
					for _, t := range ns.Types {
						for _, body := range t {
							var b struct {
								Name string `json:"name"`
							}
							json.Unmarshal(body, &b)
							names = append(names, b.Name)
						}
					}
					sort.Strings(names)
					o.Ns[ns.Name] = names
				}
			}
		}
	}
	return o
}

func (c C18Case) permuted(perm func(n int) []int) C18Case {
	d := c
	d.Imports = make([][]int, c.N)
	d.Style = make([][]int, c.N)
	for i := range c.Imports {
		p := perm(len(c.Imports[i]))
		for _, k := range p {
			d.Imports[i] = append(d.Imports[i], c.Imports[i][k])
			st := 0
			if i < len(c.Style) && k < len(c.Style[i]) {
				st = c.Style[i][k]
			}
			d.Style[i] = append(d.Style[i], st)
		}
	}
	return d
}

func c18Known(ref c18Ref) string {
	if !ref.MustErr && !ref.MustOK {
		return "C18-depth-limit-order-dependent"
	}
	return ""
}

func checkC18(c C18Case) *Fail {
	ref := c.reference()
	obs := runC18(c)
	desc := fmt.Sprintf("graph %v ns %v", c.Imports, c.Ns)
	if obs.Exit == -9 {
		return failf("c18", "%s: loading did not terminate", desc)
	}
	if sut.HasPanic(obs.Out) || (obs.Exit != 0 && obs.Exit != 1) {
		return failf("c18", "%s: yardl aborted (exit %d):\n%s", desc, obs.Exit, core.Trunc(obs.Out, 1200))
	}
	if ref.MustErr && obs.Exit == 0 {
		return failf("c18", "%s: %s, but yardl exits 0", desc, ref.Why)
	}
	if ref.MustOK && obs.Exit != 0 {
		return failf("c18", "%s: %s, but yardl exits %d:\n%s", desc, ref.Why, obs.Exit, core.Trunc(obs.Out, 800))
	}
	if obs.Exit != 0 && len(diagnostics(obs.Out)) == 0 {
		return failf("c18", "%s: exit %d without an error naming a file:\n%s", desc, obs.Exit, core.Trunc(obs.Out, 600))
	}
	if obs.Exit == 0 && obs.Unusable != "" {
		return failf("c18", "%s: accepted, but the types of the imported packages are not usable from their importers: %s", desc, core.Trunc(obs.Unusable, 1200))
	}
	if obs.Exit == 0 {
		if obs.Dup != "" {
			return failf("c18", "%s: namespace %s loaded more than once", desc, obs.Dup)
		}
		want := map[string][]string{}
		for _, v := range ref.Reachable {
			want[fmt.Sprintf("N%d", c.Ns[v])] = []string{fmt.Sprintf("G%d", v), fmt.Sprintf("R%d", v), fmt.Sprintf("W%d", v)}
		}
		if !ref.MustErr && fmt.Sprint(want) != fmt.Sprint(obs.Ns) {
			return failf("c18", "%s: loaded namespaces/definitions %v, expected %v", desc, obs.Ns, want)
		}
	}
	// order independence: reversed and rotated import lists
	for name, perm := range map[string]func(n int) []int{
		"reversed": func(n int) []int {
			p := make([]int, n)
			for i := range p {
				p[i] = n - 1 - i
			}
			return p
		},
		"rotated": func(n int) []int {
			p := make([]int, n)
			for i := range p {
				p[i] = (i + 1) % n
			}
			return p
		},
	} {
		d := c.permuted(perm)
		if fmt.Sprint(d.Imports) == fmt.Sprint(c.Imports) {
			continue
		}
		d.Usable = c.Usable && name == "reversed"
		o2 := runC18(d)
		if o2.Exit == 0 && o2.Unusable != "" {
			return failf("c18", "%s: with %s import lists %v the package is accepted, but the types of the imported packages are not usable from their importers: %s", desc, name, d.Imports, core.Trunc(o2.Unusable, 1200))
		}
		if (o2.Exit == 0) != (obs.Exit == 0) {
			f := failf("c18", "%s: exit %d, but with %s import lists %v exit %d (%s)\n--- original\n%s\n--- %s\n%s", desc, obs.Exit, name, d.Imports, o2.Exit, ref.Why, core.Trunc(obs.Out, 500), name, core.Trunc(o2.Out, 500))
			f.KnownID = c18Known(ref)
			return f
		}
		if obs.Exit == 0 && fmt.Sprint(o2.Ns) != fmt.Sprint(obs.Ns) {
			return failf("c18", "%s: loaded definitions depend on import order: %v vs %v", desc, obs.Ns, o2.Ns)
		}
	}
	return nil
}

func (c C18Case) nontrivial() bool {
	ref := c.reference()
	indeg := map[int]int{}
	for _, v := range ref.Reachable {
		seen := map[int]bool{}
		for _, w := range c.Imports[v] {
			if !seen[w] {
				seen[w] = true
				indeg[w]++
			}
		}
	}
	for _, d := range indeg {
		if d >= 2 {
			return true // diamond / shared import
		}
	}
	if ref.MustErr || (!ref.MustOK) {
		return true
	}
	return len(ref.Reachable) >= 10
}

// sharedImport: some reachable package is imported by two different reachable packages
func (c C18Case) sharedImport() bool {
	ref := c.reference()
	indeg := map[int]int{}
	for _, v := range ref.Reachable {
		seen := map[int]bool{}
		for _, w := range c.Imports[v] {
			if !seen[w] && w != v {
				seen[w] = true
				indeg[w]++
			}
		}
	}
	shared := false
	for _, d := range indeg {
		if d >= 2 {
			shared = true
		}
	}
	if !shared || ref.MustErr {
		return false
	}
	// ... and is reached both by a short and by a longer path (acyclic here): the order in which the loaded
	// packages are handed to the generators has to respect the longer one
	short, long := map[int]int{0: 0}, map[int]int{0: 0}
	for _, v := range c.topo(ref.Reachable) {
		for _, w := range c.Imports[v] {
			if _, ok := short[w]; !ok || short[v]+1 < short[w] {
				short[w] = short[v] + 1
			}
			if long[v]+1 > long[w] {
				long[w] = long[v] + 1
			}
		}
	}
	for _, v := range ref.Reachable {
		if long[v] > short[v] {
			return true
		}
	}
	return false
}

func mustRead(p string) []byte {
	d, _ := os.ReadFile(p)
	return d
}

func enumGraph(n int, code uint64) C18Case {
	c := C18Case{N: n, Gen: "exhaustive", Imports: make([][]int, n), Ns: make([]int, n), Style: make([][]int, n)}
	for i := 0; i < n; i++ {
		c.Ns[i] = i
		for j := 0; j < n; j++ {
			if code&(1<<uint(i*n+j)) != 0 {
				c.Imports[i] = append(c.Imports[i], j)
			}
		}
	}
	return c
}

func genC18(t *rapid.T) C18Case {
	n := rapid.IntRange(5, 14).Draw(t, "n")
	c := C18Case{N: n, Gen: "random", Imports: make([][]int, n), Ns: make([]int, n), Style: make([][]int, n)}
	for i := range c.Ns {
		c.Ns[i] = i
	}
	add := func(i, j int) {
		for _, x := range c.Imports[i] {
			if x == j {
				return
			}
		}
		c.Imports[i] = append(c.Imports[i], j)
		c.Style[i] = append(c.Style[i], rapid.IntRange(0, 3).Draw(t, "style"))
	}
	// a chain 0 -> 1 -> ... -> L of generated length
	L := rapid.IntRange(1, n-1).Draw(t, "chain")
	for i := 0; i < L; i++ {
		add(i, i+1)
	}
	// remaining nodes hang somewhere
	for v := L + 1; v < n; v++ {
		add(rapid.IntRange(0, v-1).Draw(t, "parent"), v)
	}
	// extra edges: forward (shortcuts, diamonds) and occasionally backward (cycles)
	extra := rapid.IntRange(0, 6).Draw(t, "extra")
	for k := 0; k < extra; k++ {
		a := rapid.IntRange(0, n-1).Draw(t, "a")
		b := rapid.IntRange(0, n-1).Draw(t, "b")
		if a == b && rapid.IntRange(0, 3).Draw(t, "selfLoop") != 0 {
			continue
		}
		if b < a && rapid.IntRange(0, 3).Draw(t, "back") != 0 {
			a, b = b, a
		}
		add(a, b)
	}
	if rapid.IntRange(0, 2).Draw(t, "nested") == 0 {
		// packages at different directory depths (the root stays on top): relative import paths differ per importer
		c.Depth = make([]int, n)
		for i := 1; i < n; i++ {
			c.Depth[i] = rapid.IntRange(0, 2).Draw(t, "depth")
		}
		if rapid.Bool().Draw(t, "twins") {
			// two import edges a -> x and b -> y (x != y) whose relative path texts are made equal: x sits
			// beside a, y beside b one level further down, and y's directory takes x's name
			var edges [][2]int
			for a, l := range c.Imports {
				for _, x := range l {
					if x != 0 && x != a {
						edges = append(edges, [2]int{a, x})
					}
				}
			}
			if len(edges) >= 2 {
				e1 := edges[rapid.IntRange(0, len(edges)-1).Draw(t, "twinEdge1")]
				e2 := edges[rapid.IntRange(0, len(edges)-1).Draw(t, "twinEdge2")]
				a, x, b, y := e1[0], e1[1], e2[0], e2[1]
				if x != y && b != 0 && b != x && a != y && a != b && b != y {
					c.Depth[x] = c.Depth[a]
					c.Depth[b] = (c.Depth[a] + 1) % 3
					c.Depth[y] = c.Depth[b]
					c.Leaf = make([]int, n)
					for i := range c.Leaf {
						c.Leaf[i] = i
					}
					c.Leaf[y] = x
				}
			}
		}
	}
	if rapid.IntRange(0, 4).Draw(t, "rogue") == 0 {
		a := rapid.IntRange(0, n-1).Draw(t, "rogueFrom")
		b := rapid.IntRange(0, n-1).Draw(t, "rogueTo")
		if a != b {
			c.Rogue = append(c.Rogue, [2]int{a, b})
		}
	}
	c.Usable = rapid.IntRange(0, 47).Draw(t, "usable") == 0
	if rapid.IntRange(0, 5).Draw(t, "clash") == 0 {
		a := rapid.IntRange(1, n-1).Draw(t, "clashA")
		b := rapid.IntRange(0, n-1).Draw(t, "clashB")
		if a != b {
			c.Ns[a] = c.Ns[b]
		}
	}
	return c
}

func init() {
	registerReplay("c18", func(raw json.RawMessage) *Fail {
		var c C18Case
		if err := json.Unmarshal(raw, &c); err != nil {
			return failf("c18", "bad replay: %v", err)
		}
		return checkC18(c)
	})
}

func TestC18(t *testing.T) {
	rec := core.Rec("C18")
	rec.SetRule(c18Rule)
	rec.Assume("the nesting limit is packaging.MaxImportRecursionDepth = 10; exactly 10 edges, or a long chain next to a shorter path to the same package, is left unconstrained except for order-independence")
	replayKnown(t, "C18")

	// exhaustive part, partitioned over shards
	shard, nshards := 0, 1
	fmt.Sscan(os.Getenv("VERIF_SHARD"), &shard)
	fmt.Sscan(os.Getenv("VERIF_NSHARDS"), &nshards)
	if nshards < 1 {
		nshards = 1
	}
	maxN := 3
	if core.Thorough() {
		maxN = 4
	}
	idx := 0
	for n := 1; n <= maxN; n++ {
		for code := uint64(0); code < 1<<uint(n*n); code++ {
			idx++
			if idx%nshards != shard {
				continue
			}
			c := enumGraph(n, code)
			c.Usable = n == 3 && c.sharedImport() // (four packages: 65 536 graphs, the usability leg would take an hour)
			rec.Eval()
			if c.nontrivial() {
				rec.Nontrivial(core.Hash(c.Imports, c.Ns))
			}
			variants := []C18Case{c}
			if n == 3 {
				// the same graph with one package referring to a sibling's namespace it may or may not import
				// ... and with the three packages at three different directory depths
				nd := c
				nd.Depth = []int{0, 1, 2}
				nd.Usable = false
				variants = append(variants, nd)
				for _, rg := range [][2]int{{1, 2}, {2, 1}, {0, 2}} {
					d := c
					d.Rogue = [][2]int{rg}
					d.Usable = false
					variants = append(variants, d)
				}
			}
			for _, c := range variants {
				if len(c.Rogue) > 0 {
					rec.Eval()
					rec.Class("exhaustive:rogue-reference")
				} else if len(c.Depth) > 0 {
					rec.Eval()
					rec.Class("exhaustive:nested-directories")
				}
				if f := checkC18(c); f != nil {
					if f.KnownID != "" && core.Open(f.KnownID) {
						rec.Known(f.KnownID, knownWhat(f.KnownID))
						continue
					}
					t.Fatalf("%s", rec.Violate(f.Check, c, "%s", f.Msg))
				}
			}
		}
	}
	rec.Class(fmt.Sprintf("exhaustive<=%d", maxN))
	rec.Exhaustive()

	rapid.Check(t, func(rt *rapid.T) {
		c := genC18(rt)
		rec.Eval()
		ref := c.reference()
		switch {
		case ref.MustErr:
			rec.Class("ref:error")
		case ref.MustOK:
			rec.Class("ref:ok")
		default:
			rec.Class("ref:unconstrained")
		}
		if c.nontrivial() {
			rec.Nontrivial(core.Hash(c.Imports, c.Ns))
			rec.Sample(map[string]any{"imports": c.Imports, "ns": c.Ns, "expect": ref.Why})
		}
		if len(c.Depth) > 0 {
			rec.Class("random:nested-directories")
		}
		if len(c.Leaf) > 0 {
			rec.Class("random:same-relative-path-two-packages")
		}
		report(rt, rec, checkC18(c), c)
	})
}
