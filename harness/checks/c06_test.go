package checks

import (
	"encoding/json"
	"fmt"
	"os"
	"path/filepath"
	"sort"
	"strings"
	"testing"

	"pgregory.net/rapid"
	"verif/harness/core"
	"verif/harness/model"
	"verif/harness/sut"
)

// C06 — evolution verdicts are total, deterministic, reflexive, and follow the documented classes.

type C06Case struct {
	Gen    string       `json:"gen"`   // self | rewrite | edit | arbitrary
	Edit   string       `json:"edit"`  // name of the edit / rewrite
	Class  string       `json:"class"` // expected: compatible | warning | error | any
	Where  string       `json:"where"`
	Detail string       `json:"detail"` // make-(non-)optional: kind of the type being wrapped when it is not a scalar
	Ctx    string       `json:"ctx"`    // constructors wrapping the edited definition on some path from a protocol
	Layout model.Layout `json:"layout"` // main = new version, v0 = old version
}

const c06Rule = "pairs (old, new) of individually valid generated models: self (new = old), rewrite (new = old with definitions/files permuted, a type renamed with an alias keeping the old name, unused types added, comments changed), edit (new = old + one edit of docs/cpp/evolution.md at a generated position in a definition reachable from a protocol; the type-argument edit also in a two-sided form in which the old and the new model name their instantiation through closed aliases of different names), arbitrary (two independent models sharing names). oracle: CLI never aborts, exit in {0,1}, identical output on 3 runs; self/rewrite => exit 0 with no warning/error; edit => verdict of its documented class (compatible: exit 0 silent; partially compatible: exit 0 with >=1 warning; incompatible: exit 1 with >=1 error). non-trivial = gen != self and the edit position is below the top level of a protocol step (inside a record/enum/union/generic) or the pair is a rewrite; distinct = hash of both versions"

func genC06(t *rapid.T) (C06Case, bool) {
	cfg := model.DefaultGen()
	cfg.MaxImports = 1
	cfg.ArgRefPct = 30 // generics instantiated with records/enums, so that an edit inside one is seen through a type argument
	cfg.TwiceGenericPct = 30 // one generic record or alias instantiated twice; the second argument type is used nowhere else
	old := model.GenPackage(t, &cfg)
	c := C06Case{Gen: rapid.SampledFrom([]string{"self", "rewrite", "rewrite", "edit", "edit", "edit", "edit", "edit", "arbitrary"}).Draw(t, "gen")}
	neu := old.Clone()
	c.Class = "compatible"
	newOpts := model.EmitOptions{}
	switch c.Gen {
	case "self":
		c.Edit = "none"
	case "rewrite":
		kind := rapid.SampledFrom([]string{"permute", "rename-through-alias", "add-unused", "comments", "respell"}).Draw(t, "rewrite")
		c.Edit = kind
		switch kind {
		case "permute":
			n := len(neu.Defs)
			newOpts.Order = rapid.Permutation(seq(n)).Draw(t, "order")
			nf := rapid.IntRange(1, 3).Draw(t, "files")
			newOpts.FileOf = make([]int, n)
			for i := range newOpts.FileOf {
				newOpts.FileOf[i] = rapid.IntRange(0, nf-1).Draw(t, "fileOf")
			}
			newOpts.FileNames = model.DefaultFileNames(nf)
		case "rename-through-alias":
			for _, e := range model.EvoEdits {
				if e.Name == "rename-through-alias" {
					w, ok := e.Apply(t, neu, model.NewEnv(neu))
					if !ok {
						return c, false
					}
					c.Where = w
				}
			}
		case "add-unused":
			neu.Defs = append(neu.Defs, &model.Def{Kind: model.DRecord, Name: "UnusedRec", Fields: []model.Field{{Name: "a", Type: model.Prim("int32")}}},
				&model.Def{Kind: model.DEnum, Name: "UnusedEnum", ListValues: true, Values: []model.EnumVal{{Symbol: "a"}, {Symbol: "b", Value: 1, UValue: 1}}},
				&model.Def{Kind: model.DAlias, Name: "UnusedAlias", Type: model.Vector(model.Ref("Main", "UnusedRec"))})
		case "comments":
			for _, d := range neu.Defs {
				d.Comment = "changed comment " + d.Name
				for i := range d.Fields {
					d.Fields[i].Comment = "changed"
				}
			}
		case "respell":
			newOpts.Ch = rapidChooser(t)
		}
	case "edit":
		e := model.EvoEdits[rapid.IntRange(0, len(model.EvoEdits)-1).Draw(t, "edit")]
		var w string
		var ok bool
		if e.Name == "change-type-argument-via-alias" && rapid.Bool().Draw(t, "betweenAliases") {
			// both sides name their instantiation through a closed alias, of different names
			e.Name = "change-type-argument-between-aliases"
			w, ok = model.ChangeTypeArgBetweenAliases(t, old, neu)
		} else {
			w, ok = e.Apply(t, neu, model.NewEnv(neu))
		}
		if !ok {
			return c, false
		}
		c.Edit, c.Class, c.Where = e.Name, e.Class, w
		defName := strings.SplitN(w, ".", 2)[0]
		var cs []string
		for k := range model.NewEnv(neu).UseContexts()["Main."+defName] {
			cs = append(cs, k)
		}
		sort.Strings(cs)
		c.Ctx = strings.Join(cs, ",")
		// docs/cpp/evolution.md says nothing about types used as map keys/values or array items:
		// there only totality and determinism are asserted
		// (nor about changed types passed as generic arguments: it only lists "changing the type
		// arguments" as incompatible)
		// An incompatible edit stays incompatible when the edited type is (also) reached through a
		// generic argument: "recursively detects changes to named types".
		if strings.Contains(c.Ctx, "map") || strings.Contains(c.Ctx, "array") || (strings.Contains(c.Ctx, "arg") && c.Class != "error") {
			c.Class = "any"
		}
		if i := strings.Index(w, "."); i >= 0 && (e.Name == "make-optional" || e.Name == "make-non-optional") {
			if d := neu.Find(w[:i]); d != nil {
				for _, f := range d.Fields {
					if f.Name == w[i+1:] {
						inner := f.Type
						if inner.Kind == model.KOptional {
							inner = inner.Elem
						}
						switch model.NewEnv(neu).Underlying(inner).Kind {
						case model.KVector:
							c.Detail = "vector"
						case model.KArray:
							c.Detail = "array"
						case model.KMap:
							c.Detail = "map"
						}
					}
				}
			}
		}
	case "arbitrary":
		cfg2 := model.DefaultGen()
		cfg2.MaxImports = 0
		other := model.GenPackage(t, &cfg2)
		// same definition names (generated names follow one scheme), different content
		neu = other
		neu.Imports = old.Imports
		c.Edit, c.Class = "independent", "any"
	}
	oldV := old.Clone()
	oldV.DirName = "v0"
	neu.Versions = []model.Version{{Label: "v0", Pkg: oldV}}
	c.Layout = model.EmitLayout(neu, newOpts)
	return c, true
}

// c06Known maps (edit, observed) to known-finding ids; see known_findings.json.
func c06Known(c C06Case, observed, out string) string {
	switch {
	case (c.Edit == "make-optional" || c.Edit == "make-non-optional") && c.Detail != "" && observed == "error" && strings.Contains(out, "is not backward compatible"):
		return "C06-optional-of-nonscalar"
	}
	return ""
}

func checkC06(c C06Case) *Fail {
	var res *Fail
	root := sut.TempDir("c06")
	defer os.RemoveAll(root)
	sut.WriteLayout(root, c.Layout)
	pkg := filepath.Join(root, "main")
	// the old version on its own must be valid, otherwise the pair is outside the property's domain
	ro := sut.Yardl(filepath.Join(root, "v0"), "validate")
	if ro.Exit != 0 {
		return failf("c06-gen", "old version invalid on its own (harness fault):\n%s", core.Trunc(sut.StripANSI(ro.Combined()), 600))
	}
	var first string
	var firstExit int
	for i := 0; i < 3; i++ {
		r := sut.Yardl(pkg, "validate")
		out := sut.StripANSI(r.Combined())
		if r.TimedOut {
			return failf("c06", "validate timed out (%s %s)", c.Gen, c.Edit)
		}
		if sut.HasPanic(out) || (r.Exit != 0 && r.Exit != 1) {
			return failf("c06", "%s/%s at %s: yardl aborted (exit %d):\n%s", c.Gen, c.Edit, c.Where, r.Exit, core.Trunc(out, 1500))
		}
		if i == 0 {
			first, firstExit = out, r.Exit
			continue
		}
		if out != first || r.Exit != firstExit {
			return failf("c06", "%s/%s: verdict not deterministic:\n--- run 0 (exit %d)\n%s\n--- run %d (exit %d)\n%s", c.Gen, c.Edit, firstExit, core.Trunc(first, 800), i, r.Exit, core.Trunc(out, 800))
		}
	}
	nWarn := strings.Count(first, "⚠")
	nErr := strings.Count(first, "❌")
	observed := "compatible"
	switch {
	case firstExit != 0:
		observed = "error"
	case nWarn > 0:
		observed = "warning"
	}
	if firstExit != 0 && nErr == 0 {
		return failf("c06", "%s/%s: exit %d without any error line:\n%s", c.Gen, c.Edit, firstExit, core.Trunc(first, 600))
	}
	core.Rec("C06").Class(fmt.Sprintf("%s:%s[%s]->%s", c.Gen, c.Edit, c.Ctx, observed))
	if os.Getenv("VERIF_SURVEY") == "1" {
		return nil
	}
	if c.Class != "any" && observed != c.Class {
		if c.Gen == "edit" && firstExit != 0 && c.Class != "error" {
			// a new version that is invalid on its own is not an evolution verdict (harness fault)
			rn := validateAlone(c.Layout)
			if rn != "" {
				return failf("c06-gen", "edit %s produced an invalid new model:\n%s", c.Edit, rn)
			}
		}
		res = failf("c06", "%s/%s at %s: documented class %q but yardl's verdict is %q (exit %d, %d warnings, %d errors):\n%s\n--- new\n%s\n--- old\n%s", c.Gen, c.Edit, c.Where, c.Class, observed, firstExit, nWarn, nErr,
			core.Trunc(first, 1200), core.Trunc(c.Layout["main"].Text(), 1800), core.Trunc(c.Layout["v0"].Text(), 1800))
		res.KnownID = c06Known(c, observed, first)
	}
	return res
}

// validateAlone validates the new model without its versions; returns the error text or "".
func validateAlone(l model.Layout) string {
	l2 := model.Layout{}
	for d, fs := range l {
		nf := model.Files{}
		for n, s := range fs {
			nf[n] = s
		}
		l2[d] = nf
	}
	m := l2["main"]["_package.yml"]
	if i := strings.Index(m, "versions:"); i >= 0 {
		m = m[:i]
	}
	l2["main"]["_package.yml"] = m
	out := ""
	withTempLayout("c06a", l2, func(root string) {
		r := sut.Yardl(filepath.Join(root, "main"), "validate")
		if r.Exit != 0 {
			out = core.Trunc(sut.StripANSI(r.Combined()), 800)
		}
	})
	return out
}

func init() {
	fn := func(raw json.RawMessage) *Fail {
		var c C06Case
		if err := json.Unmarshal(raw, &c); err != nil {
			return failf("c06", "bad replay: %v", err)
		}
		return checkC06(c)
	}
	registerReplay("c06", fn)
	registerReplay("c06-gen", fn)
}

func TestC06(t *testing.T) {
	rec := core.Rec("C06")
	rec.SetRule(c06Rule)
	rec.Assume("the edit classes are those docs/cpp/evolution.md states unambiguously; positions the document is silent about (array items, map keys/values) are only checked for totality and determinism")
	replayKnown(t, "C06")
	rapid.Check(t, func(rt *rapid.T) {
		c, ok := genC06(rt)
		if !ok {
			rec.Class("inapplicable")
			return
		}
		rec.Eval()
		if c.Gen == "rewrite" || c.Gen == "arbitrary" || (c.Gen == "edit" && strings.Contains(c.Where, ".") && !strings.HasPrefix(c.Where, "Proto")) || (c.Gen == "edit" && !strings.Contains(c.Where, ".")) {
			rec.Nontrivial(layoutHash(c.Layout))
			rec.Sample(map[string]any{"gen": c.Gen, "edit": c.Edit, "class": c.Class, "where": c.Where, "new": core.Trunc(c.Layout["main"].Text(), 400)})
		}
		report(rt, rec, checkC06(c), c)
	})
}
