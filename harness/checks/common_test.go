package checks

import (
	"encoding/json"
	"fmt"
	"os"
	"path/filepath"
	"regexp"
	"strings"
	"testing"

	"pgregory.net/rapid"
	"verif/harness/core"
	"verif/harness/model"
	"verif/harness/sut"
)

// Fail describes one oracle failure. KnownID, when non-empty, is the id of the known finding
// whose root cause this failure matches (decided by the oracle from the failure's signature).
type Fail struct {
	Check   string
	Msg     string
	KnownID string
}

func failf(check, format string, args ...any) *Fail {
	return &Fail{Check: check, Msg: fmt.Sprintf(format, args...)}
}

// report handles a failure inside a rapid property: known findings are counted and tolerated,
// anything else becomes a violation with a replay file.
func report(rt *rapid.T, rec *core.Recorder, f *Fail, c any) {
	if f == nil {
		return
	}
	if f.KnownID == "" {
		if h, ok := c.(interface{ rtPkg() *model.Package }); ok {
			f.KnownID = rtKnown(f, h.rtPkg())
		}
	}
	if f.KnownID != "" && core.Open(f.KnownID) {
		rec.Known(f.KnownID, knownWhat(f.KnownID))
		return
	}
	rt.Fatalf("%s", rec.Violate(f.Check, c, "%s", f.Msg))
}

func knownWhat(id string) string {
	for _, f := range core.AllFindings() {
		if f.ID == id {
			return f.What
		}
	}
	return id
}

// replayFn re-runs one saved case through the same oracle that found it.
type replayFn func(raw json.RawMessage) *Fail

var replayers = map[string]replayFn{}

func registerReplay(check string, fn replayFn) { replayers[check] = fn }

type replayFile struct {
	Property string          `json:"property"`
	Check    string          `json:"check"`
	Message  string          `json:"message"`
	Case     json.RawMessage `json:"case"`
}

func loadReplay(path string) (*replayFile, error) {
	data, err := os.ReadFile(path)
	if err != nil {
		return nil, err
	}
	var rf replayFile
	if err := json.Unmarshal(data, &rf); err != nil {
		return nil, err
	}
	return &rf, nil
}

// replayKnown runs the committed replays of the findings listed for a property.
// open finding still failing  -> KNOWN-FINDING line (via recorder), no violation
// open finding now passing    -> note
// fixed finding failing again -> violation
func replayKnown(t *testing.T, property string) {
	// the replays are dealt out over the shards (each is run by exactly one of them)
	shard, nshards := 0, 1
	fmt.Sscan(os.Getenv("VERIF_SHARD"), &shard)
	fmt.Sscan(os.Getenv("VERIF_NSHARDS"), &nshards)
	if nshards < 1 {
		nshards = 1
	}
	rec := core.Rec(property)
	idx := -1
	for _, f := range core.AllFindings() {
		applies := f.Property == property
		for _, a := range f.Also {
			if a == property {
				applies = true
			}
		}
		if !applies || f.Replay == "" {
			continue
		}
		p := f.Replay
		if !filepath.IsAbs(p) {
			p = filepath.Join(core.VerifDir(), p)
		}
		rf, err := loadReplay(p)
		if err != nil {
			t.Fatalf("known finding %s: cannot load replay %s: %v", f.ID, p, err)
		}
		if rf.Property != property {
			continue // replayed by the property that owns the replay's oracle
		}
		idx++
		if idx%nshards != shard%nshards {
			continue
		}
		fn := replayers[rf.Check]
		if fn == nil {
			t.Fatalf("known finding %s: no replayer for check %q", f.ID, rf.Check)
		}
		res := fn(rf.Case)
		rec.Class("replay:" + f.Status)
		switch {
		case f.Status == "open" && res != nil:
			rec.Known(f.ID, f.What)
		case f.Status == "open" && res == nil:
			rec.Note("open finding " + f.ID + " no longer reproduces from its replay")
		case f.Status == "fixed" && res != nil:
			rec.Violate(rf.Check, rf.Case, "regression of fixed finding %s: %s", f.ID, res.Msg)
			// stop this shard here: rapid refuses to run under a *testing.T that has already failed, and its
			// panic would end the process before the recorder is flushed
			t.Fatalf("regression of fixed finding %s: %s", f.ID, res.Msg)
		}
	}
}

// TestReplayFile: ./verif replay <file>
func TestReplayFile(t *testing.T) {
	path := os.Getenv("VERIF_REPLAY")
	if path == "" {
		t.Skip("VERIF_REPLAY not set")
	}
	rf, err := loadReplay(path)
	if err != nil {
		t.Fatal(err)
	}
	fn := replayers[rf.Check]
	if fn == nil {
		t.Fatalf("no replayer for check %q", rf.Check)
	}
	if f := fn(rf.Case); f != nil {
		t.Fatalf("REPRODUCED %s/%s: %s", rf.Property, f.Check, f.Msg)
	}
	t.Logf("replay passes: %s/%s", rf.Property, rf.Check)
}

// ---------------------------------------------------------------------------------------

func rapidChooser(t *rapid.T) model.Chooser {
	return func(n int) int {
		if n <= 1 {
			return 0
		}
		return rapid.IntRange(0, n-1).Draw(t, "spell")
	}
}

// seededChooser is a deterministic chooser driven by a recorded choice list (replayable).
type choiceTape struct {
	Tape []int
	pos  int
}

func (c *choiceTape) chooser() model.Chooser {
	return func(n int) int {
		if n <= 1 {
			return 0
		}
		if c.pos >= len(c.Tape) {
			return 0
		}
		v := c.Tape[c.pos] % n
		c.pos++
		return v
	}
}

func drawTape(t *rapid.T, n int) []int {
	return rapid.SliceOfN(rapid.IntRange(0, 5), n, n).Draw(t, "tape")
}

var errLineRe = regexp.MustCompile(`❌ ([^\n]*?\.(?:yml|yaml))(:\d+)?(:\d+)?:? `)

// diagnostics extracts (file, hasLine) pairs from yardl's error output.
type diag struct {
	File    string
	HasLine bool
	Line    string
}

func diagnostics(out string) []diag {
	var ds []diag
	for _, m := range errLineRe.FindAllStringSubmatch(out, -1) {
		ds = append(ds, diag{File: m[1], HasLine: m[2] != "", Line: strings.TrimPrefix(m[2], ":")})
	}
	return ds
}

func withTempLayout(prefix string, l model.Layout, fn func(root string)) {
	dir := sut.TempDir(prefix)
	defer os.RemoveAll(dir)
	sut.WriteLayout(dir, l)
	fn(dir)
}

func layoutHash(l model.Layout) uint64 { return core.Hash(l.Text()) }
