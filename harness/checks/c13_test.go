package checks

import (
	"encoding/json"
	"fmt"
	"os"
	"path/filepath"
	"regexp"
	"sort"
	"strings"
	"testing"
	"time"

	"pgregory.net/rapid"
	"verif/harness/core"
	"verif/harness/model"
	"verif/harness/ref"
	"verif/harness/sut"
	"verif/harness/value"
)

// C13 — alternative spellings are the same model.
//   syntax: shorthand vs expanded type syntax, primitive aliases, T? vs [null, T], Foo<int> vs
//           !generic, quoting, flow vs block, blank lines and non-documentation comments
//           => same verdict, byte-identical generated trees
//   layout: order of definitions, distribution over files
//           => same verdict, identical embedded schemas (and wire behaviour, see C01 legs)

type C13Case struct {
	Mode    string       `json:"mode"`
	Invalid string       `json:"invalid"` // injected rule ("" = valid model)
	A       model.Layout `json:"a"`
	B       model.Layout `json:"b"`
	// mode layout-wire: the model itself, value sequences for its protocols and the second layout;
	// both layouts are generated and the generated Python code must behave identically on the wire
	Pkg       *model.Package `json:"pkg,omitempty"`
	Runs      []RTRun        `json:"runs,omitempty"`
	Order     []int          `json:"order,omitempty"`
	FileOf    []int          `json:"file_of,omitempty"`
	FileNames []string       `json:"file_names,omitempty"`
}

const c13Outputs = "cpp:\n  sourcesOutputDir: ../out/cpp\n  generateHDF5: true\npython:\n  outputDir: ../out/py\nmatlab:\n  outputDir: ../out/m\njson:\n  outputDir: ../out/json\n"

const c13Rule = "one generated model IR emitted twice: mode syntax = plain spelling vs a spelling with a random choice at every decision point (shorthand/expanded per type node, primitive alias names, quoting style, flow/block, !generic, [null, T], dimension syntaxes, hex enum values) plus noise comments and blank lines, in a quarter of the cases with the definitions of a file spread over several YAML documents; mode layout = random permutation of definitions and random redistribution over 1-4 files; 1 in 5 cases carries an injected rule violation (both spellings must be rejected). oracle: same exit status; syntax => all generated files byte-identical (model.json compared without source positions); layout => schema literal of every protocol identical in C++, Python and MATLAB output, and the generated Python package imports for one ordering iff it does for the other; one case in eight (mode layout-wire) draws the model from the run-time generator with value sequences, generates both layouts and requires the generated Python code of both to copy the same reference-encoded streams to byte-identical binary and NDJSON output. non-trivial = the two texts differ in at least 3 lines and the model has a union, an array or a generic; distinct = hash of both texts"

func noise(t *rapid.T, files model.Files) model.Files {
	out := model.Files{}
	for name, txt := range files {
		if name == "_package.yml" || !rapid.Bool().Draw(t, "noiseFile") {
			out[name] = txt
			continue
		}
		lines := strings.Split(txt, "\n")
		var b strings.Builder
		b.WriteString("# a leading comment that documents nothing\n\n")
		for _, l := range lines {
			// a blank line in the emitted text separates definitions: a comment put there, followed
			// by another blank line, is not attached to anything
			if l == "" && rapid.IntRange(0, 2).Draw(t, "noiseAt") == 0 {
				b.WriteString("\n# ---- section ----\n\n")
				continue
			}
			b.WriteString(l + "\n")
		}
		out[name] = strings.TrimRight(b.String(), "\n") + "\n"
	}
	return out
}

// genC13Wire: a model from the run-time generator (every shape the generated Python code handles), value
// sequences for its protocols, and a second ordering / file distribution of its definitions.
func genC13Wire(t *rapid.T) C13Case {
	cfg := rtGenConfig()
	applyRuntimeExclusions(&cfg)
	rc := genRTCase(t, &cfg, 1, valueOpts(value.GenOpts{Budget: 30, FiniteFloats: true}, true), 5)
	c := C13Case{Mode: "layout-wire", Pkg: rc.Pkg, Runs: rc.Runs}
	n := len(rc.Pkg.Defs)
	c.Order = rapid.Permutation(seq(n)).Draw(t, "order")
	if rapid.IntRange(0, 2).Draw(t, "orderKind") == 0 {
		for i := range c.Order {
			c.Order[i] = n - 1 - i
		}
	}
	nf := rapid.IntRange(1, 4).Draw(t, "files")
	c.FileOf = make([]int, n)
	for i := range c.FileOf {
		c.FileOf[i] = rapid.IntRange(0, nf-1).Draw(t, "fileOf")
	}
	c.FileNames = []string{"a.yml", "sub/b.yaml", "z_last.yml", "sub/deep/c.yml"}[:nf]
	c.A = model.EmitLayout(rc.Pkg, model.EmitOptions{})
	c.B = model.EmitLayout(rc.Pkg, model.EmitOptions{Order: c.Order, FileOf: c.FileOf, FileNames: c.FileNames})
	return c
}

// checkC13Wire: "reordering or re-splitting definitions yields identical wire behaviour": the Python code
// generated from either layout copies reference-encoded streams to byte-identical binary and NDJSON output.
func checkC13Wire(c C13Case) *Fail {
	rec := core.Rec("C13")
	ba, errA := sut.Generate(c.Pkg, sut.BuildOpts{Python: true, NDJson: true})
	if ba != nil {
		defer ba.Cleanup()
	}
	bb, errB := sut.Generate(c.Pkg, sut.BuildOpts{Python: true, NDJson: true, Emit: &model.EmitOptions{Order: c.Order, FileOf: c.FileOf, FileNames: c.FileNames}})
	if bb != nil {
		defer bb.Cleanup()
	}
	if (errA == nil) != (errB == nil) {
		return failf("c13", "mode layout-wire: one layout of the model is accepted, the other is not:\n--- A: %v\n--- B: %v\n--- ordering B\n%s", errA, errB, core.Trunc(c.B["main"].Text(), 2500))
	}
	if errA != nil {
		return failf("c13-gen", "generated model rejected (harness generator fault): %v", errA)
	}
	mk := func(b *sut.Built) ([]sut.Job, *Fail) {
		var jobs []sut.Job
		for i, run := range c.Runs {
			proto := b.Pkg.Find(run.Proto)
			in := filepath.Join(b.Root, fmt.Sprintf("in%d.bin", i))
			os.WriteFile(in, ref.EncodeProtocol(b.Env, proto, b.Schemas[run.Proto], run.Steps), 0o644)
			jobs = append(jobs, sut.Job{Op: "copy", Proto: run.Proto, InFmt: "binary", OutFmt: "binary", In: in, Out: filepath.Join(b.Root, fmt.Sprintf("out%d.bin", i))},
				sut.Job{Op: "copy", Proto: run.Proto, InFmt: "binary", OutFmt: "ndjson", In: in, Out: filepath.Join(b.Root, fmt.Sprintf("out%d.ndjson", i))})
		}
		return jobs, nil
	}
	for _, run := range c.Runs {
		if ba.Schemas[run.Proto] != bb.Schemas[run.Proto] {
			return failf("c13", "reordering/re-splitting definitions changed the schema of protocol %s:\n--- A\n%s\n--- B\n%s", run.Proto, core.Trunc(ba.Schemas[run.Proto], 1200), core.Trunc(bb.Schemas[run.Proto], 1200))
		}
	}
	ja, _ := mk(ba)
	jb, _ := mk(bb)
	ra, ea := ba.RunPy(ja)
	rb, eb := bb.RunPy(jb)
	if (ea == nil) != (eb == nil) {
		return failf("c13", "the Python package generated from one ordering of the definitions runs, from the other it does not:\n--- A: %v\n--- B: %v\n--- ordering B of the model\n%s", ea, eb, core.Trunc(c.B["main"].Text(), 2500))
	}
	if ea != nil {
		rec.Skip("layout-wire:python-does-not-build")
		return nil
	}
	for k := range ja {
		run := c.Runs[k/2]
		ctx := func() string {
			return fmt.Sprintf("%s -> %s\n%s\n--- ordering B of the model\n%s", ja[k].InFmt, ja[k].OutFmt, describeRun(ba, run), core.Trunc(c.B["main"].Text(), 2500))
		}
		if ra[k].OK != rb[k].OK {
			return failf("c13", "wire behaviour depends on the order/distribution of the definitions: copy succeeds for one layout and fails for the other (A ok=%v %s, B ok=%v %s)\n%s", ra[k].OK, core.Trunc(ra[k].Error, 300), rb[k].OK, core.Trunc(rb[k].Error, 300), ctx())
		}
		if !ra[k].OK {
			rec.Class("layout-wire:copy-fails-for-both")
			continue
		}
		da, _ := os.ReadFile(ja[k].Out)
		db, _ := os.ReadFile(jb[k].Out)
		if string(da) != string(db) {
			return failf("c13", "wire behaviour depends on the order/distribution of the definitions: the %s outputs differ at byte %d\n%s", ja[k].OutFmt, firstDiffByte(da, db), ctx())
		}
		// whether the common output is also the right one is C01/C02's question (and depends on their open
		// findings); here only "the same for both layouts" is asserted
		rec.Class("layout-wire:identical-" + ja[k].OutFmt)
	}
	return nil
}

func genC13(t *rapid.T) C13Case {
	if rapid.IntRange(0, 7).Draw(t, "wire") == 0 {
		return genC13Wire(t)
	}
	cfg := model.DefaultGen()
	cfg.ArgRefPct = 25 // named types as generic arguments: definition order matters most where types depend on each other
	root := model.GenPackage(t, &cfg)
	c := C13Case{Mode: rapid.SampledFrom([]string{"syntax", "syntax", "layout"}).Draw(t, "mode")}
	lateUser, lateArg, late := 0, 0, false
	if c.Mode == "layout" && rapid.IntRange(0, 9).Draw(t, "lateUse") < 6 {
		// a local type whose only use is as a type argument of an imported generic type
		lateUser, lateArg, late = model.AddLateUse(root, func(l string, n int) int { return rapid.IntRange(0, n-1).Draw(t, l) })
	}
	if rapid.IntRange(0, 4).Draw(t, "invalid") == 0 {
		rule := rapid.SampledFrom(defRules).Draw(t, "rule")
		if ok, _ := injectDef(t, rule, root); ok {
			c.Invalid = rule
		}
	}
	c.A = model.EmitLayout(root, model.EmitOptions{ExtraManifest: c13Outputs})
	switch c.Mode {
	case "syntax":
		c.B = model.EmitLayout(root, model.EmitOptions{ExtraManifest: c13Outputs, Ch: rapidChooser(t)})
		c.B["main"] = noise(t, c.B["main"])
		if rapid.IntRange(0, 3).Draw(t, "multiDoc") == 0 {
			// the definitions of a file spread over several YAML documents
			mask := rapid.Uint64().Draw(t, "multiDocCuts") | rapid.Uint64().Draw(t, "multiDocCuts2")
			out := model.Files{}
			for n, txt := range c.B["main"] {
				if n != "_package.yml" {
					txt = model.SplitDocuments(txt, func(i int) bool { return mask&(1<<uint(i%64)) != 0 })
				}
				out[n] = txt
			}
			c.B["main"] = out
		}
	case "layout":
		n := len(root.Defs)
		order := rapid.Permutation(seq(n)).Draw(t, "order")
		switch rapid.IntRange(0, 3).Draw(t, "orderKind") {
		case 0:
			// dependents first: the generator builds definitions in dependency order
			for i := range order {
				order[i] = n - 1 - i
			}
		}
		if late {
			// put the user of the late argument before the argument
			iu, ia := -1, -1
			for i, d := range order {
				if d == lateUser {
					iu = i
				}
				if d == lateArg {
					ia = i
				}
			}
			if iu > ia && rapid.IntRange(0, 3).Draw(t, "lateSwap") > 0 {
				order[iu], order[ia] = order[ia], order[iu]
			}
		}
		nf := rapid.IntRange(1, 4).Draw(t, "files")
		fileOf := make([]int, n)
		for i := range fileOf {
			fileOf[i] = rapid.IntRange(0, nf-1).Draw(t, "fileOf")
		}
		names := []string{"a.yml", "sub/b.yaml", "z_last.yml", "sub/deep/c.yml"}[:nf]
		c.B = model.EmitLayout(root, model.EmitOptions{ExtraManifest: c13Outputs, Order: order, FileOf: fileOf, FileNames: names})
	}
	return c
}

func seq(n int) []int {
	s := make([]int, n)
	for i := range s {
		s[i] = i
	}
	return s
}

var (
	pySchemaRe  = regexp.MustCompile(`(?s)class (\w+)WriterBase\(.*?\n    schema = r"""(.*?)"""`)
	cppSchemaRe = regexp.MustCompile(`std::string (\w+)WriterBase::schema_ = R"\((.*?)\)";`)
	mSchemaRe   = regexp.MustCompile(`res = string\('(.*)'\);`)
)

// schemaLiterals extracts protocol name -> schema literal for each backend present in tree.
func schemaLiterals(tree map[string]string) map[string]map[string]string {
	out := map[string]map[string]string{"python": {}, "cpp": {}, "matlab": {}}
	for path, txt := range tree {
		switch {
		case strings.HasPrefix(path, "py/") && strings.HasSuffix(path, "/protocols.py") && strings.Count(path, "/") == 2:
			for _, m := range pySchemaRe.FindAllStringSubmatch(txt, -1) {
				out["python"][m[1]] = m[2]
			}
		case path == "cpp/protocols.cc":
			for _, m := range cppSchemaRe.FindAllStringSubmatch(txt, -1) {
				out["cpp"][m[1]] = m[2]
			}
		case strings.HasPrefix(path, "m/") && strings.HasSuffix(path, "WriterBase.m"):
			if m := mSchemaRe.FindStringSubmatch(txt); m != nil {
				name := strings.TrimSuffix(filepath.Base(path), "WriterBase.m")
				out["matlab"][name] = strings.ReplaceAll(m[1], "''", "'")
			}
		}
	}
	return out
}

var jsonPosRe = regexp.MustCompile(`\s*"(file|line|column)": [^\n]*\n`)

func generateTree(l model.Layout) (sut.Result, map[string]string) {
	root := sut.TempDir("c13")
	defer os.RemoveAll(root)
	sut.WriteLayout(root, l)
	r := sut.Yardl(filepath.Join(root, "main"), "generate")
	tree := sut.ReadTree(filepath.Join(root, "out"))
	return r, tree
}

func checkC13(c C13Case) *Fail {
	if c.Mode == "layout-wire" {
		for i := range c.Runs {
			for j := range c.Runs[i].Steps {
				c.Runs[i].Steps[j].Fix()
			}
		}
		return checkC13Wire(c)
	}
	ra, ta := generateTree(c.A)
	rb, tb := generateTree(c.B)
	if ra.TimedOut || rb.TimedOut {
		return failf("c13", "generate timed out")
	}
	if sut.HasPanic(ra.Combined()) || sut.HasPanic(rb.Combined()) {
		return failf("c13", "yardl aborted:\n%s\n%s", core.Trunc(ra.Combined(), 600), core.Trunc(rb.Combined(), 600))
	}
	if (ra.Exit == 0) != (rb.Exit == 0) {
		return failf("c13", "mode %s: spelling A exits %d, spelling B exits %d\n--- A stderr\n%s\n--- B stderr\n%s\n--- B files\n%s", c.Mode, ra.Exit, rb.Exit,
			core.Trunc(sut.StripANSI(ra.Stderr), 600), core.Trunc(sut.StripANSI(rb.Stderr), 600), core.Trunc(c.B["main"].Text(), 2500))
	}
	if c.Invalid == "" && ra.Exit != 0 {
		return failf("c13-gen", "generated model rejected (harness generator fault):\n%s", core.Trunc(sut.StripANSI(ra.Stderr), 600))
	}
	if ra.Exit != 0 {
		return nil
	}
	switch c.Mode {
	case "syntax":
		var names []string
		for n := range ta {
			names = append(names, n)
		}
		for n := range tb {
			if _, ok := ta[n]; !ok {
				return failf("c13", "file %s generated only for spelling B", n)
			}
		}
		sort.Strings(names)
		for _, n := range names {
			a, b := ta[n], tb[n]
			if _, ok := tb[n]; !ok {
				return failf("c13", "file %s generated only for spelling A", n)
			}
			if n == "json/model.json" {
				continue // carries nothing but the IR; positions/comments differ by construction
			}
			if a != b {
				return failf("c13", "pure-syntax respelling changed generated file %s:\n%s\n--- spelling B of the model\n%s", n, firstDiff(a, b), core.Trunc(c.B["main"].Text(), 2500))
			}
		}
	case "layout":
		// the generated Python package of one ordering imports <=> that of the other does
		// (differential, so Python defects that do not depend on the order cancel out)
		ia, ea := pyTreeImports(ta)
		ib, eb := pyTreeImports(tb)
		if ia != ib {
			return failf("c13", "the Python package generated from one ordering of the definitions imports, from the other it does not:\n--- A: %v %s\n--- B: %v %s\n--- ordering B of the model\n%s", ia, core.Trunc(ea, 500), ib, core.Trunc(eb, 500), core.Trunc(c.B["main"].Text(), 2500))
		}
		sa, sb := schemaLiterals(ta), schemaLiterals(tb)
		for be, ma := range sa {
			if len(ma) == 0 {
				return failf("c13-gen", "no schema literal found in %s output (extractor out of date)", be)
			}
			for proto, lit := range ma {
				if sb[be][proto] != lit {
					return failf("c13", "reordering/re-splitting definitions changed the %s schema of protocol %s:\n--- A\n%s\n--- B\n%s", be, proto, core.Trunc(lit, 1200), core.Trunc(sb[be][proto], 1200))
				}
			}
		}
	}
	return nil
}

// pyTreeImports writes the py/ part of a generated tree to a scratch directory and imports it.
func pyTreeImports(tree map[string]string) (bool, string) {
	dir := sut.TempDir("c13py")
	defer os.RemoveAll(dir)
	n := 0
	for p, txt := range tree {
		if strings.HasPrefix(p, "py/") {
			f := filepath.Join(dir, strings.TrimPrefix(p, "py/"))
			os.MkdirAll(filepath.Dir(f), 0o755)
			os.WriteFile(f, []byte(txt), 0o644)
			n++
		}
	}
	if n == 0 {
		return true, ""
	}
	r := sut.Run(dir, []string{"PYTHONDONTWRITEBYTECODE=1"}, 120*time.Second, nil, sut.PythonBin(), "-c",
		"import sys,importlib,os\nsys.path.insert(0,'.')\n[importlib.import_module(d) for d in sorted(os.listdir('.')) if os.path.isdir(d) and not d.startswith('__')]")
	if r.Exit != 0 {
		lines := strings.Split(strings.TrimSpace(r.Combined()), "\n")
		return false, lines[len(lines)-1]
	}
	return true, ""
}

func firstDiff(a, b string) string {
	la, lb := strings.Split(a, "\n"), strings.Split(b, "\n")
	for i := 0; i < len(la) && i < len(lb); i++ {
		if la[i] != lb[i] {
			return fmt.Sprintf("line %d:\n  A: %s\n  B: %s", i+1, core.Trunc(la[i], 300), core.Trunc(lb[i], 300))
		}
	}
	return fmt.Sprintf("lengths differ: %d vs %d lines", len(la), len(lb))
}

func init() {
	fn := func(raw json.RawMessage) *Fail {
		var c C13Case
		if err := json.Unmarshal(raw, &c); err != nil {
			return failf("c13", "bad replay: %v", err)
		}
		return checkC13(c)
	}
	registerReplay("c13", fn)
	registerReplay("c13-gen", fn)
}

func TestC13(t *testing.T) {
	rec := core.Rec("C13")
	rec.SetRule(c13Rule)
	rec.Assume("explicit !union tags vs list syntax and documentation comments are not spelling-only differences and are never varied", "wire behaviour of re-ordered models is compared through the generated Python code only (mode layout-wire); the C++ code of generated orderings is exercised by C01/C03")
	replayKnown(t, "C13")
	rapid.Check(t, func(rt *rapid.T) {
		c := genC13(rt)
		rec.Eval()
		rec.Class("mode:" + c.Mode)
		if c.Invalid != "" {
			rec.Class("invalid")
		}
		ta, tb := c.A["main"].Text(), c.B["main"].Text()
		diffLines := 0
		la := map[string]bool{}
		for _, l := range strings.Split(ta, "\n") {
			la[l] = true
		}
		for _, l := range strings.Split(tb, "\n") {
			if !la[l] {
				diffLines++
			}
		}
		rich := strings.Contains(ta, "[") || strings.Contains(ta, "<") || strings.Contains(ta, "- ")
		if (diffLines >= 3 || c.Mode == "layout") && rich {
			rec.Nontrivial(core.Hash(ta, tb))
			rec.Sample(map[string]any{"mode": c.Mode, "invalid": c.Invalid, "A": core.Trunc(ta, 500), "B": core.Trunc(tb, 500)})
		}
		report(rt, rec, checkC13(c), c)
	})
}
