package checks

import (
	"encoding/json"
	"fmt"
	"path/filepath"
	"strings"
	"testing"

	"pgregory.net/rapid"
	"verif/harness/core"
	"verif/harness/model"
	"verif/harness/sut"
)

// C09 — a single rule violation anywhere (main package, second file, imported package,
// package imported by an imported package, previous version; top level or nested) makes yardl
// exit non-zero with an error naming a file of the package that contains the violation.

type C09Case struct {
	Rule     string       `json:"rule"`
	Where    string       `json:"where"`    // main | import | import2 | version
	Nesting  string       `json:"nesting"`  // description of the wrappers around the bad construct
	BadDir   string       `json:"bad_dir"`  // directory of the package containing the violation
	Layout   model.Layout `json:"layout"`   // the invalid layout
	Control  model.Layout `json:"control"`  // the same layout without the violation (must be accepted)
	Cmd      string       `json:"cmd"`      // validate | generate
	Manifest string       `json:"manifest"` // extra manifest of main (outputs) when Cmd == generate
}

const c09Rule = "a valid generated layout (main + 0-2 imports, one possibly importing the other, + 0-2 previous versions, 1-3 files, in a quarter of the cases written as several YAML documents per file) with exactly one injected violation of a documented rule; non-trivial = the violation is not at the top level of the main package's first file (it is nested inside containers/generic arguments/union cases, or sits in another file, an imported package, a package imported by an import, or a previous version; in a third of the import cases the packages are arranged in sub-directories so that the relative path a nested package uses for its import would, taken from the top-level package directory, reach a valid decoy package of the same namespace); distinct = hash of all files"

// badType returns a type expression that violates `rule`, or nil if the rule is not a type-level rule.
func badType(t *rapid.T, rule string, p *model.Package, env *model.Env) *model.Type {
	switch rule {
	case "unknown-type":
		return model.Ref(p.Namespace, "NoSuchType")
	case "unknown-namespace":
		return model.Ref("Nowhere", "Thing")
	case "unimported-namespace":
		// a type of a package that is part of the same build (the main package or another of its
		// imports) but that p does not import, directly or indirectly: unknown to p
		reach := map[*model.Package]bool{p: true}
		var walk func(q *model.Package)
		walk = func(q *model.Package) {
			for _, im := range q.Imports {
				if !reach[im] {
					reach[im] = true
					walk(im)
				}
			}
		}
		walk(p)
		if env.Root == nil {
			return nil
		}
		for _, q := range env.Root.AllPackages() {
			if reach[q] {
				continue
			}
			for _, d := range q.Defs {
				if d.Kind != model.DProtocol && len(d.TypeParams) == 0 {
					return model.Ref(q.Namespace, d.Name)
				}
			}
		}
		return nil
	case "generic-arity-extra":
		// a non-generic definition given arguments, or too many arguments
		for _, d := range p.Defs {
			if d.Kind == model.DRecord || d.Kind == model.DAlias {
				args := []*model.Type{model.Prim("int32")}
				for range d.TypeParams {
					args = append(args, model.Prim("string"))
				}
				return model.Ref(p.Namespace, d.Name, args...)
			}
		}
		return nil
	case "primitive-with-type-args":
		return model.Ref("", rapid.SampledFrom([]string{"float32", "uint8", "string", "int32", "date"}).Draw(t, "primName"), model.Prim("int32"))
	case "generic-arity-missing":
		for _, d := range p.Defs {
			if len(d.TypeParams) > 0 {
				return model.Ref(p.Namespace, d.Name) // no arguments at all
			}
		}
		return nil
	case "union-null-not-first":
		return &model.Type{Kind: model.KUnion, Cases: []*model.Type{model.Prim("int32"), nil, model.Prim("string")}, Tags: []string{"int32", "", "string"}}
	case "union-single-null":
		return &model.Type{Kind: model.KUnion, Cases: []*model.Type{nil}, Tags: []string{""}}
	case "union-duplicate-case":
		a := rapid.SampledFrom([]string{"int32", "uint64", "float32", "string"}).Draw(t, "dupPrim")
		b := a
		if a == "uint64" && rapid.Bool().Draw(t, "sizeAlias") {
			b = "size"
		}
		return &model.Type{Kind: model.KUnion, Cases: []*model.Type{model.Prim(a), model.Prim("bool"), model.Prim(b)}, Tags: []string{a, "bool", b}}
	case "union-nested":
		inner := &model.Type{Kind: model.KUnion, Cases: []*model.Type{model.Prim("int32"), model.Prim("string")}, Tags: []string{"int32", "string"}}
		return &model.Type{Kind: model.KUnion, Cases: []*model.Type{inner, model.Prim("float32")}, Tags: []string{"x", "float32"}}
	case "union-duplicate-tag":
		return &model.Type{Kind: model.KUnion, ExplicitTags: true, Cases: []*model.Type{model.Prim("int32"), model.Prim("string")}, Tags: []string{"same", "same"}}
	case "union-bad-tag":
		return &model.Type{Kind: model.KUnion, ExplicitTags: true, Cases: []*model.Type{model.Prim("int32"), model.Prim("string")}, Tags: []string{"BadTag", "ok"}}
	case "union-untaggable":
		// case types that cannot serve as tags need explicit tags
		return &model.Type{Kind: model.KUnion, Cases: []*model.Type{model.Vector(model.Prim("int32")), model.Vector(model.Prim("float32"))}, Tags: []string{"a", "b"}}
	case "map-key-vector":
		return model.Map(model.Vector(model.Prim("int32")), model.Prim("int32"))
	case "map-key-optional":
		return model.Map(model.Optional(model.Prim("int32")), model.Prim("string"))
	case "map-key-named-record":
		for _, d := range p.Defs {
			if d.Kind == model.DRecord && len(d.TypeParams) == 0 {
				return model.Map(model.Ref(p.Namespace, d.Name), model.Prim("int32"))
			}
		}
		return nil
	case "map-key-through-generic":
		// the key type is a type parameter that a non-primitive type reaches through 1-3 levels of
		// generic definitions, each valid on its own
		var rec *model.Def
		for _, d := range p.Defs {
			if d.Kind == model.DRecord && len(d.TypeParams) == 0 {
				rec = d
			}
		}
		if rec == nil || p.Find("VKeyMap") != nil {
			return nil
		}
		ns := p.Namespace
		p.Defs = append(p.Defs,
			&model.Def{Kind: model.DAlias, Name: "VKeyMap", TypeParams: []string{"K", "V"}, Type: model.Map(model.Param("K"), model.Param("V"))},
			&model.Def{Kind: model.DRecord, Name: "VKeyIndex", TypeParams: []string{"T"}, Fields: []model.Field{{Name: "entries", Type: model.Ref(ns, "VKeyMap", model.Param("T"), model.Prim("int32"))}}},
			&model.Def{Kind: model.DAlias, Name: "VKeyOuter", TypeParams: []string{"T"}, Type: model.Vector(model.Ref(ns, "VKeyIndex", model.Param("T")))})
		key := model.Ref(ns, rec.Name)
		switch rapid.IntRange(1, 3).Draw(t, "keyLevels") {
		case 1:
			return model.Ref(ns, "VKeyMap", key, model.Prim("string"))
		case 2:
			return model.Ref(ns, "VKeyIndex", key)
		default:
			return model.Ref(ns, "VKeyOuter", key)
		}
	case "map-key-named-enum":
		for _, d := range p.Defs {
			if (d.Kind == model.DEnum || d.Kind == model.DFlags) && len(d.TypeParams) == 0 {
				return model.Map(model.Ref(p.Namespace, d.Name), model.Prim("int32"))
			}
		}
		return nil
	case "map-key-alias-of-vector":
		for _, d := range p.Defs {
			if d.Kind == model.DAlias && len(d.TypeParams) == 0 {
				u := env.Underlying(model.Ref(p.Namespace, d.Name))
				if u.Kind == model.KVector || u.Kind == model.KArray || u.Kind == model.KMap || u.Kind == model.KOptional || u.Kind == model.KUnion {
					return model.Map(model.Ref(p.Namespace, d.Name), model.Prim("int32"))
				}
			}
		}
		return nil
	case "array-mixed-dims":
		three := uint64(3)
		return &model.Type{Kind: model.KArray, Elem: model.Prim("int32"), HasDims: true, Dims: []model.Dim{{Name: "x", Len: &three}, {Name: "y"}}}
	case "array-duplicate-dim":
		return &model.Type{Kind: model.KArray, Elem: model.Prim("float32"), HasDims: true, Dims: []model.Dim{{Name: "x"}, {Name: "x"}}}
	case "array-bad-dim-name":
		return &model.Type{Kind: model.KArray, Elem: model.Prim("float32"), HasDims: true, Dims: []model.Dim{{Name: "Bad"}, {Name: "y"}}}
	case "stream-nested":
		return model.Stream(model.Prim("int32"))
	}
	return nil
}

// wrapType nests a type inside 0-3 valid wrappers and reports what it did.
func wrapType(t *rapid.T, bad *model.Type, p *model.Package, isStream bool) (*model.Type, []string) {
	var how []string
	cur := bad
	n := rapid.IntRange(0, 3).Draw(t, "wrapDepth")
	for i := 0; i < n; i++ {
		var gens []*model.Def
		for _, d := range p.Defs {
			if len(d.TypeParams) > 0 {
				gens = append(gens, d)
			}
		}
		k := rapid.IntRange(0, 6).Draw(t, "wrapKind")
		if cur.Kind == model.KUnion || cur.Kind == model.KOptional {
			// wrapping a union directly in a union/optional would add a second violation of another rule
			if k == 0 || k == 3 || k == 6 {
				k = 1
			}
		}
		switch k {
		case 0:
			cur = model.Optional(cur)
			how = append(how, "optional")
		case 1:
			cur = model.Vector(cur)
			how = append(how, "vector")
		case 2:
			cur = model.Map(model.Prim("string"), cur)
			how = append(how, "mapval")
		case 3:
			cur = &model.Type{Kind: model.KUnion, ExplicitTags: true, Cases: []*model.Type{model.Prim("bool"), cur}, Tags: []string{"wa" + fmt.Sprint(i), "wb" + fmt.Sprint(i)}}
			how = append(how, "unioncase")
		case 6:
			// a union written as a plain sequence (tags derived from the case types)
			cur = &model.Type{Kind: model.KUnion, Cases: []*model.Type{cur, model.Prim("string")}, Tags: []string{"", "string"}}
			how = append(how, "untaggedunioncase")
		case 4:
			if len(gens) > 0 {
				d := gens[rapid.IntRange(0, len(gens)-1).Draw(t, "wrapGen")]
				args := []*model.Type{cur}
				for j := 1; j < len(d.TypeParams); j++ {
					args = append(args, model.Prim("int32"))
				}
				cur = model.Ref(p.Namespace, d.Name, args...)
				how = append(how, "genericarg")
			} else {
				cur = model.DynArray(cur)
				how = append(how, "array")
			}
		default:
			cur = model.DynArray(cur)
			how = append(how, "array")
		}
	}
	return cur, how
}

var typeRules = []string{"unknown-type", "unknown-namespace", "unimported-namespace", "generic-arity-extra", "primitive-with-type-args", "generic-arity-missing", "union-null-not-first", "union-single-null",
	"union-duplicate-case", "union-nested", "union-duplicate-tag", "union-bad-tag", "union-untaggable", "map-key-vector", "map-key-optional",
	"map-key-named-record", "map-key-named-enum", "map-key-alias-of-vector", "map-key-through-generic", "array-mixed-dims", "array-duplicate-dim", "array-bad-dim-name", "stream-nested"}

var defRules = []string{"duplicate-type", "duplicate-field", "duplicate-step", "duplicate-enum-symbol", "duplicate-computed-field", "bad-type-name", "bad-field-name", "bad-step-name",
	"bad-enum-symbol", "bad-type-param-name", "cycle-direct", "cycle-mutual", "cycle-alias", "unused-type-param", "enum-duplicate-value", "enum-out-of-range", "enum-bad-base",
	"stream-in-record", "stream-alias", "generic-enum", "generic-protocol", "reference-protocol",
	"cf-unknown-member", "cf-non-numeric-operand", "cf-index-arity", "cf-bad-cast", "cf-switch-not-exhaustive", "cf-index-non-integer", "cf-unknown-function", "cf-size-wrong-type"}

// injectDef applies a definition-level violation to p. Returns false when not applicable.
func injectDef(t *rapid.T, rule string, p *model.Package) (bool, string) {
	pick := func(kind model.DefKind) *model.Def {
		var c []*model.Def
		for _, d := range p.Defs {
			if d.Kind == kind {
				c = append(c, d)
			}
		}
		if len(c) == 0 {
			return nil
		}
		return c[rapid.IntRange(0, len(c)-1).Draw(t, "pickDef")]
	}
	file := 0
	if p.NumFiles > 1 {
		file = rapid.IntRange(0, p.NumFiles-1).Draw(t, "injFile")
	}
	where := fmt.Sprintf("file%d", file)
	addRec := func(name string, fields []model.Field, cfs ...model.Computed) {
		p.Defs = append(p.Defs, &model.Def{Kind: model.DRecord, Name: name, Fields: fields, Computed: cfs, File: file})
	}
	switch rule {
	case "duplicate-type":
		if len(p.Defs) == 0 {
			return false, ""
		}
		d := p.Defs[rapid.IntRange(0, len(p.Defs)-1).Draw(t, "dupOf")]
		p.Defs = append(p.Defs, &model.Def{Kind: model.DAlias, Name: d.Name, Type: model.Prim("int32"), File: file})
	case "duplicate-field":
		d := pick(model.DRecord)
		if d == nil {
			return false, ""
		}
		d.Fields = append(d.Fields, model.Field{Name: d.Fields[0].Name, Type: model.Prim("int32")})
		where = "def"
	case "duplicate-step":
		d := pick(model.DProtocol)
		if d == nil {
			return false, ""
		}
		d.Fields = append(d.Fields, model.Field{Name: d.Fields[0].Name, Type: model.Prim("int32")})
		where = "def"
	case "duplicate-enum-symbol":
		d := pick(model.DEnum)
		if d == nil {
			d = pick(model.DFlags)
		}
		if d == nil {
			return false, ""
		}
		d.ListValues = true
		d.Values = append(d.Values, model.EnumVal{Symbol: d.Values[0].Symbol})
		where = "def"
	case "duplicate-computed-field":
		addRec("VRec", []model.Field{{Name: "a", Type: model.Prim("int32")}}, model.Computed{Name: "a", Expr: "1"})
	case "bad-type-name":
		p.Defs = append(p.Defs, &model.Def{Kind: model.DAlias, Name: rapid.SampledFrom([]string{"lowerCase", "Snake_Case", "X-y"}).Draw(t, "badName"), Type: model.Prim("int32"), File: file})
	case "bad-field-name":
		addRec("VRec", []model.Field{{Name: rapid.SampledFrom([]string{"BadName", "snake_case", "9lives"}).Draw(t, "badField"), Type: model.Prim("int32")}})
	case "bad-step-name":
		p.Defs = append(p.Defs, &model.Def{Kind: model.DProtocol, Name: "VProto", Fields: []model.Field{{Name: "BadStep", Type: model.Prim("int32")}}, File: file})
	case "bad-enum-symbol":
		p.Defs = append(p.Defs, &model.Def{Kind: model.DEnum, Name: "VEnum", ListValues: true, Values: []model.EnumVal{{Symbol: "ok"}, {Symbol: "NotOk"}}, File: file})
	case "bad-type-param-name":
		p.Defs = append(p.Defs, &model.Def{Kind: model.DRecord, Name: "VGen", TypeParams: []string{"t"}, Fields: []model.Field{{Name: "a", Type: model.Param("t")}}, File: file})
	case "cycle-direct":
		addRec("VRec", []model.Field{{Name: "a", Type: model.Prim("int32")}, {Name: "self", Type: model.Ref(p.Namespace, "VRec")}})
	case "cycle-mutual":
		addRec("VRecA", []model.Field{{Name: "b", Type: model.Ref(p.Namespace, "VRecB")}})
		addRec("VRecB", []model.Field{{Name: "a", Type: model.Optional(model.Ref(p.Namespace, "VRecA"))}})
	case "cycle-alias":
		p.Defs = append(p.Defs, &model.Def{Kind: model.DAlias, Name: "VAlA", Type: model.Vector(model.Ref(p.Namespace, "VAlB")), File: file})
		p.Defs = append(p.Defs, &model.Def{Kind: model.DAlias, Name: "VAlB", Type: model.Map(model.Prim("string"), model.Ref(p.Namespace, "VAlA")), File: file})
	case "unused-type-param":
		p.Defs = append(p.Defs, &model.Def{Kind: model.DRecord, Name: "VGen", TypeParams: []string{"T", "U"}, Fields: []model.Field{{Name: "a", Type: model.Param("T")}}, File: file})
	case "enum-duplicate-value":
		p.Defs = append(p.Defs, &model.Def{Kind: model.DEnum, Name: "VEnum", Values: []model.EnumVal{{Symbol: "a", Value: 1, Explicit: true}, {Symbol: "b", Value: 1, Explicit: true}}, File: file})
	case "enum-out-of-range":
		base := rapid.SampledFrom([]string{"uint8", "int8", "int16", "uint16"}).Draw(t, "oorBase")
		v := map[string]int64{"uint8": 256, "int8": -129, "int16": 32768, "uint16": -1}[base]
		p.Defs = append(p.Defs, &model.Def{Kind: model.DEnum, Name: "VEnum", Base: base, Values: []model.EnumVal{{Symbol: "a", Value: v, Explicit: true}}, File: file})
	case "enum-bad-base":
		p.Defs = append(p.Defs, &model.Def{Kind: model.DEnum, Name: "VEnum", Base: rapid.SampledFrom([]string{"float32", "string", "bool"}).Draw(t, "badBase"), ListValues: true, Values: []model.EnumVal{{Symbol: "a"}}, File: file})
	case "stream-in-record":
		addRec("VRec", []model.Field{{Name: "s", Type: model.Stream(model.Prim("int32"))}})
	case "stream-alias":
		p.Defs = append(p.Defs, &model.Def{Kind: model.DAlias, Name: "VStream", Type: model.Stream(model.Prim("int32")), File: file})
	case "generic-enum":
		p.Defs = append(p.Defs, &model.Def{Kind: model.DEnum, Name: "VEnum", TypeParams: []string{"T"}, ListValues: true, Values: []model.EnumVal{{Symbol: "a"}}, File: file})
	case "generic-protocol":
		p.Defs = append(p.Defs, &model.Def{Kind: model.DProtocol, Name: "VProto", TypeParams: []string{"T"}, Fields: []model.Field{{Name: "a", Type: model.Param("T")}}, File: file})
	case "reference-protocol":
		d := pick(model.DProtocol)
		if d == nil {
			return false, ""
		}
		addRec("VRec", []model.Field{{Name: "p", Type: model.Ref(p.Namespace, d.Name)}})
	case "cf-unknown-member":
		addRec("VRec", []model.Field{{Name: "a", Type: model.Prim("int32")}}, model.Computed{Name: "c", Expr: "nosuch"})
	case "cf-non-numeric-operand":
		addRec("VRec", []model.Field{{Name: "s", Type: model.Prim("string")}, {Name: "a", Type: model.Prim("int32")}}, model.Computed{Name: "c", Expr: "s + a"})
	case "cf-index-arity":
		addRec("VRec", []model.Field{{Name: "v", Type: model.Vector(model.Prim("int32"))}}, model.Computed{Name: "c", Expr: "v[0, 1]"})
	case "cf-bad-cast":
		addRec("VRec", []model.Field{{Name: "a", Type: model.Prim("int32")}}, model.Computed{Name: "c", Expr: "a as NoSuchType"})
	case "cf-switch-not-exhaustive":
		addRec("VRec", []model.Field{{Name: "u", Type: &model.Type{Kind: model.KUnion, Cases: []*model.Type{model.Prim("int32"), model.Prim("string")}, Tags: []string{"int32", "string"}}}},
			model.Computed{Name: "c", Switch: &model.SwitchExpr{Target: "u", Cases: []model.SwitchCase{{Pattern: "int32", Expr: "1"}}}})
	case "cf-index-non-integer":
		addRec("VRec", []model.Field{{Name: "v", Type: model.Vector(model.Prim("int32"))}, {Name: "s", Type: model.Prim("string")}}, model.Computed{Name: "c", Expr: "v[s]"})
	case "cf-unknown-function":
		addRec("VRec", []model.Field{{Name: "a", Type: model.Prim("int32")}}, model.Computed{Name: "c", Expr: "frobnicate(a)"})
	case "cf-size-wrong-type":
		addRec("VRec", []model.Field{{Name: "a", Type: model.Prim("int32")}}, model.Computed{Name: "c", Expr: "size(a)"})
	default:
		return false, ""
	}
	return true, where
}

// genLayoutPackages draws main + imports (+ versions); returns the root.
func genRootWithVersions(t *rapid.T, cfg *model.GenConfig, maxVersions int) *model.Package {
	root := model.GenPackage(t, cfg)
	nv := rapid.IntRange(0, maxVersions).Draw(t, "nVersions")
	for i := 0; i < nv; i++ {
		v := root.Clone()
		v.Versions = nil
		v.DirName = fmt.Sprintf("v%d", i)
		root.Versions = append(root.Versions, model.Version{Label: fmt.Sprintf("v%d", i), Pkg: v})
	}
	return root
}

func genC09(t *rapid.T) (C09Case, bool) {
	cfg := model.DefaultGen()
	cfg.MaxDefs = 5
	cfg.Computed = true
	root := genRootWithVersions(t, &cfg, 2)
	c := C09Case{Cmd: "validate"}
	if rapid.IntRange(0, 4).Draw(t, "cmd") == 0 {
		c.Cmd = "generate"
		c.Manifest = "json:\n  outputDir: ../out/json\npython:\n  outputDir: ../out/py\n"
	}
	c.Control = model.EmitLayout(root, model.EmitOptions{ExtraManifest: c.Manifest})

	// choose the package that gets the violation
	type target struct {
		where string
		pkg   *model.Package
	}
	targets := []target{{"main", root}, {"main", root}}
	for _, im := range root.Imports {
		w := "import"
		targets = append(targets, target{w, im})
		for _, im2 := range im.Imports {
			targets = append(targets, target{"import2", im2})
		}
	}
	for _, v := range root.Versions {
		targets = append(targets, target{"version", v.Pkg})
	}
	tg := targets[rapid.IntRange(0, len(targets)-1).Draw(t, "target")]
	c.Where = tg.where
	c.BadDir = tg.pkg.DirName
	p := tg.pkg

	allRules := append(append([]string{}, typeRules...), defRules...)
	rule := rapid.SampledFrom(allRules).Draw(t, "rule")
	c.Rule = rule
	env := model.NewEnv(root)
	if tg.where == "version" {
		env = model.NewEnv(p)
	}
	isTypeRule := false
	for _, r := range typeRules {
		if r == rule {
			isTypeRule = true
		}
	}
	if isTypeRule {
		bad := badType(t, rule, p, env)
		if bad == nil {
			return c, false
		}
		wrapped, how := bad, []string(nil)
		if rule != "stream-nested" {
			wrapped, how = wrapType(t, bad, p, false)
		} else {
			// a stream is only legal as the whole type of a step: nest it at least once
			switch rapid.IntRange(0, 3).Draw(t, "streamNest") {
			case 0:
				wrapped, how = model.Vector(bad), []string{"vector"}
			case 1:
				wrapped, how = model.Optional(bad), []string{"optional"}
			case 2:
				wrapped, how = model.Stream(bad), []string{"stream"}
			default:
				var gens []*model.Def
				for _, d := range p.Defs {
					if len(d.TypeParams) == 1 {
						gens = append(gens, d)
					}
				}
				if len(gens) == 0 {
					wrapped, how = model.Map(model.Prim("string"), bad), []string{"mapval"}
				} else {
					wrapped, how = model.Ref(p.Namespace, gens[0].Name, bad), []string{"genericarg"}
				}
			}
		}
		file := 0
		if p.NumFiles > 1 {
			file = rapid.IntRange(0, p.NumFiles-1).Draw(t, "tFile")
		}
		place := rapid.IntRange(0, 3).Draw(t, "place")
		if rule == "stream-nested" {
			place = 2 // the interesting position: inside a protocol step
		}
		switch place {
		case 0:
			p.Defs = append(p.Defs, &model.Def{Kind: model.DAlias, Name: "VAlias", Type: wrapped, File: file})
			how = append(how, "alias")
		case 1:
			p.Defs = append(p.Defs, &model.Def{Kind: model.DRecord, Name: "VRec", Fields: []model.Field{{Name: "ok", Type: model.Prim("int32")}, {Name: "bad", Type: wrapped}}, File: file})
			how = append(how, "field")
		case 2:
			p.Defs = append(p.Defs, &model.Def{Kind: model.DProtocol, Name: "VProto", Fields: []model.Field{{Name: "ok", Type: model.Prim("int32")}, {Name: "bad", Type: wrapped}}, File: file})
			how = append(how, "step")
		default:
			slots := model.Slots(p)
			// a named type that serves as a map key somewhere is left alone: replacing it would add a
			// second violation (non-primitive map key) at every use
			usedAsKey := map[string]bool{}
			for _, q := range root.AllPackages() {
				for _, s := range model.Slots(q) {
					model.Walk(s.Get(), func(x *model.Type) {
						if x.Kind == model.KMap && x.Key != nil && x.Key.Kind == model.KRef {
							usedAsKey[x.Key.Name] = true
						}
					})
				}
			}
			var top []model.Slot
			for _, s := range slots {
				if s.Depth == 0 && s.Get().Kind != model.KStream && !(s.Def.Kind == model.DAlias && usedAsKey[s.Def.Name]) {
					top = append(top, s)
				}
			}
			if len(top) == 0 {
				return c, false
			}
			s := top[rapid.IntRange(0, len(top)-1).Draw(t, "slot")]
			s.Set(wrapped)
			how = append(how, "replace:"+s.Path)
		}
		how = append(how, fmt.Sprintf("file%d", file))
		c.Nesting = strings.Join(how, ",")
	} else {
		ok, where := injectDef(t, rule, p)
		if !ok {
			return c, false
		}
		c.Nesting = where
	}
	c.Layout = model.EmitLayout(root, model.EmitOptions{ExtraManifest: c.Manifest})
	if rapid.IntRange(0, 2).Draw(t, "relocate") == 0 {
		relocateC09(&c, root)
	}
	if rapid.IntRange(0, 3).Draw(t, "multiDoc") == 0 {
		// model files written as several YAML documents (the same cuts in the invalid layout and in the
		// control; the rule must be enforced in whichever document the violation lands)
		mask := rapid.Uint64().Draw(t, "multiDocCuts") | rapid.Uint64().Draw(t, "multiDocCuts2")
		for _, l := range []model.Layout{c.Layout, c.Control} {
			for dir, files := range l {
				out := model.Files{}
				for n, txt := range files {
					if n != "_package.yml" {
						txt = model.SplitDocuments(txt, func(i int) bool { return mask&(1<<uint(i%64)) != 0 })
					}
					out[n] = txt
				}
				l[dir] = out
			}
		}
		c.Nesting += ",multi-document"
	}
	return c, true
}

// relocateC09 moves packages into sub-directories so that the relative path by which a nested package
// (an import of an import, an import of a previous version) names its own import denotes, when taken from
// the top-level package directory instead, a different, valid package of the same namespace (a decoy).
// Relative import paths are relative to the package that declares them; the decoy must never be read.
func relocateC09(c *C09Case, root *model.Package) {
	repl := func(files model.Files, from, to string) model.Files {
		out := model.Files{}
		for n, txt := range files {
			if n == "_package.yml" {
				txt = strings.ReplaceAll(txt, "../"+from+"\n", "../"+to+"\n")
			}
			out[n] = txt
		}
		return out
	}
	switch c.Where {
	case "import2":
		// main -> importer -> BadDir: importer and BadDir move to nested/, a valid copy of BadDir stays on top
		var importer *model.Package
		for _, im := range root.Imports {
			for _, im2 := range im.Imports {
				if im2.DirName == c.BadDir {
					importer = im
				}
			}
		}
		if importer == nil || importer.DirName == c.BadDir {
			return
		}
		for _, l := range []model.Layout{c.Layout, c.Control} {
			good := c.Control[c.BadDir]
			l["nested/"+importer.DirName] = l[importer.DirName]
			l["nested/"+c.BadDir] = l[c.BadDir]
			delete(l, importer.DirName)
			l[c.BadDir] = good // the decoy
			for dir, files := range l {
				if strings.HasPrefix(dir, "nested/") {
					continue
				}
				files = repl(files, importer.DirName, "nested/"+importer.DirName)
				if dir != c.BadDir {
					files = repl(files, c.BadDir, "nested/"+c.BadDir)
				}
				l[dir] = files
			}
		}
		c.BadDir = "nested/" + c.BadDir
		c.Where = "import2-relocated"
	case "import":
		// a previous version keeps its own snapshot of the imports: old/v0 imports old/<BadDir> (invalid), while the
		// current package imports the valid top-level copy
		if len(root.Versions) == 0 {
			return
		}
		v := root.Versions[0].Pkg
		uses := false
		for _, im := range v.Imports {
			if im.DirName == c.BadDir {
				uses = true
			}
		}
		if !uses {
			return
		}
		for _, l := range []model.Layout{c.Layout, c.Control} {
			bad := l[c.BadDir]
			var addImports func(q *model.Package)
			addImports = func(q *model.Package) {
				for _, im := range q.Imports {
					if _, done := l["old/"+im.DirName]; !done {
						l["old/"+im.DirName] = c.Control[im.DirName]
						addImports(im)
					}
				}
			}
			addImports(v)
			l["old/"+c.BadDir] = bad
			l[c.BadDir] = c.Control[c.BadDir]
			l["old/"+v.DirName] = l[v.DirName]
			delete(l, v.DirName)
			l["main"] = func() model.Files {
				out := model.Files{}
				for n, txt := range l["main"] {
					if n == "_package.yml" {
						txt = strings.ReplaceAll(txt, ": ../"+v.DirName+"\n", ": ../old/"+v.DirName+"\n")
					}
					out[n] = txt
				}
				return out
			}()
		}
		c.BadDir = "old/" + c.BadDir
		c.Where = "version-import-relocated"
	}
}

// c09KnownID: narrow signatures of the known findings of C09.
func c09KnownID(c C09Case) string {
	switch {
	case strings.HasPrefix(c.Rule, "map-key-named") || c.Rule == "map-key-alias-of-vector":
		return "C09-named-map-key"
	case c.Rule == "stream-nested":
		return "C09-nested-stream"
	}
	return ""
}

func checkC09(c C09Case) *Fail {
	var res *Fail
	// control: the un-mutated layout must be accepted (otherwise the case proves nothing)
	withTempLayout("c09c", c.Control, func(root string) {
		r := sut.Yardl(filepath.Join(root, "main"), "validate")
		if r.Exit != 0 {
			res = failf("c09-control", "control layout rejected (harness generator fault):\n%s", core.Trunc(sut.StripANSI(r.Combined()), 800))
		}
	})
	if res != nil {
		return res
	}
	withTempLayout("c09", c.Layout, func(root string) {
		r := sut.Yardl(filepath.Join(root, "main"), c.Cmd)
		out := sut.StripANSI(r.Combined())
		if r.TimedOut {
			res = failf("c09", "yardl %s timed out", c.Cmd)
			return
		}
		if sut.HasPanic(out) || (r.Exit != 0 && r.Exit != 1) {
			res = failf("c09", "rule %s (%s, %s): yardl aborted instead of reporting (exit %d):\n%s", c.Rule, c.Where, c.Nesting, r.Exit, core.Trunc(out, 1200))
			return
		}
		if r.Exit == 0 {
			res = failf("c09", "rule %s violated in %s package (%s) but yardl %s exits 0:\n%s", c.Rule, c.Where, c.Nesting, c.Cmd, core.Trunc(c.Layout[c.BadDir].Text(), 1500))
			res.KnownID = c09KnownID(c)
			return
		}
		named := false
		badRoot := filepath.Join(root, c.BadDir) + string(filepath.Separator)
		for _, d := range diagnostics(out) {
			if strings.HasPrefix(d.File, badRoot) {
				named = true
			}
		}
		if !named {
			res = failf("c09", "rule %s violated in %s (%s): exit %d but no error names a file of %s/:\n%s", c.Rule, c.Where, c.Nesting, r.Exit, c.BadDir, core.Trunc(out, 1200))
		}
	})
	return res
}

func init() {
	registerReplay("c09", func(raw json.RawMessage) *Fail {
		var c C09Case
		if err := json.Unmarshal(raw, &c); err != nil {
			return failf("c09", "bad replay: %v", err)
		}
		return checkC09(c)
	})
	registerReplay("c09-control", replayers["c09"])
}

func TestC09(t *testing.T) {
	rec := core.Rec("C09")
	rec.SetRule(c09Rule)
	rec.Assume("the injected constructs violate rules stated in docs/*/language.md or in yardl's own error messages", "secondary errors caused by the same construct are accepted; only 'exit non-zero and a file of the offending package is named' is asserted")
	replayKnown(t, "C09")
	rapid.Check(t, func(rt *rapid.T) {
		c, ok := genC09(rt)
		if !ok {
			rec.Class("inapplicable")
			return
		}
		rec.Eval()
		rec.Class("rule:" + c.Rule)
		rec.Class("where:" + c.Where)
		nontrivial := c.Where != "main" || (c.Nesting != "file0" && c.Nesting != "alias,file0" && c.Nesting != "def")
		if nontrivial {
			rec.Nontrivial(layoutHash(c.Layout))
			rec.Sample(map[string]any{"rule": c.Rule, "where": c.Where, "nesting": c.Nesting, "bad_package": core.Trunc(c.Layout[c.BadDir].Text(), 500)})
		}
		report(rt, rec, checkC09(c), c)
	})
}
