package checks

import (
	"encoding/json"
	"fmt"
	"os"
	"path/filepath"
	"strings"
	"testing"

	"pgregory.net/rapid"
	"verif/harness/core"
	"verif/harness/model"
	"verif/harness/sut"
)

// C11 — generation is all-or-nothing: if anything is wrong (main package, an import, a previous
// version, the evolution check) the exit status is non-zero and nothing under any configured
// output directory (nor in the package directories) is created, modified or deleted.

type OutputCfg struct {
	Manifest string   `json:"manifest"` // appended to main's _package.yml
	Args     []string `json:"args"`     // extra CLI arguments (-c key=value)
	Dirs     []string `json:"dirs"`     // output directories relative to the layout root (for reporting)
}

type C11Case struct {
	Site    string       `json:"site"` // main | import | import2 | version | evolution
	Rule    string       `json:"rule"`
	Initial string       `json:"initial"` // absent | empty | populated
	Prior   model.Layout `json:"prior"`   // valid layout generated first when Initial == populated
	Layout  model.Layout `json:"layout"`  // the invalid layout
	Out     OutputCfg    `json:"out"`
}

const c11Rule = "an invalid layout (one injected rule violation in main / an import / an import of an import / a previous version, or a breaking change against a previous version) x a generated output configuration (any subset of cpp/python/matlab/json, separate, shared or in-package directories, cpp options, -c overrides) x initial output state (absent, empty, populated by a successful generate of a different valid model); oracle: exit != 0 and the recursive (path, sha256, mode, size, mtime) snapshot of the whole layout root is unchanged; non-trivial = outputs pre-populated or error site outside the main package; distinct = hash of files+config"

func genOutputCfg(t *rapid.T) OutputCfg {
	var b strings.Builder
	var o OutputCfg
	style := rapid.IntRange(0, 2).Draw(t, "dirStyle") // 0 separate, 1 shared, 2 inside the package dir
	dir := func(name string) string {
		switch style {
		case 1:
			return "../out/all"
		case 2:
			return "generated/" + name
		}
		return "../out/" + name
	}
	rootRel := func(d string) string {
		if strings.HasPrefix(d, "../") {
			return d[3:]
		}
		return "main/" + d
	}
	any := false
	for _, be := range []string{"cpp", "python", "matlab", "json"} {
		if !rapid.Bool().Draw(t, "be_"+be) {
			continue
		}
		any = true
		d := dir(be)
		o.Dirs = append(o.Dirs, rootRel(d))
		switch be {
		case "cpp":
			fmt.Fprintf(&b, "cpp:\n  sourcesOutputDir: %s\n", d)
			for _, opt := range []string{"generateHDF5", "generateNDJson", "generateCMakeLists"} {
				if rapid.Bool().Draw(t, opt) {
					fmt.Fprintf(&b, "  %s: %v\n", opt, rapid.Bool().Draw(t, opt+"V"))
				}
			}
		case "python":
			fmt.Fprintf(&b, "python:\n  outputDir: %s\n", d)
			if rapid.Bool().Draw(t, "pyNd") {
				fmt.Fprintf(&b, "  generateNDJson: %v\n", rapid.Bool().Draw(t, "pyNdV"))
			}
		case "matlab":
			fmt.Fprintf(&b, "matlab:\n  outputDir: %s\n", d)
		case "json":
			fmt.Fprintf(&b, "json:\n  outputDir: %s\n", d)
		}
	}
	if !any {
		b.WriteString("python:\n  outputDir: ../out/python\n")
		o.Dirs = append(o.Dirs, "out/python")
	}
	o.Manifest = b.String()
	if strings.Contains(o.Manifest, "python:") && rapid.IntRange(0, 3).Draw(t, "override") == 0 {
		o.Args = []string{"-c", "python.outputDir=../out/pyoverride"}
		o.Dirs = append(o.Dirs, "out/pyoverride")
	}
	return o
}

func genC11(t *rapid.T) (C11Case, bool) {
	c := C11Case{}
	c.Out = genOutputCfg(t)
	c.Initial = rapid.SampledFrom([]string{"absent", "empty", "populated", "populated"}).Draw(t, "initial")
	if rapid.IntRange(0, 4).Draw(t, "evo") == 0 {
		// error only in the evolution check: the previous version has a step the current one lacks
		cfg := model.DefaultGen()
		cfg.MaxDefs = 5
		root := model.GenPackage(t, &cfg)
		v := root.Clone()
		v.DirName = "v0"
		for _, d := range v.Defs {
			if d.Kind == model.DProtocol {
				d.Fields = append(d.Fields, model.Field{Name: "zzRemovedStep", Type: model.Prim("int32")})
			}
		}
		// optionally the previous version also has protocols the current one lacks (accepted with a
		// warning on their own); the removed step must be reported whatever else is reported
		if rapid.Bool().Draw(t, "alsoRemovedProtocols") {
			for j := 0; j < 3; j++ {
				v.Defs = append(v.Defs, &model.Def{Kind: model.DProtocol, Name: fmt.Sprintf("OldProto%c", 'A'+j), Fields: []model.Field{{Name: "x", Type: model.Prim("int32")}}})
			}
		}
		root.Versions = []model.Version{{Label: "v0", Pkg: v}}
		c.Site, c.Rule = "evolution", "removed-step"
		c.Layout = model.EmitLayout(root, model.EmitOptions{ExtraManifest: c.Out.Manifest})
		prior := root.Clone()
		prior.Versions = nil
		prior.Defs = append(prior.Defs, staleDefs()...)
		c.Prior = model.EmitLayout(prior, model.EmitOptions{ExtraManifest: c.Out.Manifest})
		return c, true
	}
	if rapid.IntRange(0, 7).Draw(t, "manifestErr") == 0 {
		// the package files are fine; the manifest (or a file next to the valid ones) is not
		cfg := model.DefaultGen()
		cfg.MaxDefs = 4
		root := model.GenPackage(t, &cfg)
		prior := root.Clone()
		prior.Defs = append(prior.Defs, staleDefs()...)
		c.Prior = model.EmitLayout(prior, model.EmitOptions{ExtraManifest: c.Out.Manifest})
		v := root.Clone()
		v.DirName = "v0"
		root.Versions = []model.Version{{Label: "v0", Pkg: v}}
		l := model.EmitLayout(root, model.EmitOptions{ExtraManifest: c.Out.Manifest})
		m := l["main"]["_package.yml"]
		c.Site = "manifest"
		c.Rule = rapid.SampledFrom([]string{"duplicate-version-label", "version-dir-missing", "import-dir-missing", "yaml-syntax-error-in-first-file", "yaml-syntax-error-in-extra-file"}).Draw(t, "manifestRule")
		switch c.Rule {
		case "duplicate-version-label":
			m = strings.Replace(m, "  v0: ../v0\n", "  v0: ../v0\n  v0: ../v0\n", 1)
		case "version-dir-missing":
			m = strings.Replace(m, "  v0: ../v0\n", "  v0: ../v0\n  v1: ../no-such-dir\n", 1)
		case "import-dir-missing":
			if strings.Contains(m, "imports:\n") {
				m = strings.Replace(m, "imports:\n", "imports:\n  - ../no-such-dir\n", 1)
			} else {
				m = strings.Replace(m, "versions:\n", "imports:\n  - ../no-such-dir\nversions:\n", 1)
			}
		case "yaml-syntax-error-in-first-file":
			// a file that sorts before every generated file, next to valid ones
			l["main"]["a_first.yml"] = "Broken: !record\n  fields:\n    a: int\n   b: [unclosed\n"
		case "yaml-syntax-error-in-extra-file":
			l["main"]["zz_last.yml"] = "Broken: !record\n  fields:\n    a: int\n   b: [unclosed\n"
		}
		l["main"]["_package.yml"] = m
		c.Layout = l
		return c, true
	}
	c9, ok := genC09(t)
	if !ok {
		return c, false
	}
	c.Site, c.Rule = c9.Where, c9.Rule
	// re-emit with this case's output configuration: genC09 produced layouts without outputs
	addManifest := func(l model.Layout) model.Layout {
		out := model.Layout{}
		for d, fs := range l {
			nf := model.Files{}
			for n, s := range fs {
				nf[n] = s
			}
			out[d] = nf
		}
		m := out["main"]["_package.yml"]
		// strip outputs genC09 may have added for its own generate runs
		if i := strings.Index(m, "json:\n"); i >= 0 {
			m = m[:i]
		}
		out["main"]["_package.yml"] = m + c.Out.Manifest
		return out
	}
	c.Layout = addManifest(c9.Layout)
	c.Prior = addManifest(c9.Control)
	// make the prior model observably different (stale files to delete, files to overwrite)
	c.Prior["main"]["zz_stale.yml"] = "StaleRec: !record\n  fields:\n    a: int\n    b: string*\nStaleProto: !protocol\n  sequence:\n    r: StaleRec\n    s: !stream\n      items: float\n"
	return c, true
}

func staleDefs() []*model.Def {
	return []*model.Def{
		{Kind: model.DRecord, Name: "StaleRec", Fields: []model.Field{{Name: "a", Type: model.Prim("int32")}}},
		{Kind: model.DProtocol, Name: "StaleProto", Fields: []model.Field{{Name: "r", Type: model.Ref("Main", "StaleRec")}}},
	}
}

func checkC11(c C11Case) *Fail {
	var res *Fail
	root := sut.TempDir("c11")
	defer os.RemoveAll(root)
	pkg := filepath.Join(root, "main")
	switch c.Initial {
	case "empty":
		for _, d := range c.Out.Dirs {
			os.MkdirAll(filepath.Join(root, d), 0o755)
		}
	case "populated":
		sut.WriteLayout(root, c.Prior)
		r := sut.Yardl(pkg, append([]string{"generate"}, c.Out.Args...)...)
		if r.Exit != 0 {
			return failf("c11-prior", "prior (valid) layout failed to generate - harness fault or C08 finding:\n%s", core.Trunc(sut.StripANSI(r.Combined()), 1000))
		}
		// remove the package directories, keep the outputs (in-package outputs are kept too)
		for d, fs := range c.Prior {
			for n := range fs {
				os.Remove(filepath.Join(root, d, n))
			}
		}
	}
	sut.WriteLayout(root, c.Layout)
	before := sut.Snap(root, true)
	r := sut.Yardl(pkg, append([]string{"generate"}, c.Out.Args...)...)
	after := sut.Snap(root, true)
	out := sut.StripANSI(r.Combined())
	if r.TimedOut {
		return failf("c11", "generate timed out")
	}
	if r.Exit == 0 {
		res = failf("c11", "site %s rule %s: invalid package but generate exits 0:\n%s", c.Site, c.Rule, core.Trunc(out, 600))
		return res
	}
	if diff := before.Diff(after); len(diff) > 0 {
		if len(diff) > 12 {
			diff = append(diff[:12], fmt.Sprintf("... and %d more", len(diff)-12))
		}
		return failf("c11", "site %s rule %s, outputs initially %s: generate failed (exit %d) but touched the tree:\n  %s\nstderr:\n%s", c.Site, c.Rule, c.Initial, r.Exit, strings.Join(diff, "\n  "), core.Trunc(out, 600))
	}
	return nil
}

func init() {
	fn := func(raw json.RawMessage) *Fail {
		var c C11Case
		if err := json.Unmarshal(raw, &c); err != nil {
			return failf("c11", "bad replay: %v", err)
		}
		return checkC11(c)
	}
	registerReplay("c11", fn)
	registerReplay("c11-prior", fn)
}

func TestC11(t *testing.T) {
	rec := core.Rec("C11")
	rec.SetRule(c11Rule)
	rec.Assume("the snapshot covers the whole layout root (package dirs and every configured output dir); $HOME/.yardl is outside it", "mtime granularity of the file system is fine enough to see a rewrite (ns on this fs)")
	replayKnown(t, "C11")
	rapid.Check(t, func(rt *rapid.T) {
		c, ok := genC11(rt)
		if !ok {
			rec.Class("inapplicable")
			return
		}
		rec.Eval()
		rec.Class("site:" + c.Site)
		rec.Class("initial:" + c.Initial)
		if c.Initial == "populated" || c.Site != "main" {
			rec.Nontrivial(core.Hash(c.Layout.Text(), c.Out, c.Initial))
			rec.Sample(map[string]any{"site": c.Site, "rule": c.Rule, "initial": c.Initial, "outputs": c.Out, "main_manifest": c.Layout["main"]["_package.yml"]})
		}
		f := checkC11(c)
		if f != nil && f.Check == "c11-prior" {
			// not this property's business (generation of a valid model failing is C08's); count it
			rec.Class("prior-generate-failed")
			rec.Note(core.Trunc(f.Msg, 300))
			return
		}
		report(rt, rec, f, c)
	})
}
