package checks

import (
	"errors"
	"fmt"
	"os"
	"path/filepath"
	"strings"
	"testing"

	"pgregory.net/rapid"
	"verif/harness/core"
	"verif/harness/model"
	"verif/harness/ref"
	"verif/harness/sut"
	"verif/harness/value"
)

// C01 — binary round trip and wire-format conformance.
//
// For each generated package, protocol and value sequence:
//   in.bin  = reference encoding (docs/reference/binary.md) of the values, random block partition
//   out.bin = generated binary reader -> generated binary writer (copy), Python and C++
//   oracle: out.bin decodes under the reference decoder (complete, no trailing bytes, same
//           schema header) to exactly the values encoded.
// A symmetric reader/writer error cannot cancel out because both ends are the reference codec.

const c01Rule = "generated package (records, enums, flags, aliases, generics, imports; all type constructors) x 3-6 value sequences per protocol (edge integers around varint length changes, NaN/inf/-0.0, multi-byte UTF-8, empty containers, rarely >64 KiB strings and 3000-23000 element vectors, random stream block partitions); legs: reference-encoded stream -> generated binary reader -> generated binary writer -> reference decoder, in Python (two sequences in three with every array given to the writer in Fortran order or as a strided view) and in C++; non-trivial = the sequence contains a non-primitive constructor or a stream; distinct = hash of model text + values"

func checkC01(c RTCase) *Fail {
	rec := core.Rec("C01")
	langs := []string{"python", "cpp"}
	if c.Leg != "" {
		langs = strings.Split(c.Leg, ",")
	} else if v := os.Getenv("VERIF_LEG"); v != "" {
		langs = strings.Split(v, ",")
	}
	b, err := sut.Generate(c.Pkg, sut.BuildOpts{Python: true, Cpp: contains(langs, "cpp"), NDJson: false})
	if b != nil {
		defer b.Cleanup()
	}
	if err != nil {
		return failf("c01-gen", "generation failed for an accepted model (see C08): %v\n%s", err, modelText(c.Pkg))
	}
	inputs, err := writeBinaryInputs(b, c)
	if err != nil {
		return failf("c01-gen", "%v", err)
	}
	for _, lang := range langs {
		var jobs []sut.Job
		for i, run := range c.Runs {
			j := sut.Job{Op: "copy", Proto: run.Proto, InFmt: "binary", OutFmt: "binary", In: inputs[i], Out: filepath.Join(b.Root, fmt.Sprintf("out%d.%s.bin", i, lang))}
			if lang == "python" && i%3 != 0 {
				// two sequences in three: the values the reader returned are written step by step, every
				// array first brought into another memory layout (Fortran order / a strided view) - the same
				// values, which the writer must lay out in row-major order all the same
				j.Mode = "list"
				j.Relayout = []string{"", "F", "strided"}[i%3]
			}
			if lang == "cpp" && i%2 == 1 {
				// every other sequence goes through the batch overloads, with a buffer that fills up exactly
				// where the first block of the stream ends
				for _, s := range run.Steps {
					if s.Stream {
						n := 2
						if len(s.Blocks) > 0 && s.Blocks[0] > 1 {
							n = s.Blocks[0]
						}
						j.Buf = append(j.Buf, n)
					}
				}
			}
			jobs = append(jobs, j)
		}
		var results []sut.JobResult
		switch lang {
		case "python":
			results, err = b.RunPy(jobs)
		case "cpp":
			if err = b.BuildCpp(sut.CppOpts{}); err == nil {
				results, err = b.RunCpp(jobs)
			}
		}
		if err != nil {
			var ie *sut.ImportError
			var ce *sut.CompileError
			if errors.As(err, &ie) || errors.As(err, &ce) {
				// an accepted model whose generated code does not build is C08's subject, not this
				// property's: the leg is skipped and counted
				rec.Skip(lang + "-does-not-build")
				continue
			}
			return failf("c01-harness", "%s driver: %v", lang, err)
		}
		for i, run := range c.Runs {
			proto := b.Pkg.Find(run.Proto)
			if !results[i].OK {
				return failf("c01", "%s: copying a valid reference-encoded stream failed: %s\n%s\n%s", lang, core.Trunc(results[i].Error, 1500), describeRun(b, run), modelText(c.Pkg))
			}
			data, err := os.ReadFile(jobs[i].Out)
			if err != nil {
				return failf("c01", "%s: no output written", lang)
			}
			dec, derr := ref.DecodeProtocol(b.Env, proto, data)
			if derr != nil {
				return failf("c01", "%s: output of the generated writer does not decode under the published format: %v\n%s\n%s", lang, derr, describeRun(b, run), modelText(c.Pkg))
			}
			if dec.Schema != b.Schemas[run.Proto] {
				return failf("c01", "%s: header carries a different schema:\n%s\nvs\n%s", lang, dec.Schema, b.Schemas[run.Proto])
			}
			if d := value.StepsEqual(run.Steps, dec.Steps); d != "" {
				return failf("c01", "%s: values changed in a binary read/write round trip: %s\n%s\n%s", lang, d, describeRun(b, run), modelText(c.Pkg))
			}
			rec.Class("ok:" + lang)
		}
	}
	return nil
}

func contains(xs []string, x string) bool {
	for _, y := range xs {
		if y == x {
			return true
		}
	}
	return false
}

func init() {
	rtReplay("c01", checkC01)
	rtReplay("c01-gen", checkC01)
}

func recordRTEvidence(rec *core.Recorder, c RTCase) {
	env := model.NewEnv(c.Pkg)
	txt := modelText(c.Pkg)
	for _, run := range c.Runs {
		proto := c.Pkg.Find(run.Proto)
		feats := typeFeatures(env, proto)
		nontrivial := false
		for f := range feats {
			rec.Class("feature:" + f)
			if !strings.HasPrefix(f, "prim:") {
				nontrivial = true
			}
		}
		big := false
		for _, s := range run.Steps {
			if s.Stream && len(s.Items) > 1 {
				rec.Class("stream>1")
			}
			if s.Stream && len(s.Items) == 0 {
				rec.Class("stream-empty")
			}
			if sz := approxSize(s); sz > 65536 {
				big = true
			}
		}
		if big {
			rec.Class("payload>64KiB")
		}
		if nontrivial {
			rec.Nontrivial(core.Hash(txt, run))
		}
	}
	if len(c.Runs) > 0 {
		b := &sut.Built{Pkg: c.Pkg, Env: env}
		rec.Sample(map[string]any{"model": core.Trunc(c.Pkg.Namespace+"\n"+model.EmitPackage(c.Pkg, model.EmitOptions{}).Text(), 700), "run": core.Trunc(describeRun(b, c.Runs[0]), 500)})
	}
}

func approxSize(s value.StepValues) int {
	n := 0
	var walk func(v *value.Value)
	walk = func(v *value.Value) {
		if v == nil {
			return
		}
		n += 2 + len(v.S)
		for _, x := range v.Items {
			walk(x)
		}
		for _, x := range v.Keys {
			walk(x)
		}
	}
	walk(s.Value)
	for _, x := range s.Items {
		walk(x)
	}
	return n
}

func TestC01(t *testing.T) {
	rec := core.Rec("C01")
	rec.SetRule(c01Rule)
	rec.Assume("the header's schema text is taken from yardl's own output (its content is C04's subject)", "C++ is compiled against a std::vector-based array header supplied through the documented cpp.overrideArrayHeader option and a minimal date.h stand-in; the default xtensor header is not exercised", "map entry order and stream block partition are free; NaN payload bits are not compared")
	replayKnown(t, "C01")
	rapid.Check(t, func(rt *rapid.T) {
		cfg := rtGenConfig()
		applyRuntimeExclusions(&cfg)
		// this check has no NDJSON leg: arrays of records / optionals / dates, which an open finding of
		// the Python NDJSON writer keeps out of the other run-time checks, stay in
		delete(cfg.Excl, "array-of-struct")
		cfg.StructArrayPct = 30
		c := genRTCase(rt, &cfg, core.Budget(3, 6), value.GenOpts{Budget: 60, Big: true}, 8)
		rec.Eval()
		recordRTEvidence(rec, c)
		report(rt, rec, checkC01(c), c)
	})
}
