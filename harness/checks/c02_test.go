package checks

import (
	"errors"
	"fmt"
	"os"
	"path/filepath"
	"strings"
	"testing"

	"pgregory.net/rapid"
	"verif/harness/core"
	"verif/harness/ref"
	"verif/harness/sut"
	"verif/harness/value"
)

// C02 — NDJSON round trip and documented JSON mapping.
//
//   W (writer conformance): reference binary stream -> generated binary reader -> generated
//       NDJSON writer; every line must be the documented mapping of the value (ref.Match)
//   R (reader conformance): reference NDJSON text -> generated NDJSON reader -> generated
//       binary writer -> reference decoder = the values
//   RT (round trip): the output of W -> generated NDJSON reader -> binary -> the values

const c02Rule = "generated package x 3-6 value sequences per protocol with finite floats (every union shape the generator produces incl. cases sharing a JSON datatype, optional record fields set/unset in consecutive stream items, enum/flag values outside the declared symbols, maps with string and non-string keys); legs W (generated NDJSON writer output matched line by line against the documented mapping), R (reference NDJSON read by the generated reader) and RT (generated writer -> generated reader), in Python and C++; non-trivial = the protocol touches a union, optional, enum, flags or map; distinct = hash of model text + values"

func ndjsonLangs(c RTCase) []string {
	langs := []string{"python", "cpp"}
	if c.Leg != "" {
		langs = strings.Split(c.Leg, ",")
	} else if v := os.Getenv("VERIF_LEG"); v != "" {
		langs = strings.Split(v, ",")
	}
	return langs
}

func buildFor(rec *core.Recorder, c RTCase, langs []string, ndjson bool) (*sut.Built, map[string]bool, *Fail) {
	b, err := sut.Generate(c.Pkg, sut.BuildOpts{Python: true, Cpp: contains(langs, "cpp"), NDJson: ndjson})
	if err != nil {
		if b != nil {
			b.Cleanup()
		}
		return nil, nil, failf("rt-gen", "generation failed for an accepted model (see C08): %v\n%s", err, modelText(c.Pkg))
	}
	usable := map[string]bool{}
	for _, lang := range langs {
		switch lang {
		case "python":
			if _, err := b.RunPy(nil); err != nil {
				var ie *sut.ImportError
				if errors.As(err, &ie) {
					rec.Skip("python-does-not-build")
					continue
				}
				b.Cleanup()
				return nil, nil, failf("rt-harness", "python driver: %v", err)
			}
			usable[lang] = true
		case "cpp":
			if err := b.BuildCpp(sut.CppOpts{NDJson: ndjson}); err != nil {
				var ce *sut.CompileError
				if errors.As(err, &ce) {
					rec.Skip("cpp-does-not-build")
					continue
				}
				b.Cleanup()
				return nil, nil, failf("rt-harness", "C++ build: %v", err)
			}
			usable[lang] = true
		}
	}
	return b, usable, nil
}

func runJobs(b *sut.Built, lang string, jobs []sut.Job) ([]sut.JobResult, error) {
	if lang == "python" {
		return b.RunPy(jobs)
	}
	return b.RunCpp(jobs)
}

func checkC02(c RTCase) *Fail {
	rec := core.Rec("C02")
	langs := ndjsonLangs(c)
	b, usable, f := buildFor(rec, c, langs, true)
	if f != nil {
		if f.Check == "rt-gen" {
			rec.Skip("generate-failed")
			return nil
		}
		return f
	}
	defer b.Cleanup()
	binIn, err := writeBinaryInputs(b, c)
	if err != nil {
		return failf("rt-harness", "%v", err)
	}
	// reference NDJSON inputs
	var jsonIn []string
	for i, run := range c.Runs {
		p := filepath.Join(b.Root, fmt.Sprintf("in%d.ndjson", i))
		os.WriteFile(p, []byte(ref.EmitProtocol(b.Env, b.Pkg.Find(run.Proto), b.Schemas[run.Proto], run.Steps)), 0o644)
		jsonIn = append(jsonIn, p)
	}
	for _, lang := range langs {
		if !usable[lang] {
			continue
		}
		var jobs []sut.Job
		out := func(i int, leg, ext string) string {
			return filepath.Join(b.Root, fmt.Sprintf("out%d.%s.%s.%s", i, lang, leg, ext))
		}
		for i, run := range c.Runs {
			jobs = append(jobs,
				sut.Job{Op: "copy", Proto: run.Proto, InFmt: "binary", OutFmt: "ndjson", In: binIn[i], Out: out(i, "W", "ndjson")},
				sut.Job{Op: "copy", Proto: run.Proto, InFmt: "ndjson", OutFmt: "binary", In: jsonIn[i], Out: out(i, "R", "bin")},
				sut.Job{Op: "copy", Proto: run.Proto, InFmt: "ndjson", OutFmt: "binary", In: out(i, "W", "ndjson"), Out: out(i, "RT", "bin")})
		}
		results, err := runJobs(b, lang, jobs)
		if err != nil {
			return failf("rt-harness", "%s driver: %v", lang, err)
		}
		for i, run := range c.Runs {
			proto := b.Pkg.Find(run.Proto)
			ctx := func() string { return describeRun(b, run) + "\n" + modelText(c.Pkg) }
			w, r, rt := results[3*i], results[3*i+1], results[3*i+2]
			if !w.OK {
				return failf("c02", "%s W: writing NDJSON failed: %s\n%s", lang, core.Trunc(w.Error, 1200), ctx())
			}
			text, _ := os.ReadFile(out(i, "W", "ndjson"))
			if err := ref.MatchProtocol(b.Env, proto, b.Schemas[run.Proto], run.Steps, string(text)); err != nil {
				return failf("c02", "%s W: generated NDJSON writer output is not the documented mapping: %v\n--- output\n%s\n%s", lang, err, core.Trunc(string(text), 1500), ctx())
			}
			if !r.OK {
				return failf("c02", "%s R: reading a reference NDJSON stream failed: %s\n--- input\n%s\n%s", lang, core.Trunc(r.Error, 1200), core.Trunc(readFile(jsonIn[i]), 1500), ctx())
			}
			if f := decodeAndCompare(b, run, out(i, "R", "bin"), lang+" R (reference NDJSON -> generated reader)"); f != nil {
				f.Msg += "\n--- input\n" + core.Trunc(readFile(jsonIn[i]), 1500) + "\n" + modelText(c.Pkg)
				return f
			}
			if !rt.OK {
				return failf("c02", "%s RT: the generated reader rejects what the generated writer wrote: %s\n--- written\n%s\n%s", lang, core.Trunc(rt.Error, 1200), core.Trunc(string(text), 1500), ctx())
			}
			if f := decodeAndCompare(b, run, out(i, "RT", "bin"), lang+" RT (generated writer -> generated reader)"); f != nil {
				f.Msg += "\n--- written\n" + core.Trunc(string(text), 1500) + "\n" + modelText(c.Pkg)
				return f
			}
			rec.Class("ok:" + lang)
		}
	}
	return nil
}

func readFile(p string) string {
	d, _ := os.ReadFile(p)
	return string(d)
}

// decodeAndCompare: a binary file written by a generated writer must decode (strictly) to the run's values.
func decodeAndCompare(b *sut.Built, run RTRun, path, what string) *Fail {
	data, err := os.ReadFile(path)
	if err != nil {
		return failf("c02", "%s: no output", what)
	}
	dec, derr := ref.DecodeProtocol(b.Env, b.Pkg.Find(run.Proto), data)
	if derr != nil {
		return failf("c02", "%s: binary output does not decode: %v\n%s", what, derr, describeRun(b, run))
	}
	if d := value.StepsEqual(run.Steps, dec.Steps); d != "" {
		return failf("c02", "%s: values changed: %s\n%s", what, d, describeRun(b, run))
	}
	return nil
}

func init() {
	rtReplay("c02", checkC02)
}

func TestC02(t *testing.T) {
	rec := core.Rec("C02")
	rec.SetRule(c02Rule)
	rec.Assume("floats are finite (JSON cannot carry NaN/inf)", "the text of date/time/datetime values is compared by the instant it denotes (the document's own pattern is inconsistent, D2); on the C++ side that text is produced by the harness's date.h stand-in", "numbers are compared numerically at the declared width; the sign of zero is not asserted on the writer side")
	replayKnown(t, "C02")
	rapid.Check(t, func(rt *rapid.T) {
		cfg := rtGenConfig()
		applyRuntimeExclusions(&cfg)
		c := genRTCase(rt, &cfg, core.Budget(3, 6), valueOpts(value.GenOpts{Budget: 50, FiniteFloats: true}, true), 6)
		rec.Eval()
		recordRTEvidence(rec, c)
		report(rt, rec, checkC02(c), c)
	})
}
