package checks

import (
	"encoding/json"
	"fmt"
	"os"
	"path/filepath"
	"sort"
	"strings"
	"testing"

	"pgregory.net/rapid"
	"verif/harness/core"
	"verif/harness/model"
	"verif/harness/ref"
	"verif/harness/sut"
	"verif/harness/value"
)

// C16 — a truncated stream is reported, never mistaken for a complete one.

type C16Case struct {
	RTCase
	Fracs []int `json:"fracs"` // per-mille positions used when the stream is too long to cut everywhere
	// Repeat > 1: the items of the first non-empty stream step of every run are repeated this many
	// times before encoding, so that the stream spans several 64 KiB buffers of the readers (kept as
	// a factor so that replay files stay small)
	Repeat int `json:"repeat,omitempty"`
	// OnlyCuts (replay files of findings): cut the binary stream at exactly these positions
	OnlyCuts []int `json:"only_cuts,omitempty"`
}

// expandRuns applies Repeat (a target size in bytes for the binary encoding of the repeated step).
func (c C16Case) expandRuns(env *model.Env, pkg *model.Package) []RTRun {
	if c.Repeat <= 1 {
		return c.Runs
	}
	var out []RTRun
	for _, r := range c.Runs {
		nr := RTRun{Proto: r.Proto, Steps: append([]value.StepValues{}, r.Steps...)}
		proto := pkg.Find(r.Proto)
		// prefer a step whose items hold fixed-width data (floats, complex numbers, strings): those
		// are read with a minimum byte count, unlike variable-length integers
		pick := -1
		for i, st := range nr.Steps {
			if st.Stream && len(st.Items) > 0 {
				if pick < 0 {
					pick = i
				}
				fixed := false
				model.Walk(env.Underlying(proto.Fields[i].Type.Elem), func(x *model.Type) {
					if x.Kind == model.KPrim && (strings.HasPrefix(x.Prim, "float") || strings.HasPrefix(x.Prim, "complex") || x.Prim == "string") {
						fixed = true
					}
				})
				if fixed {
					pick = i
					break
				}
			}
		}
		for i, st := range nr.Steps {
			if i == pick {
				w := &ref.Writer{}
				for _, it := range st.Items {
					ref.EncodeValue(w, env, proto.Fields[i].Type.Elem, it)
				}
				k := c.Repeat/(len(w.Buf)+1) + 1
				if len(st.Items)*k > 15000 {
					k = 15000 / len(st.Items)
				}
				var items []*value.Value
				for j := 0; j < k; j++ {
					items = append(items, st.Items...)
				}
				nr.Steps[i] = value.StepValues{Stream: true, Items: items}
				break
			}
		}
		out = append(out, nr)
	}
	return out
}

const c16Rule = "valid reference-encoded streams (binary and NDJSON) of generated packages x cut positions: every prefix length when the stream has at most 400 bytes after the header plus 8 positions inside the header; otherwise positions within 3 bytes of every value start (of a sample of them and of all those near a buffer boundary when there are more than 400), within 12 bytes of every multiple of 65536 and 120 generated positions; in a third of the cases strings of 1-3 buffer lengths and vectors of 9000-25000 elements are drawn often, in another third (binary only) a stream step's items are repeated until its encoding exceeds 66-140 kB, so that the stream spans several 64 KiB reader buffers. Each prefix is read by the generated reader (Python; C++ built with AddressSanitizer, in the thorough tier also with UBSan) copying into a generated NDJSON writer. oracle: binary - every strict prefix must end in an error; NDJSON - an error unless the prefix is itself a complete stream under the documented grammar; the values delivered before the error are exactly a prefix of the original values; no sanitizer report, no crash, no hang. non-trivial = the cut lies after the header (inside a value, a length-prefixed container or a stream block); distinct = (model, values, cut position)"

// flatten lists (step index, value) in the order values appear in a stream.
type flatVal struct {
	step int
	typ  *model.Type
	v    *value.Value
}

func flatten(proto *model.Def, steps []value.StepValues) []flatVal {
	var out []flatVal
	for i, st := range proto.Fields {
		if st.Type.Kind == model.KStream {
			for _, it := range steps[i].Items {
				out = append(out, flatVal{i, st.Type.Elem, it})
			}
		} else {
			out = append(out, flatVal{i, st.Type, steps[i].Value})
		}
	}
	return out
}

// valueStarts returns the byte offsets (relative to the whole stream) where each value begins.
func valueStarts(env *model.Env, proto *model.Def, schema string, steps []value.StepValues) []int {
	full := ref.EncodeProtocol(env, proto, schema, steps)
	all := &ref.Writer{}
	ref.EncodeSteps(all, env, proto, steps)
	hdr := len(full) - len(all.Buf)
	var starts []int
	body := &ref.Writer{}
	for i, st := range proto.Fields {
		if st.Type.Kind == model.KStream {
			pos := 0
			blocks := steps[i].Blocks
			if len(blocks) == 0 {
				for range steps[i].Items {
					blocks = append(blocks, 1)
				}
			}
			for _, b := range blocks {
				encodeUvarint(body, uint64(b))
				for j := 0; j < b; j++ {
					starts = append(starts, hdr+len(body.Buf))
					ref.EncodeValue(body, env, st.Type.Elem, steps[i].Items[pos])
					pos++
				}
			}
			body.Buf = append(body.Buf, 0)
		} else {
			starts = append(starts, hdr+len(body.Buf))
			ref.EncodeValue(body, env, st.Type, steps[i].Value)
		}
	}
	return starts
}

func encodeUvarint(w *ref.Writer, x uint64) {
	for x >= 0x80 {
		w.Buf = append(w.Buf, byte(x)|0x80)
		x >>= 7
	}
	w.Buf = append(w.Buf, byte(x))
}

// ndjsonPrefixComplete: is the text a complete stream under the documented grammar?
func ndjsonPrefixComplete(proto *model.Def, text string) bool {
	if text == "" {
		return false
	}
	lines := strings.Split(text, "\n")
	if lines[len(lines)-1] == "" {
		lines = lines[:len(lines)-1]
	}
	if len(lines) == 0 {
		return false
	}
	var keys []string
	for i, l := range lines {
		var obj map[string]json.RawMessage
		if json.Unmarshal([]byte(l), &obj) != nil || len(obj) != 1 {
			return false
		}
		for k := range obj {
			if i == 0 {
				if k != "yardl" {
					return false
				}
			} else {
				keys = append(keys, k)
			}
		}
	}
	pos := 0
	for _, st := range proto.Fields {
		if st.Type.Kind == model.KStream {
			for pos < len(keys) && keys[pos] == st.Name {
				pos++
			}
		} else {
			if pos >= len(keys) || keys[pos] != st.Name {
				return false
			}
			pos++
		}
	}
	return pos == len(keys)
}

func cutPositions(total, headerLen int, starts []int, fracs []int) []int {
	set := map[int]bool{}
	add := func(p int) {
		if p >= 0 && p < total {
			set[p] = true
		}
	}
	for _, p := range []int{0, 1, 4, 5, 8, 9, 10, headerLen / 2, headerLen - 1} {
		add(p)
	}
	if total-headerLen <= 400 {
		for p := headerLen; p < total; p++ {
			add(p)
		}
	} else {
		thin := 1
		if len(starts) > 120 {
			thin = len(starts) / 40 // long streams: every thin-th value start, and all those near a buffer boundary
			if len(fracs) > 30 {
				fracs = fracs[:30]
			}
		}
		for i, s := range starts {
			near := s%65536 < 48 || s%65536 > 65536-48
			if i%thin != 0 && !near {
				continue
			}
			for d := -3; d <= 3; d++ {
				add(s + d)
			}
		}
		for m := 65536; m < total+8; m += 65536 {
			for d := -12; d <= 12; d++ {
				add(m + d)
			}
		}
		for _, f := range fracs {
			add(headerLen + (total-headerLen)*f/1000)
		}
		add(total - 1)
		add(total - 2)
	}
	var out []int
	for p := range set {
		out = append(out, p)
	}
	sort.Ints(out)
	return out
}

func checkC16(c C16Case) *Fail {
	rec := core.Rec("C16")
	langs := []string{"python", "cpp"}
	if v := os.Getenv("VERIF_LEG"); v != "" {
		langs = strings.Split(v, ",")
	}
	b, err := sut.Generate(c.Pkg, sut.BuildOpts{Python: true, Cpp: contains(langs, "cpp"), NDJson: true})
	if b != nil {
		defer b.Cleanup()
	}
	if err != nil {
		rec.Skip("generate-failed")
		return nil
	}
	usable := map[string]bool{}
	for _, lang := range langs {
		if lang == "python" {
			if _, err := b.RunPy([]sut.Job{}); err == nil {
				usable[lang] = true
			} else {
				rec.Skip("python-does-not-build")
			}
		} else if err := b.BuildCpp(sut.CppOpts{NDJson: true, ASan: true, UBSan: core.Thorough()}); err == nil {
			usable[lang] = true
		} else {
			rec.Skip("cpp-does-not-build")
		}
	}
	for ri, run := range c.expandRuns(b.Env, b.Pkg) {
		proto := b.Pkg.Find(run.Proto)
		schema := b.Schemas[run.Proto]
		flat := flatten(proto, run.Steps)
		for _, fmtName := range []string{"binary", "ndjson"} {
			if c.Repeat > 1 && fmtName == "ndjson" {
				continue // long streams are about the 64 KiB buffers of the binary readers
			}
			var full []byte
			var starts []int
			headerLen := 0
			if fmtName == "binary" {
				full = ref.EncodeProtocol(b.Env, proto, schema, run.Steps)
				w := &ref.Writer{}
				ref.EncodeSteps(w, b.Env, proto, run.Steps)
				headerLen = len(full) - len(w.Buf)
				starts = valueStarts(b.Env, proto, schema, run.Steps)
			} else {
				full = []byte(ref.EmitProtocol(b.Env, proto, schema, run.Steps))
				headerLen = strings.Index(string(full), "\n") + 1
				pos := headerLen
				for _, l := range strings.SplitAfter(string(full[headerLen:]), "\n") {
					starts = append(starts, pos)
					pos += len(l)
				}
			}
			cuts := cutPositions(len(full), headerLen, starts, c.Fracs)
			if len(c.OnlyCuts) > 0 {
				if fmtName != "binary" {
					continue
				}
				cuts = nil
				for _, p := range c.OnlyCuts {
					if p < len(full) {
						cuts = append(cuts, p)
					}
				}
			}
			for _, lang := range langs {
				if !usable[lang] {
					continue
				}
				cuts := cuts
				if lang == "python" && len(full) > 40000 && len(cuts) > 90 && len(c.OnlyCuts) == 0 {
					// the Python reader needs about a second per 100 kB prefix: keep the cuts next to the
					// buffer boundaries and an even sample of the others
					var keep []int
					step := len(cuts)/60 + 1
					for k, p := range cuts {
						if m := p % 65536; m < 16 || m > 65536-16 || k%step == 0 {
							keep = append(keep, p)
						}
					}
					cuts = keep
					rec.Class("python-cuts-thinned")
				}
				var jobs []sut.Job
				for _, cut := range cuts {
					in := filepath.Join(b.Root, fmt.Sprintf("cut%d.%s.%d", ri, fmtName, cut))
					os.WriteFile(in, full[:cut], 0o644)
					jobs = append(jobs, sut.Job{Op: "copy", Proto: run.Proto, InFmt: fmtName, OutFmt: "ndjson", In: in, Out: in + "." + lang + ".out"})
				}
				results, err := runJobs(b, lang, jobs)
				if err != nil {
					return failf("rt-harness", "%s driver: %v", lang, err)
				}
				for k, cut := range cuts {
					rec.EvalN(1)
					ctx := func() string {
						return fmt.Sprintf("%s reader, %s stream of %d bytes (header %d) cut at %d\n%s\n%s", lang, fmtName, len(full), headerLen, cut, describeRun(b, run), modelText(c.Pkg))
					}
					res := results[k]
					if strings.HasPrefix(res.Error, "CRASH") {
						return failf("c16", "crash or sanitizer report: %s\n%s", core.Trunc(res.Error, 2500), ctx())
					}
					complete := fmtName == "ndjson" && ndjsonPrefixComplete(proto, string(full[:cut]))
					if res.OK && !complete {
						return failf("c16", "the reader completed normally on a truncated stream\n%s", ctx())
					}
					lines := deliveredLines(jobs[k].Out)
					if len(lines) > len(flat) {
						return failf("c16", "%d values delivered but only %d were written\n%s", len(lines), len(flat), ctx())
					}
					for li, l := range lines {
						if c.Repeat > 1 && li >= 5 && li < len(lines)-60 {
							continue // long streams: the first values and the ones delivered last are compared
						}
						fv := flat[li]
						var obj map[string]any
						dec := json.NewDecoder(strings.NewReader(l))
						dec.UseNumber()
						if dec.Decode(&obj) != nil || len(obj) != 1 {
							return failf("c16", "delivered line %d is not a {step: value} object: %s\n%s", li, core.Trunc(l, 300), ctx())
						}
						g, ok := obj[proto.Fields[fv.step].Name]
						if !ok {
							return failf("c16", "delivered value %d belongs to another step than the value written at that position: %s\n%s", li, core.Trunc(l, 300), ctx())
						}
						if err := ref.Match(b.Env, fv.typ, fv.v, g); err != nil {
							return failf("c16", "value %d delivered before the error differs from the value written at that position: %v\n%s", li, err, ctx())
						}
					}
					if cut >= headerLen {
						rec.Nontrivial(core.Hash(modelText(c.Pkg), run, fmtName, cut, lang))
						rec.Class("cut-after-header:" + lang + ":" + fmtName)
					} else {
						rec.Class("cut-in-header")
					}
					os.Remove(jobs[k].In)
					os.Remove(jobs[k].Out)
				}
			}
		}
	}
	return nil
}

func init() {
	registerReplay("c16", func(raw json.RawMessage) *Fail {
		var c C16Case
		if err := json.Unmarshal(raw, &c); err != nil {
			return failf("c16", "bad replay: %v", err)
		}
		c.fix()
		return checkC16(c)
	})
}

func TestC16(t *testing.T) {
	rec := core.Rec("C16")
	rec.SetRule(c16Rule)
	rec.Assume("the C++ driver is built with -fsanitize=address (thorough tier: address,undefined); the Python leg counts any exception as 'reported'", "delivered values are observed at a generated NDJSON writer used as the sink", "a 300 s limit per batch of cuts stands for 'does not hang'")
	replayKnown(t, "C16")
	rapid.Check(t, func(rt *rapid.T) {
		cfg := rtGenConfig()
		applyRuntimeExclusions(&cfg)
		cfg.MaxProtocols = 1
		cfg.MaxSteps = 4
		mode := rapid.IntRange(0, 2).Draw(rt, "long") // 0: repeated items, 1: big values, else: as drawn
		c := C16Case{RTCase: genRTCase(rt, &cfg, 1, valueOpts(value.GenOpts{Budget: 25, FiniteFloats: true, Big: true, BigBoost: mode == 1}, true), 5)}
		c.Fracs = rapid.SliceOfN(rapid.IntRange(0, 999), 120, 120).Draw(rt, "fracs")
		if mode == 0 {
			c.Repeat = rapid.SampledFrom([]int{66000, 70000, 140000}).Draw(rt, "repeat")
		}
		rec.Sample(map[string]any{"model": core.Trunc(modelText(c.Pkg), 400)})
		report(rt, rec, checkC16(c), c)
	})
}
