package checks

import (
	"bytes"
	"encoding/json"
	"fmt"
	"os"
	"path/filepath"
	"strings"
	"testing"

	"pgregory.net/rapid"
	"verif/harness/core"
	"verif/harness/ref"
	"verif/harness/sut"
	"verif/harness/value"
)

// C03 — streams are portable across target languages and formats.
//
// A reference-encoded stream is pushed through a generated chain of hops, each hop being a
// generated reader of one language copying into a generated writer of the same language in
// some format; the next hop is taken by the other language. After every hop the stream must be
// accepted and carry the original values; every binary output must be byte-identical to the
// reference encoding of those values under the block partition / map order it uses.

type Hop struct {
	Lang string `json:"lang"`
	Out  string `json:"out"` // binary | ndjson
}

type C03Case struct {
	RTCase
	StartFmt string `json:"start_fmt"`
	Hops     []Hop  `json:"hops"`
	// Repeat > 1: one stream step of every run is repeated until its binary encoding reaches this many
	// bytes (streams spanning several 64 KiB buffers), applied when the case is checked
	Repeat int `json:"repeat,omitempty"`
	// PyMode: how the Python hops copy ("" = reader.copy_to(writer); list = every stream is first
	// collected into a list and then written)
	PyMode string `json:"py_mode,omitempty"`
}

const c03Rule = "generated package x value sequences (finite floats) x a generated chain of 2-5 hops alternating between the generated C++ and Python code, each hop reading the previous hop's output (binary or NDJSON, starting from a reference-encoded stream) and writing binary or NDJSON; a quarter of the cases repeat one stream step (preferring items that hold arrays/vectors of fixed-width elements) until the stream spans several 64 KiB buffers, and half of the cases let the Python hops collect every stream into a list before writing it; oracle after every hop: accepted, NDJSON output matches the documented mapping, binary output decodes strictly to the original values and is byte-identical to the reference encoding of those values (same block partition and map order); non-trivial = the chain crosses a language boundary and a format boundary; distinct = hash of model + values + chain"

func checkC03(c C03Case) *Fail {
	rec := core.Rec("C03")
	b, usable, f := buildFor(rec, c.RTCase, []string{"python", "cpp"}, true)
	if f != nil {
		if f.Check == "rt-gen" {
			rec.Skip("generate-failed")
			return nil
		}
		return f
	}
	defer b.Cleanup()
	if !usable["python"] || !usable["cpp"] {
		rec.Skip("one-language-does-not-build")
		return nil
	}
	if c.Repeat > 1 {
		c.Runs = repeatRuns(b.Env, b.Pkg, c.Runs, c.Repeat, 0)
		rec.Class("long-stream")
	}
	// starting streams
	cur := make([]string, len(c.Runs))
	curFmt := c.StartFmt
	for i, run := range c.Runs {
		proto := b.Pkg.Find(run.Proto)
		if curFmt == "binary" {
			cur[i] = filepath.Join(b.Root, fmt.Sprintf("hop0.%d.bin", i))
			os.WriteFile(cur[i], ref.EncodeProtocol(b.Env, proto, b.Schemas[run.Proto], run.Steps), 0o644)
		} else {
			cur[i] = filepath.Join(b.Root, fmt.Sprintf("hop0.%d.ndjson", i))
			os.WriteFile(cur[i], []byte(ref.EmitProtocol(b.Env, proto, b.Schemas[run.Proto], run.Steps)), 0o644)
		}
	}
	history := "reference(" + curFmt + ")"
	for h, hop := range c.Hops {
		var jobs []sut.Job
		next := make([]string, len(c.Runs))
		for i, run := range c.Runs {
			ext := "bin"
			if hop.Out == "ndjson" {
				ext = "ndjson"
			}
			next[i] = filepath.Join(b.Root, fmt.Sprintf("hop%d.%d.%s", h+1, i, ext))
			j := sut.Job{Op: "copy", Proto: run.Proto, InFmt: curFmt, OutFmt: hop.Out, In: cur[i], Out: next[i]}
			if hop.Lang == "python" {
				j.Mode = c.PyMode
			}
			jobs = append(jobs, j)
		}
		results, err := runJobs(b, hop.Lang, jobs)
		if err != nil {
			return failf("rt-harness", "%s driver: %v", hop.Lang, err)
		}
		step := fmt.Sprintf("%s -> %s(%s->%s)", history, hop.Lang, curFmt, hop.Out)
		for i, run := range c.Runs {
			proto := b.Pkg.Find(run.Proto)
			ctx := func() string {
				return "chain: " + step + "\n" + describeRun(b, run) + "\n--- input of this hop\n" + core.Trunc(printable(readFile(cur[i])), 1200) + "\n" + modelText(c.Pkg)
			}
			if !results[i].OK {
				return failf("c03", "a stream written by generated code is rejected by the generated %s reader: %s\n%s", hop.Lang, core.Trunc(results[i].Error, 1000), ctx())
			}
			data, _ := os.ReadFile(next[i])
			if hop.Out == "binary" {
				dec, derr := ref.DecodeProtocol(b.Env, proto, data)
				if derr != nil {
					return failf("c03", "binary output does not decode under the published format: %v\n%s", derr, ctx())
				}
				if d := value.StepsEqual(run.Steps, dec.Steps); d != "" {
					return failf("c03", "values changed: %s\n%s", d, ctx())
				}
				canon := ref.EncodeProtocol(b.Env, proto, dec.Schema, dec.Steps)
				if !bytes.Equal(canon, data) {
					return failf("c03", "binary output is not the canonical encoding of its values (differs at byte %d of %d)\n%s", firstDiffByte(canon, data), len(data), ctx())
				}
			} else {
				if err := ref.MatchProtocol(b.Env, proto, b.Schemas[run.Proto], run.Steps, string(data)); err != nil {
					return failf("c03", "NDJSON output is not the documented mapping of the original values: %v\n--- output\n%s\n%s", err, core.Trunc(string(data), 1200), ctx())
				}
			}
		}
		history = fmt.Sprintf("%s -> %s(%s)", history, hop.Lang, hop.Out)
		cur, curFmt = next, hop.Out
		rec.Class("hop:" + hop.Lang + ":" + hop.Out)
	}
	return nil
}

func printable(s string) string {
	if strings.HasPrefix(s, "yardl") {
		return fmt.Sprintf("(binary, %d bytes) % x", len(s), []byte(s[:minI(len(s), 200)]))
	}
	return s
}

func minI(a, b int) int {
	if a < b {
		return a
	}
	return b
}

func firstDiffByte(a, b []byte) int {
	for i := 0; i < len(a) && i < len(b); i++ {
		if a[i] != b[i] {
			return i
		}
	}
	return minI(len(a), len(b))
}

func genHops(t *rapid.T) (string, []Hop) {
	start := rapid.SampledFrom([]string{"binary", "ndjson"}).Draw(t, "startFmt")
	n := rapid.IntRange(2, 5).Draw(t, "hops")
	lang := rapid.SampledFrom([]string{"python", "cpp"}).Draw(t, "firstLang")
	var hops []Hop
	for i := 0; i < n; i++ {
		hops = append(hops, Hop{Lang: lang, Out: rapid.SampledFrom([]string{"binary", "ndjson"}).Draw(t, "outFmt")})
		if lang == "python" {
			lang = "cpp"
		} else {
			lang = "python"
		}
	}
	return start, hops
}

func init() {
	registerReplay("c03", func(raw json.RawMessage) *Fail {
		var c C03Case
		if err := json.Unmarshal(raw, &c); err != nil {
			return failf("c03", "bad replay: %v", err)
		}
		c.fix()
		return checkC03(c)
	})
}

func TestC03(t *testing.T) {
	rec := core.Rec("C03")
	rec.SetRule(c03Rule)
	rec.Assume("MATLAB cannot be an endpoint (no interpreter in the sandbox)", "floats are finite because NDJSON hops are part of the chains", "C++ date/time text is produced by the harness's date.h stand-in: a disagreement on those types is triaged against the stand-in first")
	replayKnown(t, "C03")
	rapid.Check(t, func(rt *rapid.T) {
		cfg := rtGenConfig()
		cfg.BulkStreamPct = 35
		applyRuntimeExclusions(&cfg)
		c := C03Case{RTCase: genRTCase(rt, &cfg, core.Budget(2, 4), valueOpts(value.GenOpts{Budget: 40, FiniteFloats: true}, true), 5)}
		c.StartFmt, c.Hops = genHops(rt)
		if rapid.IntRange(0, 3).Draw(rt, "long") == 0 {
			c.Repeat = rapid.SampledFrom([]int{70000, 140000}).Draw(rt, "repeat")
		}
		if rapid.Bool().Draw(rt, "pyList") {
			c.PyMode = "list"
		}
		rec.Eval()
		crossesFmt := false
		prev := c.StartFmt
		for _, h := range c.Hops {
			if h.Out != prev {
				crossesFmt = true
			}
			prev = h.Out
		}
		if crossesFmt {
			rec.Nontrivial(core.Hash(modelText(c.Pkg), c.Runs, c.Hops, c.StartFmt))
			rec.Sample(map[string]any{"start": c.StartFmt, "hops": c.Hops, "model": core.Trunc(modelText(c.Pkg), 500)})
		}
		report(rt, rec, checkC03(c), c)
	})
}
