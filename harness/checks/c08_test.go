package checks

import (
	_ "embed"
	"encoding/json"
	"fmt"
	"os"
	"path/filepath"
	"regexp"
	"sort"
	"strings"
	"sync"
	"testing"
	"time"

	"pgregory.net/rapid"
	"verif/harness/core"
	"verif/harness/model"
	"verif/harness/sut"
)

// C08 — every accepted package yields well-formed code for every target and option set.

type C08Case struct {
	Kind     string         `json:"kind"` // model | init
	Pkg      *model.Package `json:"pkg,omitempty"`
	Manifest string         `json:"manifest,omitempty"`
	Compile  bool           `json:"compile"` // C++ can be compiled (array header overridden with the harness's)
	InitName string         `json:"init_name,omitempty"`
	Hostile  []string       `json:"hostile,omitempty"` // hostile identifiers/comments used
	Pairs    []string       `json:"pairs,omitempty"`   // deliberately near-colliding identifier pairs
	Order    []int          `json:"order,omitempty"`   // order in which the main package's definitions are written (nil = generation order, uses after definitions)
}

const c08Rule = "accepted generated packages whose type, field, step, enum-symbol, union-tag, dimension and namespace names are drawn from target-language reserved words and generated-helper names in every legal casing (class, int, namespace, None, match, end, function, self, value, schema, copyTo, T_NP...), with near-colliding pairs under snake/Pascal conversion (fooBar/fooBAR...), hostile documentation comments (*/, triple quotes, trailing backslash, %, non-ASCII) x generated option sets (any subset of cpp/python/matlab/json; generateNDJson, generateHDF5, generateCMakeLists, overrideArrayHeader) and the scaffold written by `yardl init <name>` for generated names. oracle: validate exits 0 => generate exits 0 without panic; every generated .py byte-compiles and the package imports; generated C++ passes g++ -std=c++17 -fsyntax-only (when the array header is overridden, HDF5 sources excluded); no duplicate attribute in a generated Python class; no case-insensitive duplicate among generated MATLAB files. non-trivial = at least one hostile identifier/comment or a non-default option; distinct = hash of model + options"

var hostileTypeNames = []string{"Class", "Int", "Namespace", "None", "Match", "End", "Function", "Std", "Yardl", "Import", "Self", "Type", "Union", "Record", "Protocol", "Vector", "Array", "Map", "Optional", "String", "Bool", "Double", "Float", "Long", "Size", "Date", "Time", "DateTime", "Any", "Object", "List", "Dict", "Binary", "NDJson", "Version", "Struct", "Template", "Typename", "Auto", "Delete", "New", "This", "Operator", "Enum", "Const", "Static", "Value", "Values", "Stream", "Schema", "Int32", "Float32", "Exception", "True", "False", "Null", "Def", "Lambda", "Return", "Global", "Numpy", "Np", "Abc", "Typing", "Datetime", "Complex", "Main", "Error", "Properties", "Methods", "Classdef", "Cell", "Table", "Handle"}
var hostileMemberNames = []string{"class", "int", "namespace", "none", "match", "end", "function", "self", "type", "def", "import", "from", "lambda", "return", "struct", "template", "typename", "auto", "register", "delete", "new", "this", "operator", "union", "enum", "const", "static", "value", "values", "stream", "schema", "close", "copyTo", "flush", "read", "write", "index", "tag", "hasValue", "int32", "float32", "size", "string", "date", "time", "bool", "double", "float", "long", "true", "false", "null", "and", "or", "not", "is", "in", "if", "else", "for", "while", "try", "except", "with", "as", "pass", "yield", "async", "await", "global", "del", "assert", "break", "continue", "switch", "case", "default", "do", "goto", "inline", "virtual", "friend", "private", "public", "protected", "volatile", "signed", "unsigned", "short", "char", "void", "extern", "typedef", "sizeof", "alignas", "constexpr", "noexcept", "nullptr", "std", "yardl", "np", "numpy", "dtype", "properties", "methods", "classdef", "obj", "varargin", "nargin", "isa", "numel", "zeros", "ones", "cell", "disp", "error", "otherwise", "elseif", "parfor", "persistent", "other", "res", "item", "state", "version",
	// camelCase names whose snake_case form is a multi-word C++ keyword or alternative token
	"notEq", "andEq", "orEq", "xorEq", "constCast", "staticCast", "dynamicCast", "reinterpretCast", "staticAssert", "threadLocal", "wcharT", "char16T", "char32T", "coAwait", "coReturn", "coYield", "bitAnd", "bitOr"}
var collidingPairs = [][2]string{{"fooBar", "fooBAR"}, {"x1y", "x1Y"}, {"ioReader", "iOReader"}, {"myM1", "myM_1x"}, {"aB", "ab"}}
var hostileComments = []string{"ends a C comment */ here", "triple \"\"\" quote", "backslash at end \\", "percent %d %s", "non-ASCII é 日本 😀", "% matlab comment", "\"quoted\" 'single'", "<html> & entity", "#include <x>", "{brace} [bracket]"}

func hostilize(t *rapid.T, p *model.Package, c *C08Case) {
	pick := func(pool []string, used map[string]bool, label string) (string, bool) {
		for tries := 0; tries < 6; tries++ {
			n := pool[rapid.IntRange(0, len(pool)-1).Draw(t, label)]
			if !used[n] {
				// names that differ only in capitalisation (DateTime/Datetime) are the subject of the
				// finding C08-case-conversion-collision: not drawn together while it is open
				clash := false
				if core.Open("C08-case-conversion-collision") {
					for u := range used {
						if strings.EqualFold(u, n) {
							clash = true
						}
					}
				}
				if clash {
					core.Rec("C08").Class("excluded:names-differing-only-in-case")
					continue
				}
				used[n] = true
				return n, true
			}
		}
		return "", false
	}
	comment := func(label string) string {
		if rapid.IntRange(0, 3).Draw(t, label) == 0 {
			cm := hostileComments[rapid.IntRange(0, len(hostileComments)-1).Draw(t, label+"Idx")]
			c.Hostile = append(c.Hostile, "comment:"+cm)
			return cm
		}
		return ""
	}
	usedTypes := map[string]bool{}
	for _, q := range p.AllPackages() {
		for _, d := range q.Defs {
			usedTypes[d.Name] = true
		}
	}
	switchAdded := false
	for _, d := range p.Defs {
		d.Computed = nil
		d.Comment = comment("defComment")
		if rapid.IntRange(0, 1).Draw(t, "renameDef") == 0 {
			if n, ok := pick(okWords("type", hostileTypeNames), usedTypes, "typeName"); ok {
				old := d.Name
				for _, s := range model.Slots(p) {
					if x := s.Get(); x.Kind == model.KRef && x.Ns == p.Namespace && x.Name == old {
						x.Name = n
					}
				}
				// union tags derived from type names follow the type
				for _, s := range model.Slots(p) {
					if x := s.Get(); x.Kind == model.KUnion && !x.ExplicitTags {
						for i, cs := range x.Cases {
							if cs != nil && cs.Kind == model.KRef && cs.Name == n {
								x.Tags[i] = n
							}
						}
					}
				}
				d.Name = n
				c.Hostile = append(c.Hostile, "type:"+n)
			}
		}
		usedMembers := map[string]bool{}
		for i := range d.Fields {
			usedMembers[d.Fields[i].Name] = true
		}
		posName := "member"
		if d.Kind == model.DProtocol {
			posName = "step"
		}
		for i := range d.Fields {
			d.Fields[i].Comment = comment("fieldComment")
			if rapid.IntRange(0, 1).Draw(t, "renameField") == 0 {
				if n, ok := pick(okWords(posName, hostileMemberNames), usedMembers, "memberName"); ok {
					d.Fields[i].Name = n
					c.Hostile = append(c.Hostile, posName+":"+n)
				}
			}
		}
		if (d.Kind == model.DRecord || d.Kind == model.DProtocol) && len(d.Fields) >= 1 && rapid.IntRange(0, 11).Draw(t, "pair") == 0 {
			pr := collidingPairs[rapid.IntRange(0, len(collidingPairs)-1).Draw(t, "pairIdx")]
			if !usedMembers[pr[0]] && !usedMembers[pr[1]] {
				d.Fields = append(d.Fields, model.Field{Name: pr[0], Type: model.Prim("int32")}, model.Field{Name: pr[1], Type: model.Prim("int32")})
				c.Pairs = append(c.Pairs, pr[0]+"/"+pr[1])
			}
		}
		usedSyms := map[string]bool{}
		for i := range d.Values {
			usedSyms[d.Values[i].Symbol] = true
		}
		for i := range d.Values {
			d.Values[i].Comment = comment("symComment")
			if rapid.IntRange(0, 1).Draw(t, "renameSym") == 0 {
				if n, ok := pick(okWords("symbol", hostileMemberNames), usedSyms, "symName"); ok {
					d.Values[i].Symbol = n
					c.Hostile = append(c.Hostile, "symbol:"+n)
				}
			}
		}
		if d.Kind == model.DRecord && len(d.TypeParams) == 0 && !switchAdded && rapid.IntRange(0, 2).Draw(t, "hostileSwitch") == 0 {
			// a !switch over an optional field (added for the purpose) whose pattern variable has a
			// hostile name and is used in the case expression
			if n, ok := pick(okWords("swvar", hostileMemberNames), usedMembers, "swVarName"); ok && !usedMembers["swTarget"] {
				prim := rapid.SampledFrom([]string{"int32", "float64", "uint8", "string"}).Draw(t, "swPrim")
				other := "0"
				if prim == "string" {
					other = "\"none\""
				}
				// the switch target is an optional, a union or a plain value (each has its own code path in the emitters)
				switch rapid.IntRange(0, 2).Draw(t, "swTargetKind") {
				case 0:
					d.Fields = append(d.Fields, model.Field{Name: "swTarget", Type: model.Optional(model.Prim(prim))})
					d.Computed = append(d.Computed, model.Computed{Name: "viaSwitch", Switch: &model.SwitchExpr{Target: "swTarget",
						Cases: []model.SwitchCase{{Pattern: prim + " " + n, Expr: n}, {Pattern: "null", Expr: other}}}})
				case 1:
					d.Fields = append(d.Fields, model.Field{Name: "swTarget", Type: &model.Type{Kind: model.KUnion, Cases: []*model.Type{model.Prim(prim), model.Prim("bool")}, Tags: []string{prim, "bool"}}})
					d.Computed = append(d.Computed, model.Computed{Name: "viaSwitch", Switch: &model.SwitchExpr{Target: "swTarget",
						Cases: []model.SwitchCase{{Pattern: prim + " " + n, Expr: n}, {Pattern: "bool", Expr: other}}}})
				default:
					d.Fields = append(d.Fields, model.Field{Name: "swTarget", Type: model.Prim(prim)})
					d.Computed = append(d.Computed, model.Computed{Name: "viaSwitch", Switch: &model.SwitchExpr{Target: "swTarget",
						Cases: []model.SwitchCase{{Pattern: prim + " " + n, Expr: n}}}})
				}
				c.Hostile = append(c.Hostile, "swvar:"+n)
				switchAdded = true
			}
		}
		if d.Kind == model.DRecord && rapid.IntRange(0, 3).Draw(t, "hostileCF") == 0 {
			if n, ok := pick(okWords("computed", hostileMemberNames), usedMembers, "cfName"); ok && !(strings.EqualFold(n, d.Name) && core.Open("C08-case-conversion-collision")) {
				d.Computed = append(d.Computed, model.Computed{Name: n, Expr: "1", Comment: comment("cfComment")})
				c.Hostile = append(c.Hostile, "computed:"+n)
			}
		}
	}
	// explicit union tags and dimension names
	for _, s := range model.Slots(p) {
		x := s.Get()
		if x.Kind == model.KUnion && x.ExplicitTags && rapid.IntRange(0, 1).Draw(t, "renameTags") == 0 {
			used := map[string]bool{}
			for i := range x.Tags {
				if x.Cases[i] == nil {
					continue
				}
				if n, ok := pick(okWords("tag", hostileMemberNames), used, "tagName"); ok {
					x.Tags[i] = n
					c.Hostile = append(c.Hostile, "tag:"+n)
				}
			}
		}
		if x.Kind == model.KArray && x.HasDims && len(x.Dims) > 0 && x.Dims[0].Name != "" && rapid.IntRange(0, 1).Draw(t, "renameDims") == 0 {
			used := map[string]bool{}
			for i := range x.Dims {
				if n, ok := pick(okWords("dim", hostileMemberNames), used, "dimName"); ok {
					x.Dims[i].Name = n
					c.Hostile = append(c.Hostile, "dim:"+n)
				}
			}
		}
	}
	if rapid.IntRange(0, 2).Draw(t, "renameNs") == 0 {
		n := rapid.SampledFrom(okWords("namespace", hostileTypeNames)).Draw(t, "nsName")
		old := p.Namespace
		for _, s := range model.Slots(p) {
			if x := s.Get(); x.Kind == model.KRef && x.Ns == old {
				x.Ns = n
			}
		}
		p.Namespace = n
		c.Hostile = append(c.Hostile, "namespace:"+n)
	}
}

//go:embed c08_words.json
var c08WordsJSON []byte

var (
	c08WordsOnce sync.Once
	c08Words     map[string]map[string]string
	c08Excluded  int64
)

// c08ContextPairs: (position, word) pairs that break a target only together with another
// feature of the model, which the one-word-at-a-time sweep cannot see. Same root cause and
// same finding as the sweep table (names are not escaped against generated helper names).
var c08ContextPairs = map[string]string{
	// the generated writer/reader class gets methods WriteUnion/ReadUnion, which hide the file-local
	// WriteUnion<...>/ReadUnion<...> serializer templates used by any union-typed step of that protocol
	// a !flags type is a C++ class with a method Value(); named `Value` that is its constructor
	"type:Value": "generated C++ does not compile as C++17 when the type is a !flags: | yardl/detail/binary/serializers.h: error: invalid use of 'Value::Value'",
	"step:union": "generated C++ does not compile as C++17 when the protocol also has a union-typed step: | binary/protocols.cc: error: parse error in template argument list",
}

func loadC08Words() {
	json.Unmarshal(c08WordsJSON, &c08Words)
	for k, v := range c08ContextPairs {
		i := strings.Index(k, ":")
		if c08Words[k[:i]] == nil {
			c08Words[k[:i]] = map[string]string{}
		}
		c08Words[k[:i]][k[i+1:]] = v
	}
}

// okWords filters a pool by the sweep table: (position, word) pairs that are known to break a
// target are listed under the finding C08-unescaped-identifier and are excluded by
// construction while that finding is open (the exclusions are counted).
func okWords(pos string, pool []string) []string {
	c08WordsOnce.Do(loadC08Words)
	if !core.Open("C08-unescaped-identifier") {
		return pool
	}
	var out []string
	for _, w := range pool {
		if v, ok := c08Words[pos][w]; ok && v != "ok" {
			continue
		}
		out = append(out, w)
	}
	return out
}

func genC08(t *rapid.T) C08Case {
	if rapid.IntRange(0, 7).Draw(t, "init") == 0 {
		name := rapid.SampledFrom([]string{"sandbox", "my-project", "my_project", "MyProject", "9x", "x", "class", "int", "my project", "std", "a-b-c", "__init__", "Hello World", "é", "foo.bar", "main", "yardl", "test"}).Draw(t, "initName")
		return C08Case{Kind: "init", InitName: name}
	}
	if rapid.IntRange(0, 3).Draw(t, "sweepSample") == 0 {
		// a sample of the (position, word) table: one word of the member pool at every position at once, or one
		// word of the type pool as type name / namespace; all targets are generated and compiled
		man := "cpp:\n  sourcesOutputDir: ../out/cpp\n  overrideArrayHeader: verif_ndarray.h\n  generateHDF5: false\n  generateCMakeLists: false\npython:\n  outputDir: ../out/py\nmatlab:\n  outputDir: ../out/m\n"
		if rapid.IntRange(0, 4).Draw(t, "sweepType") == 0 {
			pos := rapid.SampledFrom([]string{"type", "namespace"}).Draw(t, "sweepTypePos")
			if pool := okWords(pos, hostileTypeNames); len(pool) > 0 {
				w := rapid.SampledFrom(pool).Draw(t, "sweepTypeWord")
				return C08Case{Kind: "model", Pkg: sweepModel(pos, w), Compile: true, Manifest: man, Hostile: []string{pos + ":" + w}}
			}
		}
		w := rapid.SampledFrom(hostileMemberNames).Draw(t, "sweepWord")
		okAt := func(pos string) bool {
			for _, x := range okWords(pos, []string{w}) {
				if x == w {
					return true
				}
			}
			return false
		}
		p, used := sweepModelMulti(w, okAt)
		return C08Case{Kind: "model", Pkg: p, Compile: true, Manifest: man, Hostile: used}
	}
	cfg := model.DefaultGen()
	cfg.MaxDefs = 6
	cfg.RootNamespace = "Mdl"
	cfg.Comments = false
	cfg.ArgRefPct = 20
	applyRuntimeExclusionsFor(&cfg, "C08")
	p := model.GenPackage(t, &cfg)
	c := C08Case{Kind: "model", Pkg: p}
	lateUser, lateArg, late := 0, 0, false
	if rapid.IntRange(0, 3).Draw(t, "lateUse") == 0 {
		// a local type used only as a type argument of an imported generic type
		lateUser, lateArg, late = model.AddLateUse(p, func(l string, n int) int { return rapid.IntRange(0, n-1).Draw(t, l) })
	}
	if late || rapid.Bool().Draw(t, "shuffleDefs") {
		// definitions may be written in any order: a type may be used before it is defined
		c.Order = rapid.Permutation(seq(len(p.Defs))).Draw(t, "defOrder")
		if late {
			iu, ia := -1, -1
			for i, d := range c.Order {
				if d == lateUser {
					iu = i
				}
				if d == lateArg {
					ia = i
				}
			}
			if iu > ia {
				c.Order[iu], c.Order[ia] = c.Order[ia], c.Order[iu]
			}
		}
	}
	if rapid.IntRange(0, 3).Draw(t, "hostile") != 0 {
		hostilize(t, p, &c)
	}
	var m strings.Builder
	c.Compile = true
	backends := 0
	if rapid.IntRange(0, 4).Draw(t, "cpp") != 0 {
		backends++
		m.WriteString("cpp:\n  sourcesOutputDir: ../out/cpp\n")
		if rapid.IntRange(0, 3).Draw(t, "override") != 0 {
			m.WriteString("  overrideArrayHeader: verif_ndarray.h\n")
		} else {
			c.Compile = false
		}
		for _, opt := range []string{"generateHDF5", "generateNDJson", "generateCMakeLists"} {
			if rapid.Bool().Draw(t, opt) {
				fmt.Fprintf(&m, "  %s: %v\n", opt, rapid.Bool().Draw(t, opt+"V"))
			}
		}
	}
	if rapid.IntRange(0, 4).Draw(t, "python") != 0 || backends == 0 {
		m.WriteString("python:\n  outputDir: ../out/py\n")
		if rapid.Bool().Draw(t, "pyNd") {
			fmt.Fprintf(&m, "  generateNDJson: %v\n", rapid.Bool().Draw(t, "pyNdV"))
		}
	}
	if rapid.IntRange(0, 2).Draw(t, "matlab") != 0 {
		m.WriteString("matlab:\n  outputDir: ../out/m\n")
	}
	if rapid.IntRange(0, 2).Draw(t, "json") == 0 {
		m.WriteString("json:\n  outputDir: ../out/json\n")
	}
	c.Manifest = m.String()
	return c
}

// applyRuntimeExclusionsFor: C08 is where build failures of generated code are reported; the
// switches of its own open findings are applied so that the search continues behind them.
func applyRuntimeExclusionsFor(cfg *model.GenConfig, property string) {
	for _, f := range core.AllFindings() {
		if f.Status != "open" || f.Property != property {
			continue
		}
		for _, sw := range runtimeSwitches[f.ID] {
			if core.Open(f.ID) {
				cfg.Excl[sw] = true
			}
		}
	}
}

var pyClassRe = regexp.MustCompile(`(?m)^class (\w+)`)
var pyAttrRe = regexp.MustCompile(`(?m)^    (\w+): `)

// duplicateAttrs finds classes of a generated Python module that declare one attribute twice.
func duplicateAttrs(src string) string {
	blocks := pyClassRe.FindAllStringIndex(src, -1)
	for i, b := range blocks {
		end := len(src)
		if i+1 < len(blocks) {
			end = blocks[i+1][0]
		}
		body := src[b[0]:end]
		seen := map[string]bool{}
		for _, m := range pyAttrRe.FindAllStringSubmatch(body, -1) {
			if seen[m[1]] {
				return fmt.Sprintf("attribute %q declared twice in %s", m[1], strings.SplitN(body, "\n", 2)[0])
			}
			seen[m[1]] = true
		}
	}
	return ""
}

func c08Known(c C08Case, msg string) string {
	if c.Pkg != nil {
		for _, d := range c.Pkg.Defs {
			for _, cf := range d.Computed {
				// a computed field becomes a PascalCase method: `int` on record `Int` is a constructor
				if strings.EqualFold(cf.Name, d.Name) {
					return "C08-case-conversion-collision"
				}
			}
		}
	}
	if strings.Contains(msg, "adl_serializer<std::variant") && strings.Contains(msg, "after instantiation") {
		// a union that has another (generic, aliased) union as a case: the NDJSON serializer of the
		// inner variant is specialised after the outer one has already used it
		return "C08-cpp-ndjson-union-case-is-generic-union-alias"
	}
	if strings.Contains(msg, "ndjson/protocols.cc") && strings.Contains(msg, "was not declared in this scope; did you mean \u2018T1\u2019") {
		// generic union whose type parameter also occurs inside a generic argument of another case:
		// the serializer template renames the parameter (T1) only where it is a case of its own
		return "C08-cpp-ndjson-generic-union-param-in-nested-argument"
	}
	if strings.Contains(msg, "TypeError: Too few arguments for <class") || strings.Contains(msg, "TypeError: Too many arguments for <class") {
		return "C08-python-generic-argument-expansion"
	}
	c08WordsOnce.Do(loadC08Words)
	for _, h := range c.Hostile {
		if i := strings.Index(h, ":"); i > 0 {
			if v, ok := c08Words[h[:i]][h[i+1:]]; ok && v != "ok" {
				return "C08-unescaped-identifier"
			}
		}
	}
	if len(c.Pairs) > 0 && (strings.Contains(msg, "declared twice") || strings.Contains(msg, "redeclaration") || strings.Contains(msg, "duplicate") || strings.Contains(msg, "conflicts with a previous") || strings.Contains(msg, "already defined")) {
		return "C08-case-conversion-collision"
	}
	return ""
}

func checkC08(c C08Case) *Fail {
	rec := core.Rec("C08")
	root := sut.TempDir("c08")
	defer os.RemoveAll(root)
	if c.Kind == "init" {
		r := sut.Yardl(root, "init", c.InitName)
		if sut.HasPanic(r.Combined()) {
			return failf("c08", "yardl init %q aborted:\n%s", c.InitName, core.Trunc(r.Combined(), 800))
		}
		if r.Exit != 0 {
			rec.Class("init:rejected")
			return nil
		}
		rec.Class("init:accepted")
		dir := filepath.Join(root, "model")
		for _, cmd := range []string{"validate", "generate"} {
			r2 := sut.Yardl(dir, cmd)
			if r2.Exit != 0 || sut.HasPanic(r2.Combined()) {
				mf, _ := os.ReadFile(filepath.Join(dir, "_package.yml"))
				f := failf("c08", "`yardl init %q` succeeded but `yardl %s` on the scaffold fails (exit %d):\n%s\n--- _package.yml\n%s", c.InitName, cmd, r2.Exit, core.Trunc(sut.StripANSI(r2.Combined()), 600), core.Trunc(string(mf), 300))
				f.KnownID = "C08-init-invalid-namespace"
				return f
			}
		}
		if res := sut.Run(filepath.Join(root, "python"), nil, 120*time.Second, nil, sut.PythonBin(), "-c", "import importlib,os; [importlib.import_module(d) for d in os.listdir('.') if os.path.isdir(d)]"); res.Exit != 0 {
			return failf("c08", "scaffold of `yardl init %q`: generated Python does not import:\n%s", c.InitName, core.Trunc(res.Combined(), 800))
		}
		return nil
	}
	l := model.EmitLayout(c.Pkg, model.EmitOptions{ExtraManifest: c.Manifest, Order: c.Order})
	sut.WriteLayout(root, l)
	pkg := filepath.Join(root, "main")
	rv := sut.Yardl(pkg, "validate")
	if rv.Exit != 0 {
		rec.Class("not-accepted")
		return nil // not an accepted package: outside the property's domain (hostile renaming hit a language rule)
	}
	rg := sut.Yardl(pkg, "generate")
	out := sut.StripANSI(rg.Combined())
	ctx := func() string { return c.Manifest + "\n" + core.Trunc(l.Text(), 3000) }
	if rg.Exit != 0 || sut.HasPanic(out) {
		return failf("c08", "validate accepts the package but generate fails (exit %d):\n%s\n%s", rg.Exit, core.Trunc(out, 1200), ctx())
	}
	// Python
	pyDir := filepath.Join(root, "out", "py")
	if _, err := os.Stat(pyDir); err == nil {
		r := sut.Run(pyDir, []string{"PYTHONDONTWRITEBYTECODE=1"}, 120*time.Second, nil, sut.PythonBin(), "-c",
			"import compileall,sys,importlib,os\nok=compileall.compile_dir('.',quiet=1,force=True)\nsys.path.insert(0,'.')\n[importlib.import_module(d) for d in sorted(os.listdir('.')) if os.path.isdir(d) and not d.startswith('__')]\nsys.exit(0 if ok else 3)")
		if r.Exit != 0 {
			f := failf("c08", "generated Python does not compile/import (exit %d):\n%s\n%s", r.Exit, core.Trunc(lastLinesOf(r.Combined(), 12), 1500), ctx())
			f.KnownID = c08KnownPython(r.Combined())
			if f.KnownID == "" {
				f.KnownID = c08Known(c, r.Combined())
			}
			return f
		}
		for path, src := range sut.ReadTree(pyDir) {
			if strings.HasSuffix(path, "types.py") {
				if d := duplicateAttrs(src); d != "" {
					f := failf("c08", "generated Python: %s (%s)\n%s", d, path, ctx())
					f.KnownID = c08Known(c, d)
					return f
				}
			}
		}
		rec.Class("python-ok")
	}
	// MATLAB: file name collisions
	mDir := filepath.Join(root, "out", "m")
	if _, err := os.Stat(mDir); err == nil {
		seen := map[string]string{}
		var paths []string
		for p := range sut.ReadTree(mDir) {
			paths = append(paths, p)
		}
		sort.Strings(paths)
		for _, p := range paths {
			k := strings.ToLower(p)
			if o, dup := seen[k]; dup {
				return failf("c08", "generated MATLAB files collide on a case-insensitive file system: %s vs %s\n%s", o, p, ctx())
			}
			seen[k] = p
		}
		rec.Class("matlab-generated")
	}
	// C++
	cppDir := filepath.Join(root, "out", "cpp")
	if _, err := os.Stat(cppDir); err == nil && c.Compile {
		srcs := []string{"types.cc", "protocols.cc", "binary/protocols.cc"}
		if _, err := os.Stat(filepath.Join(cppDir, "ndjson", "protocols.cc")); err == nil {
			srcs = append(srcs, "ndjson/protocols.cc")
		}
		errs := make([]string, len(srcs))
		var wg sync.WaitGroup
		for i, s := range srcs {
			wg.Add(1)
			go func(i int, s string) {
				defer wg.Done()
				r := sut.Run(cppDir, nil, 600*time.Second, nil, "g++", "-std=c++17", "-fsyntax-only", "-w", "-I"+filepath.Join(sut.VerifDir(), "shim"), "-I"+cppDir, s)
				if r.Exit != 0 {
					errs[i] = s + ":\n" + firstErrors(r.Combined(), 6)
				}
			}(i, s)
		}
		wg.Wait()
		for _, e := range errs {
			if e != "" {
				f := failf("c08", "generated C++ does not compile as C++17:\n%s\n%s", core.Trunc(e, 1800), ctx())
				f.KnownID = c08KnownCpp(c, e)
				return f
			}
		}
		rec.Class("cpp-ok")
	} else if err == nil {
		rec.Skip("cpp-default-array-header-not-compilable-here")
	}
	return nil
}

func lastLinesOf(s string, n int) string {
	lines := strings.Split(strings.TrimRight(s, "\n"), "\n")
	if len(lines) > n {
		lines = lines[len(lines)-n:]
	}
	return strings.Join(lines, "\n")
}

func firstErrors(s string, n int) string {
	var keep []string
	for _, l := range strings.Split(s, "\n") {
		if strings.Contains(l, "error") {
			keep = append(keep, l)
			if len(keep) >= n {
				break
			}
		}
	}
	return strings.Join(keep, "\n")
}

func c08KnownPython(out string) string {
	switch {
	case strings.Contains(out, "'TypeVar' object is not subscriptable"):
		return "C08-python-generic-identity-alias"
	case strings.Contains(out, "Cannot find dtype for"):
		return "C08-python-union-as-generic-arg"
	case strings.Contains(out, "ImportError: cannot import name") && strings.Contains(out, ".types'"):
		return "C08-python-union-nested-in-alias"
	}
	return ""
}

func c08KnownCpp(c C08Case, e string) string {
	switch {
	case strings.Contains(e, "std::vector<bool") || strings.Contains(e, "vector<bool, _Alloc>::data()") || strings.Contains(e, "‘bool&’ to an rvalue of type ‘bool’"):
		return "C08-cpp-vector-of-bool"
	case strings.Contains(e, "hash function must be invocable") || (strings.Contains(e, "unordered_map") && strings.Contains(e, "std::chrono")):
		return "C08-cpp-map-key-without-hash"
	}
	return c08Known(c, e)
}

func init() {
	registerReplay("c08", func(raw json.RawMessage) *Fail {
		var c C08Case
		if err := json.Unmarshal(raw, &c); err != nil {
			return failf("c08", "bad replay: %v", err)
		}
		return checkC08(c)
	})
}

func TestC08(t *testing.T) {
	rec := core.Rec("C08")
	rec.SetRule(c08Rule)
	rec.Assume("C++ is only compiled for option sets that plug in the harness's array header (xtensor is not installed); HDF5 sources are generated but not compiled (no HDF5 headers); MATLAB output is generated but neither parsed nor run", "warnings are ignored, only compiler errors count")
	replayKnown(t, "C08")
	rapid.Check(t, func(rt *rapid.T) {
		c := genC08(rt)
		rec.Eval()
		rec.Class("kind:" + c.Kind)
		if len(c.Hostile) > 0 || c.Kind == "init" || strings.Contains(c.Manifest, "generate") {
			rec.Nontrivial(core.Hash(c))
			rec.Sample(map[string]any{"kind": c.Kind, "init_name": c.InitName, "hostile": c.Hostile, "options": c.Manifest})
		}
		report(rt, rec, checkC08(c), c)
	})
}

// ---------------------------------------------------------------------------------------
// One-at-a-time sweep of the hostile identifier pools (VERIF_SWEEP=1): every word in every
// position on a fixed small model. Its result (c08_words.json) tells the generator which
// (position, word) pairs are already known to break a target, so that the random search
// continues behind them.

func sweepModel(pos, word string) *model.Package {
	typeName, field, step, sym, tag, dim, cf, ns, swvar := "Rec", "fld", "stp", "sym", "tg", "dm", "", "Mdl", ""
	switch pos {
	case "type":
		typeName = word
	case "member":
		field = word
	case "step":
		step = word
	case "symbol":
		sym = word
	case "tag":
		tag = word
	case "dim":
		dim = word
	case "computed":
		cf = word
	case "namespace":
		ns = word
	case "swvar":
		swvar = word
	}
	two := uint64(2)
	rec := &model.Def{Kind: model.DRecord, Name: typeName, Fields: []model.Field{
		{Name: field, Type: model.Prim("int32")},
		{Name: "u", Type: &model.Type{Kind: model.KUnion, ExplicitTags: true, Cases: []*model.Type{model.Prim("int32"), model.Prim("string")}, Tags: []string{tag, "other1"}}},
		{Name: "arr", Type: &model.Type{Kind: model.KArray, Elem: model.Prim("float32"), HasDims: true, Dims: []model.Dim{{Name: dim, Len: &two}, {Name: "d2", Len: &two}}}},
	}}
	// a union whose tags are derived from type names (the record under test and an enum)
	holder := &model.Def{Kind: model.DRecord, Name: "Holder", Fields: []model.Field{{Name: "h", Type: &model.Type{Kind: model.KUnion,
		Cases: []*model.Type{model.Ref(ns, typeName), model.Ref(ns, "En")}, Tags: []string{typeName, "En"}}}}}
	if cf != "" {
		rec.Computed = []model.Computed{{Name: cf, Expr: "1"}}
	}
	if swvar != "" {
		// a variable declared by a !switch pattern and used in the case expression
		rec.Fields = append(rec.Fields, model.Field{Name: "opt", Type: model.Optional(model.Prim("int32"))})
		rec.Computed = append(rec.Computed, model.Computed{Name: "swv", Switch: &model.SwitchExpr{Target: "opt", Cases: []model.SwitchCase{{Pattern: "int32 " + swvar, Expr: swvar}, {Pattern: "null", Expr: "0"}}}})
	}
	en := &model.Def{Kind: model.DEnum, Name: "En", ListValues: true, Values: []model.EnumVal{{Symbol: sym}, {Symbol: "other2", Value: 1, UValue: 1}}}
	fl := &model.Def{Kind: model.DFlags, Name: "Fl", ListValues: true, Values: []model.EnumVal{{Symbol: sym, Value: 1, UValue: 1}, {Symbol: "other3", Value: 2, UValue: 2}}}
	pr := &model.Def{Kind: model.DProtocol, Name: "Proto", Fields: []model.Field{
		{Name: step, Type: model.Ref(ns, typeName)}, {Name: "s2", Type: model.Stream(model.Ref(ns, "En"))}, {Name: "s3", Type: model.Ref(ns, "Fl")}}}
	pr.Fields = append(pr.Fields, model.Field{Name: "s4", Type: model.Ref(ns, "Holder")})
	return &model.Package{Namespace: ns, DirName: "main", NumFiles: 1, Defs: []*model.Def{rec, en, fl, holder, pr}}
}

// sweepModelMulti places one member-like word at every position where the sweep table does not already
// list it as breaking a target: field, step, enum/flags symbol, explicit union tag, dimension name, computed
// field, and the variable of a !switch over an optional, over a union and over a plain value. One generated
// tree then exercises up to ten (position, word) pairs.
func sweepModelMulti(word string, ok func(pos string) bool) (*model.Package, []string) {
	ns := "Mdl"
	pick := func(pos, fallback string, used *[]string) string {
		if ok(pos) {
			*used = append(*used, pos+":"+word)
			return word
		}
		return fallback
	}
	var used []string
	two := uint64(2)
	recA := &model.Def{Kind: model.DRecord, Name: "RecA", Fields: []model.Field{
		{Name: pick("member", "fld", &used), Type: model.Prim("int32")},
		{Name: "u", Type: &model.Type{Kind: model.KUnion, ExplicitTags: true, Cases: []*model.Type{model.Prim("int32"), model.Prim("string")}, Tags: []string{pick("tag", "tg", &used), "other1"}}},
		{Name: "arr", Type: &model.Type{Kind: model.KArray, Elem: model.Prim("float32"), HasDims: true, Dims: []model.Dim{{Name: pick("dim", "dm", &used), Len: &two}, {Name: "d2", Len: &two}}}},
	}}
	recB := &model.Def{Kind: model.DRecord, Name: "RecB", Fields: []model.Field{{Name: "x", Type: model.Prim("int32")}}}
	if ok("computed") {
		used = append(used, "computed:"+word)
		recB.Computed = append(recB.Computed, model.Computed{Name: word, Expr: "x"})
	}
	recC := &model.Def{Kind: model.DRecord, Name: "RecC", Fields: []model.Field{
		{Name: "opt", Type: model.Optional(model.Prim("int32"))},
		{Name: "uni", Type: &model.Type{Kind: model.KUnion, Cases: []*model.Type{model.Prim("int32"), model.Prim("bool")}, Tags: []string{"int32", "bool"}}},
		{Name: "plain", Type: model.Prim("int32")},
	}}
	if ok("swvar") {
		used = append(used, "swvar:"+word, "swvar-union:"+word, "swvar-plain:"+word)
		recC.Computed = append(recC.Computed,
			model.Computed{Name: "swOpt", Switch: &model.SwitchExpr{Target: "opt", Cases: []model.SwitchCase{{Pattern: "int32 " + word, Expr: word}, {Pattern: "null", Expr: "0"}}}},
			model.Computed{Name: "swUni", Switch: &model.SwitchExpr{Target: "uni", Cases: []model.SwitchCase{{Pattern: "int32 " + word, Expr: word}, {Pattern: "bool", Expr: "0"}}}},
			model.Computed{Name: "swPlain", Switch: &model.SwitchExpr{Target: "plain", Cases: []model.SwitchCase{{Pattern: "int32 " + word, Expr: word}}}})
	}
	sym := pick("symbol", "sym", &used)
	en := &model.Def{Kind: model.DEnum, Name: "En", ListValues: true, Values: []model.EnumVal{{Symbol: sym}, {Symbol: "other2", Value: 1, UValue: 1}}}
	fl := &model.Def{Kind: model.DFlags, Name: "Fl", ListValues: true, Values: []model.EnumVal{{Symbol: sym, Value: 1, UValue: 1}, {Symbol: "other3", Value: 2, UValue: 2}}}
	pr := &model.Def{Kind: model.DProtocol, Name: "Proto", Fields: []model.Field{
		{Name: pick("step", "stp", &used), Type: model.Ref(ns, "RecA")}, {Name: "s2", Type: model.Stream(model.Ref(ns, "En"))}, {Name: "s3", Type: model.Ref(ns, "Fl")},
		{Name: "s4", Type: model.Ref(ns, "RecB")}, {Name: "s5", Type: model.Stream(model.Ref(ns, "RecC"))}}}
	return &model.Package{Namespace: ns, DirName: "main", NumFiles: 1, Defs: []*model.Def{recA, recB, recC, en, fl, pr}}, used
}

// TestC08SweepMulti (VERIF_SWEEP=2): every word of the member pool through sweepModelMulti, to see
// whether combining positions produces failures that the one-at-a-time table does not explain.
func TestC08SweepMulti(t *testing.T) {
	if os.Getenv("VERIF_SWEEP") != "2" {
		t.Skip("set VERIF_SWEEP=2")
	}
	man := "cpp:\n  sourcesOutputDir: ../out/cpp\n  overrideArrayHeader: verif_ndarray.h\n  generateHDF5: false\n  generateCMakeLists: false\npython:\n  outputDir: ../out/py\nmatlab:\n  outputDir: ../out/m\n"
	var mu sync.Mutex
	sem := make(chan struct{}, 14)
	var wg sync.WaitGroup
	bad := 0
	for _, w := range hostileMemberNames {
		wg.Add(1)
		go func(w string) {
			defer wg.Done()
			sem <- struct{}{}
			defer func() { <-sem }()
			okAt := func(pos string) bool { return len(okWords(pos, []string{w})) == 1 }
			p, used := sweepModelMulti(w, okAt)
			f := checkC08(C08Case{Kind: "model", Pkg: p, Compile: true, Manifest: man, Hostile: used})
			if f != nil && !(f.KnownID != "" && core.Open(f.KnownID)) {
				mu.Lock()
				bad++
				t.Logf("%s %v: %s", w, used, core.Trunc(f.Msg, 400))
				mu.Unlock()
			}
		}(w)
	}
	wg.Wait()
	t.Logf("%d of %d words fail in the multi-position model", bad, len(hostileMemberNames))
}

func TestC08Sweep(t *testing.T) {
	if os.Getenv("VERIF_SWEEP") != "1" {
		t.Skip("set VERIF_SWEEP=1")
	}
	type job struct{ pos, word string }
	var jobs []job
	for _, w := range hostileTypeNames {
		jobs = append(jobs, job{"type", w}, job{"namespace", w})
	}
	for _, w := range hostileMemberNames {
		for _, pos := range []string{"member", "step", "symbol", "tag", "dim", "computed", "swvar"} {
			jobs = append(jobs, job{pos, w})
		}
	}
	results := map[string]map[string]string{}
	var mu sync.Mutex
	sem := make(chan struct{}, 14)
	var wg sync.WaitGroup
	for _, j := range jobs {
		wg.Add(1)
		go func(j job) {
			defer wg.Done()
			sem <- struct{}{}
			defer func() { <-sem }()
			c := C08Case{Kind: "model", Pkg: sweepModel(j.pos, j.word), Compile: true,
				Manifest: "cpp:\n  sourcesOutputDir: ../out/cpp\n  overrideArrayHeader: verif_ndarray.h\n  generateHDF5: false\n  generateCMakeLists: false\npython:\n  outputDir: ../out/py\nmatlab:\n  outputDir: ../out/m\n"}
			f := checkC08(c)
			verdict := "ok"
			if f != nil {
				line := ""
				for _, l := range strings.Split(f.Msg, "\n") {
					if strings.Contains(l, "Error") || strings.Contains(l, "error:") || strings.Contains(l, "ERR") {
						line = strings.TrimSpace(l)
						break
					}
				}
				verdict = strings.SplitN(f.Msg, "\n", 2)[0] + " | " + core.Trunc(line, 160)
			}
			mu.Lock()
			if results[j.pos] == nil {
				results[j.pos] = map[string]string{}
			}
			results[j.pos][j.word] = verdict
			mu.Unlock()
		}(j)
	}
	wg.Wait()
	data, _ := json.MarshalIndent(results, "", " ")
	os.WriteFile(filepath.Join(core.VerifDir(), "harness", "checks", "c08_words.json"), data, 0o644)
	bad := 0
	for pos, m := range results {
		for w, v := range m {
			if v != "ok" {
				bad++
				t.Logf("%s %s: %s", pos, w, v)
			}
		}
	}
	t.Logf("%d of %d (position, word) pairs break a target", bad, len(jobs))
}
