package checks

import (
	"encoding/json"
	"os"
	"path/filepath"
	"testing"

	"verif/harness/core"
	"verif/harness/model"
	"verif/harness/value"
)

func writeReplay(t *testing.T, property, name, check, msg string, c any) {
	dir := filepath.Join(core.VerifDir(), "replays", property)
	os.MkdirAll(dir, 0o755)
	data, err := json.MarshalIndent(map[string]any{"property": property, "check": check, "message": msg, "case": c}, "", " ")
	if err != nil {
		t.Fatal(err)
	}
	if err := os.WriteFile(filepath.Join(dir, name+".json"), data, 0o644); err != nil {
		t.Fatal(err)
	}
}

func iv(x int64) *value.Value  { return &value.Value{K: value.Int, I: x} }
func sv(s string) *value.Value { return &value.Value{K: value.String, S: s} }
func mapv(kv ...*value.Value) *value.Value {
	m := &value.Value{K: value.Map, Keys: []*value.Value{}, Items: []*value.Value{}}
	for i := 0; i+1 < len(kv); i += 2 {
		m.Keys = append(m.Keys, kv[i])
		m.Items = append(m.Items, kv[i+1])
	}
	return m
}

// TestMakeReplays writes the hand-built replay files of run-time findings (VERIF_MKREPLAYS=1).
func TestMakeReplays(t *testing.T) {
	if os.Getenv("VERIF_MKREPLAYS") != "1" {
		t.Skip("set VERIF_MKREPLAYS=1")
	}
	// C++ ReadMap accumulates entries across stream items
	p := &model.Package{Namespace: "Mdl", DirName: "main", NumFiles: 1, Defs: []*model.Def{
		{Kind: model.DProtocol, Name: "Proto0", Fields: []model.Field{{Name: "maps", Type: model.Stream(model.Map(model.Prim("string"), model.Prim("int32")))}}},
	}}
	c := RTCase{Pkg: p, Leg: "cpp", Runs: []RTRun{{Proto: "Proto0", Steps: []value.StepValues{{Stream: true,
		Items:  []*value.Value{mapv(sv("a"), iv(1)), mapv(sv("b"), iv(2)), mapv()},
		Blocks: []int{3}}}}}}
	writeReplay(t, "C01", "cpp-readmap-accumulates", "c01", "C++ ReadMap never clears the destination", c)
	// Python: optional of (alias of optional) collapses
	p2 := &model.Package{Namespace: "Mdl", DirName: "main", NumFiles: 1, Defs: []*model.Def{
		{Kind: model.DAlias, Name: "OptInt", Type: model.Optional(model.Prim("int32"))},
		{Kind: model.DProtocol, Name: "Proto0", Fields: []model.Field{{Name: "v", Type: model.Optional(model.Ref("Mdl", "OptInt"))}}},
	}}
	c2 := RTCase{Pkg: p2, Leg: "python", Runs: []RTRun{{Proto: "Proto0", Steps: []value.StepValues{{
		Value: &value.Value{K: value.Union, Case: 1, Items: []*value.Value{{K: value.Union, Case: 0}}}}}}}}
	writeReplay(t, "C01", "python-nested-optional-collapses", "c01", "Optional[Optional[int]]: present-but-null read back as absent", c2)
	for _, f := range extraReplays {
		f(t)
	}
}

var extraReplays []func(t *testing.T)
