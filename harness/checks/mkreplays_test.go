package checks

import (
	"encoding/json"
	"os"
	"path/filepath"
	"testing"

	"verif/harness/core"
	"verif/harness/model"
	"verif/harness/ref"
	"verif/harness/value"
)

func writeReplay(t *testing.T, property, name, check, msg string, c any) {
	dir := filepath.Join(core.VerifDir(), "replays", property)
	os.MkdirAll(dir, 0o755)
	data, err := json.MarshalIndent(map[string]any{"property": property, "check": check, "message": msg, "case": c}, "", " ")
	if err != nil {
		t.Fatal(err)
	}
	if err := os.WriteFile(filepath.Join(dir, name+".json"), data, 0o644); err != nil {
		t.Fatal(err)
	}
}

func iv(x int64) *value.Value  { return &value.Value{K: value.Int, I: x} }
func sv(s string) *value.Value { return &value.Value{K: value.String, S: s} }
func mapv(kv ...*value.Value) *value.Value {
	m := &value.Value{K: value.Map, Keys: []*value.Value{}, Items: []*value.Value{}}
	for i := 0; i+1 < len(kv); i += 2 {
		m.Keys = append(m.Keys, kv[i])
		m.Items = append(m.Items, kv[i+1])
	}
	return m
}

// TestMakeReplays writes the hand-built replay files of run-time findings (VERIF_MKREPLAYS=1).
func TestMakeReplays(t *testing.T) {
	if os.Getenv("VERIF_MKREPLAYS") != "1" {
		t.Skip("set VERIF_MKREPLAYS=1")
	}
	// C++ ReadMap accumulates entries across stream items
	p := &model.Package{Namespace: "Mdl", DirName: "main", NumFiles: 1, Defs: []*model.Def{
		{Kind: model.DProtocol, Name: "Proto0", Fields: []model.Field{{Name: "maps", Type: model.Stream(model.Map(model.Prim("string"), model.Prim("int32")))}}},
	}}
	c := RTCase{Pkg: p, Leg: "cpp", Runs: []RTRun{{Proto: "Proto0", Steps: []value.StepValues{{Stream: true,
		Items:  []*value.Value{mapv(sv("a"), iv(1)), mapv(sv("b"), iv(2)), mapv()},
		Blocks: []int{3}}}}}}
	writeReplay(t, "C01", "cpp-readmap-accumulates", "c01", "C++ ReadMap never clears the destination", c)
	// Python: optional of (alias of optional) collapses
	p2 := &model.Package{Namespace: "Mdl", DirName: "main", NumFiles: 1, Defs: []*model.Def{
		{Kind: model.DAlias, Name: "OptInt", Type: model.Optional(model.Prim("int32"))},
		{Kind: model.DProtocol, Name: "Proto0", Fields: []model.Field{{Name: "v", Type: model.Optional(model.Ref("Mdl", "OptInt"))}}},
	}}
	c2 := RTCase{Pkg: p2, Leg: "python", Runs: []RTRun{{Proto: "Proto0", Steps: []value.StepValues{{
		Value: &value.Value{K: value.Union, Case: 1, Items: []*value.Value{{K: value.Union, Case: 0}}}}}}}}
	writeReplay(t, "C01", "python-nested-optional-collapses", "c01", "Optional[Optional[int]]: present-but-null read back as absent", c2)
	// Python: zero-dimensional array holding an empty vector
	p3 := onePkg(proto(model.Field{Name: "a", Type: model.DynArray(model.Vector(model.Prim("int32")))}))
	c3 := RTCase{Pkg: p3, Leg: "python", Runs: []RTRun{{Proto: "Proto0", Steps: []value.StepValues{{
		Value: &value.Value{K: value.Array, Shape: []uint64{}, Items: []*value.Value{{K: value.Seq, Items: []*value.Value{}}}}}}}}}
	writeReplay(t, "C01", "python-array-of-vector", "c01", "Expected a list, got numpy.ndarray", c3)
	for _, f := range extraReplays {
		f(t)
	}
}

var extraReplays = []func(t *testing.T){makeC02Replays, makeC08Replays, makeC04Replays, makeC07Replays, makeC20Replays, makeC19Replays}

func makeC19Replays(t *testing.T) {
	vals := map[string]int64{"i8": 2, "u8": 10, "i16": 10, "u16": 1, "i32": 7, "u32": 100, "i64": 3, "u64": 1, "sz": 10, "f32": 10, "f64": 57}
	fld := func(n, p string) *ref.Expr2 { return &ref.Expr2{Kind: "field", Name: n, Prim: p} }
	bin := func(op string, l, r *ref.Expr2) *ref.Expr2 { return &ref.Expr2{Kind: "bin", Op: op, L: l, R: r} }
	par := func(e *ref.Expr2) *ref.Expr2 { return &ref.Expr2{Kind: "paren", L: e} }
	writeReplay(t, "C19", "right-operand-parentheses", "c19", "a - (b - c) loses its parentheses",
		C19Case{Values: vals, Vec: []int64{1, 2, 3}, Exprs: []*ref.Expr2{bin("-", fld("i32", "int32"), par(bin("-", fld("i16", "int16"), fld("i8", "int8"))))}})
	writeReplay(t, "C19", "python-floor-division", "c19", "f64 / i32 is floored in Python",
		C19Case{Values: vals, Vec: []int64{1, 2, 3}, Exprs: []*ref.Expr2{bin("/", fld("f64", "float64"), fld("i32", "int32"))}})
	writeReplay(t, "C19", "unary-minus-under-power", "c19", "(-(f64)) ** 2 negates the power in Python",
		C19Case{Values: vals, Vec: []int64{1, 2, 3}, Exprs: []*ref.Expr2{bin("**", par(&ref.Expr2{Kind: "neg", L: fld("f64", "float64")}), &ref.Expr2{Kind: "int", Lit: "2"})}})
	writeReplay(t, "C19", "double-negated-float-literal", "c19", "-(-(0.5)) does not compile in C++",
		C19Case{Values: vals, Vec: []int64{1, 2, 3}, Exprs: []*ref.Expr2{{Kind: "neg", L: &ref.Expr2{Kind: "neg", L: &ref.Expr2{Kind: "float", Lit: "0.5"}}}}})
}

func makeC20Replays(t *testing.T) {
	c := C20Case{Initial: model.Files{"_package.yml": c20Manifest, "a.yml": watchModel(0, 0), "b.yml": "Other: !record\n  fields:\n    x: int\n"},
		Edits:  []WatchEdit{{Kind: "valid", File: "a.yml", Content: watchModel(3, 1), GapMs: 60}, {Kind: "valid", File: "a.yml", Content: watchModel(1, 0), GapMs: 0}},
		Delays: "2:350"}
	writeReplay(t, "C20", "slow-regeneration-overtaken", "c20", "a slow regeneration of older contents finishes after a newer one", c)
}

func makeC07Replays(t *testing.T) {
	n := 130
	c := C07Case{Shape: make([]bool, n), Counts: make([]int, n)}
	for i := 0; i < n; i++ {
		c.CppR = append(c.CppR, ref.Op{Kind: "R", Step: i})
		c.CppW = append(c.CppW, ref.Op{Kind: "W", Step: i})
		c.PyR = append(c.PyR, ref.Op{Kind: "R", Step: i})
		c.PyW = append(c.PyW, ref.Op{Kind: "W", Step: i})
	}
	for _, l := range []*[]ref.Op{&c.CppR, &c.CppW, &c.PyR, &c.PyW} {
		*l = append(*l, ref.Op{Kind: "C"})
	}
	writeReplay(t, "C07", "cpp-state-overflow", "c07", "legal sequence over 130 steps rejected by the C++ reader", c)
}

func makeC04Replays(t *testing.T) {
	mk := func(kind model.DefKind) *model.Package {
		p := onePkg(&model.Def{Kind: kind, Name: "En0", Values: []model.EnumVal{{Symbol: "a", Value: 1, UValue: 1, Explicit: true}, {Symbol: "b", Value: 2, UValue: 2, Explicit: true}}},
			proto(model.Field{Name: "e", Type: model.Ref("Main", "En0")}))
		p.Namespace = "Main"
		return p
	}
	writeReplay(t, "C04", "enum-flags-same-schema", "c04", "enum -> flags leaves the schema unchanged",
		C04Case{Base: mk(model.DEnum), Edited: mk(model.DFlags), Edit: "enum-flags@En0", Class: "wire", Witness: "NDJSON form of every value changes"})
}

func uv(x uint64) *value.Value { return &value.Value{K: value.Uint, U: x} }

func onePkg(defs ...*model.Def) *model.Package {
	return &model.Package{Namespace: "Mdl", DirName: "main", NumFiles: 1, Defs: defs}
}

func proto(fields ...model.Field) *model.Def {
	return &model.Def{Kind: model.DProtocol, Name: "Proto0", Fields: fields}
}

func makeC02Replays(t *testing.T) {
	// zero-dimensional dynamic array, Python NDJSON reader
	c := RTCase{Leg: "python", Pkg: onePkg(proto(model.Field{Name: "a", Type: model.DynArray(model.Prim("int32"))})),
		Runs: []RTRun{{Proto: "Proto0", Steps: []value.StepValues{{Value: &value.Value{K: value.Array, Shape: []uint64{}, Items: []*value.Value{iv(5)}}}}}}}
	writeReplay(t, "C02", "python-ndjson-zero-dim-array", "c02", "Python NDJSON reader fails on {\"shape\":[],\"data\":[5]}", c)

	// array of records: dtype check in the Python NDJSON writer
	rec := &model.Def{Kind: model.DRecord, Name: "Rec0", Fields: []model.Field{{Name: "x", Type: model.Prim("int8")}, {Name: "y", Type: model.Prim("float64")}}}
	c = RTCase{Leg: "python", Pkg: onePkg(rec, proto(model.Field{Name: "a", Type: model.DynArray(model.Ref("Mdl", "Rec0"))})),
		Runs: []RTRun{{Proto: "Proto0", Steps: []value.StepValues{{Value: &value.Value{K: value.Array, Shape: []uint64{1}, Items: []*value.Value{{K: value.Record, Items: []*value.Value{iv(1), value.NewFloat(2)}}}}}}}}}
	writeReplay(t, "C02", "python-ndjson-struct-array-dtype", "c02", "Python NDJSON writer rejects the aligned structured dtype produced by the binary reader", c)

	// enum value outside the declared symbols inside an array
	en := &model.Def{Kind: model.DEnum, Name: "En0", ListValues: true, Values: []model.EnumVal{{Symbol: "a"}, {Symbol: "b", Value: 1, UValue: 1}}}
	c = RTCase{Leg: "python", Pkg: onePkg(en, proto(model.Field{Name: "a", Type: model.DynArray(model.Ref("Mdl", "En0"))})),
		Runs: []RTRun{{Proto: "Proto0", Steps: []value.StepValues{{Value: &value.Value{K: value.Array, Shape: []uint64{2}, Items: []*value.Value{iv(1), iv(77)}}}}}}}
	writeReplay(t, "C02", "python-ndjson-unknown-enum-in-array", "c02", "np.int32(77) is not a valid En0", c)

	// flags next to a number in an untagged union
	fl := &model.Def{Kind: model.DFlags, Name: "Fl0", ListValues: true, Values: []model.EnumVal{{Symbol: "a", Value: 1, UValue: 1}, {Symbol: "b", Value: 2, UValue: 2}}}
	u := &model.Type{Kind: model.KUnion, Cases: []*model.Type{model.Ref("Mdl", "Fl0"), model.Prim("float32")}, Tags: []string{"Fl0", "float32"}}
	c = RTCase{Pkg: onePkg(fl, proto(model.Field{Name: "u", Type: u})),
		Runs: []RTRun{{Proto: "Proto0", Steps: []value.StepValues{{Value: &value.Value{K: value.Union, Case: 0, Items: []*value.Value{iv(64)}}}}}}}
	writeReplay(t, "C02", "flags-number-union-untagged", "c02", "[Fl0, float32] is written untagged; the flags value 64 (no declared symbol) is written as the number 64 and read back as float32", c)

	// generic union with a type-parameter case
	g := &model.Def{Kind: model.DRecord, Name: "Gen0", TypeParams: []string{"U"}, Fields: []model.Field{{Name: "u", Type: &model.Type{Kind: model.KUnion, ExplicitTags: true,
		Cases: []*model.Type{model.Prim("uint8"), model.Param("U")}, Tags: []string{"small", "other"}}}}}
	c = RTCase{Pkg: onePkg(g, proto(model.Field{Name: "g", Type: model.Ref("Mdl", "Gen0", model.Prim("int32"))})),
		Runs: []RTRun{{Proto: "Proto0", Steps: []value.StepValues{{Value: &value.Value{K: value.Record, Items: []*value.Value{{K: value.Union, Case: 1, Items: []*value.Value{iv(5)}}}}}}}}}
	writeReplay(t, "C02", "generic-union-param-case-untagged", "c02", "Gen0<int32>.u = other:5 is written as 5 and read back as small:5", c)
}

func makeC08Replays(t *testing.T) {
	man := "cpp:\n  sourcesOutputDir: ../out/cpp\n  overrideArrayHeader: verif_ndarray.h\n  generateHDF5: false\n  generateCMakeLists: false\npython:\n  outputDir: ../out/py\nmatlab:\n  outputDir: ../out/m\n"
	for _, pw := range [][2]string{{"tag", "none"}, {"member", "self"}, {"member", "other"}, {"namespace", "Class"}, {"namespace", "Datetime"}, {"namespace", "Binary"}, {"namespace", "Time"}, {"type", "Union"}, {"type", "Version"}} {
		c := C08Case{Kind: "model", Pkg: sweepModel(pw[0], pw[1]), Compile: true, Manifest: man, Hostile: []string{pw[0] + ":" + pw[1]}}
		writeReplay(t, "C08", "unescaped-identifier-"+pw[0]+"-"+pw[1], "c08", "identifier not escaped in a target language", c)
	}
	p := onePkg(&model.Def{Kind: model.DRecord, Name: "Rec0", Fields: []model.Field{{Name: "fooBar", Type: model.Prim("int32")}, {Name: "fooBAR", Type: model.Prim("int32")}}},
		proto(model.Field{Name: "r", Type: model.Ref("Mdl", "Rec0")}))
	writeReplay(t, "C08", "case-conversion-collision", "c08", "fooBar and fooBAR both become foo_bar", C08Case{Kind: "model", Pkg: p, Compile: true, Manifest: man, Pairs: []string{"fooBar/fooBAR"}})
	writeReplay(t, "C08", "init-invalid-namespace", "c08", "yardl init foo.bar writes a namespace that validate rejects", C08Case{Kind: "init", InitName: "foo.bar"})
	p = onePkg(proto(model.Field{Name: "v", Type: model.Vector(model.Prim("bool"))}))
	writeReplay(t, "C08", "cpp-vector-of-bool", "c08", "std::vector<bool> in generated C++", C08Case{Kind: "model", Pkg: p, Compile: true, Manifest: man})
	p = onePkg(&model.Def{Kind: model.DAlias, Name: "Al0", TypeParams: []string{"T"}, Type: model.Param("T")},
		&model.Def{Kind: model.DRecord, Name: "Rec0", Fields: []model.Field{{Name: "a", Type: model.Ref("Mdl", "Al0", model.Prim("float64"))}}},
		proto(model.Field{Name: "r", Type: model.Ref("Mdl", "Rec0")}))
	writeReplay(t, "C08", "python-generic-identity-alias", "c08", "Al0<T>: T", C08Case{Kind: "model", Pkg: p, Compile: true, Manifest: man})
	p = onePkg(proto(model.Field{Name: "m", Type: model.Map(model.Prim("time"), model.Prim("int32"))}))
	writeReplay(t, "C08", "cpp-map-key-without-hash", "c08", "time->int does not compile in C++", C08Case{Kind: "model", Pkg: p, Compile: true, Manifest: man})
	un2 := &model.Type{Kind: model.KUnion, ExplicitTags: true, Cases: []*model.Type{model.Prim("bool"), model.Prim("uint64")}, Tags: []string{"flag", "count"}}
	p = onePkg(&model.Def{Kind: model.DAlias, Name: "Al0", Type: model.FixedVector(un2, 2)}, proto(model.Field{Name: "a", Type: model.Ref("Mdl", "Al0")}))
	writeReplay(t, "C08", "python-union-nested-in-alias", "c08", "union nested in an alias body has no Python class", C08Case{Kind: "model", Pkg: p, Compile: true, Manifest: man})
	un := &model.Type{Kind: model.KUnion, ExplicitTags: true, Cases: []*model.Type{nil, model.Prim("int32"), model.Prim("string")}, Tags: []string{"", "a", "b"}}
	p = onePkg(&model.Def{Kind: model.DRecord, Name: "Gen0", TypeParams: []string{"T", "U"}, Fields: []model.Field{{Name: "t", Type: model.Param("T")}, {Name: "u", Type: model.Param("U")}}},
		&model.Def{Kind: model.DRecord, Name: "Rec0", Fields: []model.Field{{Name: "g", Type: model.Ref("Mdl", "Gen0", model.Prim("float32"), un)}}},
		proto(model.Field{Name: "r", Type: model.Ref("Mdl", "Rec0")}))
	writeReplay(t, "C08", "python-union-as-generic-arg", "c08", "union as a generic argument", C08Case{Kind: "model", Pkg: p, Compile: true, Manifest: man})
}

// TestMakeReplays3 (VERIF_MKREPLAYS=3): replays for five defects that were repaired before the replay
// plumbing existed, so that each fix: commit has its regression case.
func TestMakeReplays3(t *testing.T) {
	if os.Getenv("VERIF_MKREPLAYS") != "3" {
		t.Skip("set VERIF_MKREPLAYS=3")
	}
	man := "cpp:\n  sourcesOutputDir: ../out/cpp\n  overrideArrayHeader: verif_ndarray.h\n  generateHDF5: false\n  generateCMakeLists: false\npython:\n  outputDir: ../out/py\n"
	// documentation comments with a trailing backslash / triple quotes
	rec := &model.Def{Kind: model.DRecord, Name: "Rec", Comment: "ends with a backslash \\", Fields: []model.Field{
		{Name: "a", Type: model.Prim("int32"), Comment: "backslash at end \\"}, {Name: "b", Type: model.Prim("string"), Comment: "triple \"\"\" quote and a \\ backslash"}}}
	pr := &model.Def{Kind: model.DProtocol, Name: "Proto0", Comment: "protocol comment \"\"\" with quotes\\", Fields: []model.Field{{Name: "r", Type: model.Ref("Mdl", "Rec"), Comment: "step comment \\"}}}
	writeReplay(t, "C08", "comment-trailing-backslash-and-triple-quotes", "c08", "documentation comments ending in a backslash / containing triple quotes break generated C++ / Python",
		C08Case{Kind: "model", Pkg: onePkg(rec, pr), Manifest: man, Compile: true, Hostile: []string{"comment:backslash", "comment:triple-quote"}})
	// tagged union with a null case: C++ and Python must agree on the form of null
	u := &model.Type{Kind: model.KUnion, Cases: []*model.Type{nil, model.Prim("int32"), model.Prim("float32")}, Tags: []string{"", "int32", "float32"}}
	c2 := RTCase{Pkg: onePkg(proto(model.Field{Name: "u", Type: model.Stream(u)})), Runs: []RTRun{{Proto: "Proto0", Steps: []value.StepValues{{Stream: true, Blocks: []int{3},
		Items: []*value.Value{{K: value.Union, Case: 1, Items: []*value.Value{iv(7)}}, {K: value.Union, Case: 0}, {K: value.Union, Case: 2, Items: []*value.Value{value.NewFloat(1.5)}}}}}}}}
	writeReplay(t, "C02", "cpp-ndjson-tagged-union-null", "c02", "the null case of a tagged union was written differently by C++ and Python", c2)
	// stream of records: an omitted null field must not keep the value of the previous item
	r2 := &model.Def{Kind: model.DRecord, Name: "Rec", Fields: []model.Field{{Name: "a", Type: model.Prim("int32")}, {Name: "o", Type: model.Optional(model.Prim("int32"))},
		{Name: "nu", Type: &model.Type{Kind: model.KUnion, Cases: []*model.Type{nil, model.Prim("string"), model.Prim("bool")}, Tags: []string{"", "string", "bool"}}}}}
	item := func(a, o int64, s string) *value.Value {
		ov := &value.Value{K: value.Union, Case: 0}
		if o != 0 {
			ov = &value.Value{K: value.Union, Case: 1, Items: []*value.Value{iv(o)}}
		}
		nv := &value.Value{K: value.Union, Case: 0}
		if s != "" {
			nv = &value.Value{K: value.Union, Case: 1, Items: []*value.Value{sv(s)}}
		}
		return &value.Value{K: value.Record, Items: []*value.Value{iv(a), ov, nv}}
	}
	c3 := RTCase{Pkg: onePkg(r2, proto(model.Field{Name: "rs", Type: model.Stream(model.Ref("Mdl", "Rec"))})), Runs: []RTRun{{Proto: "Proto0", Steps: []value.StepValues{{Stream: true, Blocks: []int{2, 1},
		Items: []*value.Value{item(1, 5, "x"), item(2, 0, ""), item(3, 0, "")}}}}}}
	writeReplay(t, "C02", "cpp-ndjson-record-field-stale", "c02", "C++ NDJSON from_json left an omitted optional field at the previous item's value", c3)
	// [string, date]: dates are JSON strings, so the union needs tags
	u4 := &model.Type{Kind: model.KUnion, Cases: []*model.Type{model.Prim("string"), model.Prim("date")}, Tags: []string{"string", "date"}}
	c4 := RTCase{Pkg: onePkg(proto(model.Field{Name: "u", Type: model.Stream(u4)})), Runs: []RTRun{{Proto: "Proto0", Steps: []value.StepValues{{Stream: true, Blocks: []int{2},
		Items: []*value.Value{{K: value.Union, Case: 1, Items: []*value.Value{iv(19000)}}, {K: value.Union, Case: 0, Items: []*value.Value{sv("2022-01-08")}}}}}}}}
	writeReplay(t, "C02", "union-string-date-untagged", "c02", "[string, date] was written untagged and a date read back as the string case", c4)
}
