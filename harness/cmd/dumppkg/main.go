// dumppkg prints the YAML layout of a model package given as JSON on stdin (debugging aid for
// replay files, whose cases store packages in the harness's model IR).
package main

import (
	"encoding/json"
	"fmt"
	"os"

	"verif/harness/model"
)

func main() {
	var p model.Package
	if err := json.NewDecoder(os.Stdin).Decode(&p); err != nil {
		fmt.Fprintln(os.Stderr, err)
		os.Exit(2)
	}
	fmt.Print(model.EmitLayout(&p, model.EmitOptions{}).Text())
}
