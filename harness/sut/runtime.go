package sut

import (
	"encoding/json"
	"fmt"
	"os"
	"path/filepath"
	"regexp"
	"strings"
	"time"

	"verif/harness/model"
)

// Built is a generated (and, for C++, compiled) model ready to be driven.
type Built struct {
	Root    string // scratch root (layout dirs + out/)
	Pkg     *model.Package
	Env     *model.Env
	Schemas map[string]string // protocol name -> schema literal (from the generated Python or C++)
	PyDir   string
	PyPkg   string
	CppDir  string
	CppBin  string
	GenOut  string // yardl's output (warnings)
}

func (b *Built) Cleanup() {
	if os.Getenv("VERIF_KEEP_DIRS") != "" { // debugging aid
		fmt.Fprintln(os.Stderr, "kept:", b.Root)
		return
	}
	os.RemoveAll(b.Root)
}

type BuildOpts struct {
	Python bool
	Cpp    bool
	NDJson bool
	ASan   bool
	Matlab bool // also generate MATLAB (read as text only: no interpreter in the sandbox)
	// Emit: spelling/layout options for the root package (definition order, file distribution, ...);
	// its ExtraManifest is replaced by the output sections built here
	Emit *model.EmitOptions
	// ExtraDriver: additional C++ driver features ("ops", "cf", ...)
}

func shimDir() string { return filepath.Join(VerifDir(), "shim") }

var (
	pySchemaRe  = regexp.MustCompile(`(?s)class (\w+)WriterBase\(.*?\n    schema = r"""(.*?)"""`)
	cppSchemaRe = regexp.MustCompile(`std::string (\w+)WriterBase::schema_ = R"\((.*?)\)";`)
)

// PySnake is yardl's snake_case name of the generated Python package for a namespace; the
// harness only uses namespaces for which it is the lower-cased name with an underscore before
// inner capitals (Main -> main, ImpA -> imp_a).
func PySnake(ns string) string {
	var b strings.Builder
	for i, r := range ns {
		if r >= 'A' && r <= 'Z' {
			if i > 0 {
				b.WriteByte('_')
			}
			b.WriteRune(r + 32)
		} else {
			b.WriteRune(r)
		}
	}
	return b.String()
}

// Generate writes the layout and runs `yardl generate` with Python and/or C++ outputs.
func Generate(p *model.Package, o BuildOpts) (*Built, error) {
	root := TempDir("rt")
	b := &Built{Root: root, Pkg: p, Env: model.NewEnv(p), Schemas: map[string]string{}}
	var m strings.Builder
	if o.Python {
		m.WriteString("python:\n  outputDir: ../out/py\n")
		if !o.NDJson {
			m.WriteString("  generateNDJson: false\n")
		}
	}
	if o.Cpp {
		fmt.Fprintf(&m, "cpp:\n  sourcesOutputDir: ../out/cpp\n  generateHDF5: false\n  generateCMakeLists: false\n  generateNDJson: %v\n  overrideArrayHeader: verif_ndarray.h\n", o.NDJson)
	}
	if o.Matlab {
		m.WriteString("matlab:\n  outputDir: ../out/m\n")
	}
	eo := model.EmitOptions{}
	if o.Emit != nil {
		eo = *o.Emit
	}
	eo.ExtraManifest = m.String()
	l := model.EmitLayout(p, eo)
	WriteLayout(root, l)
	r := Yardl(filepath.Join(root, p.DirName), "generate")
	b.GenOut = StripANSI(r.Combined())
	if r.Exit != 0 {
		return b, fmt.Errorf("yardl generate failed (exit %d):\n%s", r.Exit, b.GenOut)
	}
	b.PyDir = filepath.Join(root, "out", "py")
	b.PyPkg = PySnake(p.Namespace)
	b.CppDir = filepath.Join(root, "out", "cpp")
	if o.Python {
		txt, err := os.ReadFile(filepath.Join(b.PyDir, b.PyPkg, "protocols.py"))
		if err != nil {
			return b, fmt.Errorf("generated python package not found: %v", err)
		}
		for _, mm := range pySchemaRe.FindAllStringSubmatch(string(txt), -1) {
			b.Schemas[mm[1]] = mm[2]
		}
	} else if o.Cpp {
		txt, err := os.ReadFile(filepath.Join(b.CppDir, "protocols.cc"))
		if err != nil {
			return b, err
		}
		for _, mm := range cppSchemaRe.FindAllStringSubmatch(string(txt), -1) {
			b.Schemas[mm[1]] = mm[2]
		}
	}
	return b, nil
}

// Job is one unit of work for a driver.
type Job struct {
	Op     string `json:"op"`
	Proto  string `json:"proto"`
	InFmt  string `json:"in_fmt,omitempty"`
	OutFmt string `json:"out_fmt,omitempty"`
	In     string `json:"in,omitempty"`
	Out    string `json:"out,omitempty"`
	Mode   string `json:"mode,omitempty"`
	// Python: give every array a different memory layout before it is written ("F": Fortran order,
	// "strided": a non-contiguous view); the values are the same
	Relayout string `json:"relayout,omitempty"`
	// C++: per-stream buffer sizes for CopyTo
	Buf []int `json:"buf,omitempty"`
	// cut positions etc. for other ops
	Cuts   []int    `json:"cuts,omitempty"`
	Ops    []Op     `json:"ops,omitempty"`
	Side   string   `json:"side,omitempty"`
	Names  []string `json:"names,omitempty"`
	Counts []int    `json:"counts,omitempty"`
}

type Op struct {
	Kind string `json:"kind"`
	Step int    `json:"step"`
	N    int    `json:"n,omitempty"`
}

type JobResult struct {
	OK        bool            `json:"ok"`
	Error     string          `json:"error,omitempty"`
	Delivered []int           `json:"delivered,omitempty"`
	Extra     json.RawMessage `json:"extra,omitempty"`
}

func PythonBin() string {
	if v := os.Getenv("VERIF_PYTHON"); v != "" {
		return v
	}
	return "python3-vt"
}

// RunPy runs the generic Python driver over the jobs (one interpreter start).
func (b *Built) RunPy(jobs []Job) ([]JobResult, error) {
	jp := filepath.Join(b.Root, "pyjobs.json")
	rp := filepath.Join(b.Root, "pyresults.json")
	os.Remove(rp)
	data, _ := json.Marshal(jobs)
	os.WriteFile(jp, data, 0o644)
	driver := filepath.Join(VerifDir(), "drivers", "py", "driver.py")
	r := Run(b.Root, []string{"PYTHONDONTWRITEBYTECODE=1"}, 300*time.Second, nil, PythonBin(), driver, b.PyDir, b.PyPkg, jp, rp)
	if r.TimedOut {
		return nil, fmt.Errorf("python driver timed out")
	}
	out, err := os.ReadFile(rp)
	if err != nil {
		return nil, fmt.Errorf("python driver produced no results (exit %d):\n%s", r.Exit, r.Combined())
	}
	var res struct {
		ImportError string      `json:"import_error"`
		Results     []JobResult `json:"results"`
	}
	if err := json.Unmarshal(out, &res); err != nil {
		return nil, err
	}
	if res.ImportError != "" {
		return nil, &ImportError{res.ImportError}
	}
	if len(res.Results) != len(jobs) {
		return nil, fmt.Errorf("python driver returned %d results for %d jobs:\n%s", len(res.Results), len(jobs), r.Combined())
	}
	return res.Results, nil
}

// ImportError: the generated Python package does not import (C08's business).
type ImportError struct{ Text string }

func (e *ImportError) Error() string { return "generated Python package does not import:\n" + e.Text }
