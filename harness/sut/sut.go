// Package sut runs the systems under test: the yardl CLI built from /repo, generated Python
// under python3-vt, generated C++ under g++.
package sut

import (
	"bytes"
	"context"
	"crypto/sha256"
	"encoding/hex"
	"errors"
	"fmt"
	"os"
	"os/exec"
	"path/filepath"
	"sort"
	"strings"
	"sync/atomic"
	"syscall"
	"time"

	"verif/harness/model"
)

// Env vars set by the runner.
func YardlBin() string {
	if v := os.Getenv("VERIF_YARDL"); v != "" {
		return v
	}
	return "/var/tmp/verif-work/bin/yardl"
}

func WorkRoot() string {
	if v := os.Getenv("VERIF_WORKDIR"); v != "" {
		return v
	}
	return "/var/tmp/verif-work/scratch"
}

func VerifDir() string {
	if v := os.Getenv("VERIF_DIR"); v != "" {
		return v
	}
	return "/verif"
}

var dirCounter int64

// TempDir makes a fresh scratch directory under the work root.
func TempDir(prefix string) string {
	n := atomic.AddInt64(&dirCounter, 1)
	d := filepath.Join(WorkRoot(), fmt.Sprintf("%s-%d-%d", prefix, os.Getpid(), n))
	if err := os.MkdirAll(d, 0o755); err != nil {
		panic(err)
	}
	return d
}

// WriteLayout writes every package directory of the layout under root.
func WriteLayout(root string, l model.Layout) {
	for dir, files := range l {
		WriteFiles(filepath.Join(root, dir), files)
	}
}

func WriteFiles(dir string, files model.Files) {
	if err := os.MkdirAll(dir, 0o755); err != nil {
		panic(err)
	}
	for name, content := range files {
		p := filepath.Join(dir, name)
		if err := os.MkdirAll(filepath.Dir(p), 0o755); err != nil {
			panic(err)
		}
		if err := os.WriteFile(p, []byte(content), 0o644); err != nil {
			panic(err)
		}
	}
}

type Result struct {
	Exit     int
	Stdout   string
	Stderr   string
	TimedOut bool
	Signal   string
	Wall     time.Duration
}

func (r Result) Combined() string { return r.Stdout + r.Stderr }

// Run executes a command with a time limit. Exit = -1 when killed by signal/timeout.
func Run(dir string, env []string, timeout time.Duration, stdin []byte, name string, args ...string) Result {
	ctx, cancel := context.WithTimeout(context.Background(), timeout)
	defer cancel()
	cmd := exec.CommandContext(ctx, name, args...)
	cmd.Dir = dir
	cmd.Env = append(os.Environ(), env...)
	cmd.SysProcAttr = &syscall.SysProcAttr{Setpgid: true}
	cmd.Cancel = func() error {
		return syscall.Kill(-cmd.Process.Pid, syscall.SIGKILL)
	}
	var so, se bytes.Buffer
	cmd.Stdout = &so
	cmd.Stderr = &se
	if stdin != nil {
		cmd.Stdin = bytes.NewReader(stdin)
	}
	start := time.Now()
	err := cmd.Run()
	res := Result{Stdout: so.String(), Stderr: se.String(), Wall: time.Since(start)}
	if ctx.Err() == context.DeadlineExceeded {
		res.TimedOut = true
		res.Exit = -1
		return res
	}
	if err != nil {
		var ee *exec.ExitError
		if errors.As(err, &ee) {
			if ws, ok := ee.Sys().(syscall.WaitStatus); ok && ws.Signaled() {
				res.Exit = -1
				res.Signal = ws.Signal().String()
			} else {
				res.Exit = ee.ExitCode()
			}
		} else {
			res.Exit = -2
			res.Stderr += "\nexec error: " + err.Error()
		}
	}
	return res
}

// Yardl runs the yardl CLI in pkgDir with HOME pointed at a private directory.
func Yardl(pkgDir string, args ...string) Result {
	home := filepath.Join(WorkRoot(), "home")
	os.MkdirAll(home, 0o755)
	return Run(pkgDir, []string{"HOME=" + home, "NO_COLOR=1"}, 30*time.Second, nil, YardlBin(), args...)
}

// StripANSI removes colour escape sequences.
func StripANSI(s string) string {
	var b strings.Builder
	for i := 0; i < len(s); i++ {
		if s[i] == 0x1b && i+1 < len(s) && s[i+1] == '[' {
			j := i + 2
			for j < len(s) && !(s[j] >= 0x40 && s[j] <= 0x7e) {
				j++
			}
			i = j
			continue
		}
		b.WriteByte(s[i])
	}
	return b.String()
}

// HasPanic reports whether output looks like a Go runtime abort.
func HasPanic(out string) bool {
	return strings.Contains(out, "panic:") || strings.Contains(out, "fatal error:") || strings.Contains(out, "goroutine 1 [")
}

// Snapshot is a recursive map path -> "sha256 mode mtime_ns size".
type Snapshot map[string]string

func Snap(root string, withMtime bool) Snapshot {
	s := Snapshot{}
	filepath.Walk(root, func(p string, info os.FileInfo, err error) error {
		if err != nil {
			return nil
		}
		rel, _ := filepath.Rel(root, p)
		if info.IsDir() {
			s[rel+"/"] = "dir"
			return nil
		}
		if info.Mode()&os.ModeSymlink != 0 {
			t, _ := os.Readlink(p)
			s[rel] = "symlink " + t
			return nil
		}
		data, _ := os.ReadFile(p)
		h := sha256.Sum256(data)
		v := hex.EncodeToString(h[:8]) + fmt.Sprintf(" %o %d", info.Mode().Perm(), info.Size())
		if withMtime {
			v += fmt.Sprintf(" %d", info.ModTime().UnixNano())
		}
		s[rel] = v
		return nil
	})
	return s
}

func (a Snapshot) Diff(b Snapshot) []string {
	var out []string
	for k, v := range a {
		if w, ok := b[k]; !ok {
			out = append(out, "removed "+k)
		} else if w != v {
			out = append(out, "changed "+k)
		}
	}
	for k := range b {
		if _, ok := a[k]; !ok {
			out = append(out, "added "+k)
		}
	}
	sort.Strings(out)
	return out
}

// ReadTree returns relative path -> contents for all regular files under root.
func ReadTree(root string) map[string]string {
	m := map[string]string{}
	filepath.Walk(root, func(p string, info os.FileInfo, err error) error {
		if err != nil || info.IsDir() {
			return nil
		}
		rel, _ := filepath.Rel(root, p)
		data, _ := os.ReadFile(p)
		m[rel] = string(data)
		return nil
	})
	return m
}
