package ref

// matlab_steps.go: the MATLAB leg of C07. There is no MATLAB interpreter in the sandbox, but the step
// checks of the generated abstract base classes (+ns/<P>WriterBase.m, <P>ReaderBase.m) are written in a
// tiny fixed vocabulary:
//
//	function [value|more = ] name(self[, value])
//	  if self.state_ ~= N                      | if ~self.skip_completed_check_ && self.state_ ~= N | if ~more
//	    self.raise_unexpected_state_(N);       | throw(yardl.ProtocolError(...));
//	    expected_method = ...;                 (ignored)
//	  end
//	  self.write_x_(value); | value = self.read_x_(); | more = self.has_x_(); | self.end_stream_(); | self.close_();
//	  self.state_ = N;
//	end
//
// MatlabClass parses that vocabulary and executes calls structurally; anything outside it makes Parse
// return an error (the leg is then skipped with a note, never alarmed). MatlabWriter / MatlabReader are
// the reference automata of the documented MATLAB API.

import (
	"fmt"
	"regexp"
	"strconv"
	"strings"
)

type mStmt struct {
	kind string // if-state | if-notmore | raise | call | set | ignore
	n    int    // state constant
	name string // callee (write_x_, read_x_, has_x_, end_stream_, close_)
	body []mStmt
	// if-state: the condition is disabled when skip_completed_check_ is set
	skippable bool
}

// MatlabClass: the public methods of one generated base class.
type MatlabClass struct {
	Methods map[string][]mStmt
	Init    int
}

var (
	mFuncRe   = regexp.MustCompile(`^    function (?:(\w+) = )?(\w+)\((?:(\w+)(?:, (\w+))?)?\)$`)
	mIfState  = regexp.MustCompile(`^if (~self\.skip_completed_check_ && )?self\.state_ ~= (\d+)$`)
	mSetState = regexp.MustCompile(`^self\.state_ = (\d+);$`)
	mCall     = regexp.MustCompile(`^(?:(\w+) = )?self\.(\w+_)\((?:value)?\);$`)
	mRaise    = regexp.MustCompile(`^(self\.raise_unexpected_state_\(\d+\);|throw\(yardl\.ProtocolError\(.*\)\);)$`)
)

// ParseMatlabClass reads the first `methods` block of a generated *WriterBase.m / *ReaderBase.m.
func ParseMatlabClass(src string) (*MatlabClass, error) {
	lines := strings.Split(src, "\n")
	c := &MatlabClass{Methods: map[string][]mStmt{}}
	i := 0
	for i < len(lines) && strings.TrimRight(lines[i], " \r") != "  methods" {
		i++
	}
	if i == len(lines) {
		return nil, fmt.Errorf("no public methods block")
	}
	i++
	for i < len(lines) {
		line := strings.TrimRight(lines[i], " \r")
		if line == "  end" {
			break // end of the methods block
		}
		m := mFuncRe.FindStringSubmatch(line)
		if m == nil {
			if strings.TrimSpace(line) == "" || strings.HasPrefix(strings.TrimSpace(line), "%") {
				i++
				continue
			}
			return nil, fmt.Errorf("line %d outside the vocabulary: %q", i+1, line)
		}
		name := m[2]
		i++
		// collect body lines up to the matching `    end` at function indentation
		var body []string
		for i < len(lines) {
			l := strings.TrimRight(lines[i], " \r")
			if l == "    end" {
				break
			}
			body = append(body, l)
			i++
		}
		if i == len(lines) {
			return nil, fmt.Errorf("function %s not terminated", name)
		}
		i++
		if name == "copy_to" {
			continue // a convenience built from the other methods
		}
		isCtor := m[1] == "self"
		stmts, rest, err := parseMBlock(body, 0)
		if err != nil {
			if isCtor {
				// constructors carry an `arguments` block; only the initial state matters
				for _, l := range body {
					if sm := mSetState.FindStringSubmatch(strings.TrimSpace(l)); sm != nil {
						c.Init, _ = strconv.Atoi(sm[1])
					}
				}
				continue
			}
			return nil, fmt.Errorf("function %s: %v", name, err)
		}
		if rest != len(body) {
			return nil, fmt.Errorf("function %s: unbalanced end", name)
		}
		if isCtor {
			for _, s := range stmts {
				if s.kind == "set" {
					c.Init = s.n
				}
			}
			continue
		}
		c.Methods[name] = stmts
	}
	return c, nil
}

func parseMBlock(lines []string, pos int) ([]mStmt, int, error) {
	var out []mStmt
	for pos < len(lines) {
		t := strings.TrimSpace(lines[pos])
		switch {
		case t == "" || strings.HasPrefix(t, "%"):
			pos++
		case t == "end":
			return out, pos, nil
		case t == "if ~more":
			body, p, err := parseMBlock(lines, pos+1)
			if err != nil {
				return nil, 0, err
			}
			if p >= len(lines) {
				return nil, 0, fmt.Errorf("if without end")
			}
			out = append(out, mStmt{kind: "if-notmore", body: body})
			pos = p + 1
		case mIfState.MatchString(t):
			m := mIfState.FindStringSubmatch(t)
			n, _ := strconv.Atoi(m[2])
			body, p, err := parseMBlock(lines, pos+1)
			if err != nil {
				return nil, 0, err
			}
			if p >= len(lines) {
				return nil, 0, fmt.Errorf("if without end")
			}
			out = append(out, mStmt{kind: "if-state", n: n, body: body, skippable: m[1] != ""})
			pos = p + 1
		case mSetState.MatchString(t):
			n, _ := strconv.Atoi(mSetState.FindStringSubmatch(t)[1])
			out = append(out, mStmt{kind: "set", n: n})
			pos++
		case mRaise.MatchString(t):
			out = append(out, mStmt{kind: "raise"})
			pos++
		case strings.HasPrefix(t, "expected_method = "):
			pos++
		case mCall.MatchString(t):
			out = append(out, mStmt{kind: "call", name: mCall.FindStringSubmatch(t)[2]})
			pos++
		default:
			return nil, 0, fmt.Errorf("statement outside the vocabulary: %q", t)
		}
	}
	return out, pos, nil
}

// MatlabRun is one object of a parsed class.
type MatlabRun struct {
	C     *MatlabClass
	State int
	Calls []string // implementation methods (write_x_, ...) invoked so far
	// More scripts the results of has_x_ calls (reader): called with the callee name
	More func(callee string) bool
}

func NewMatlabRun(c *MatlabClass) *MatlabRun { return &MatlabRun{C: c, State: c.Init} }

// Call executes a public method; raised reports whether the method threw; known is false when the
// class has no such method.
func (r *MatlabRun) Call(method string) (raised, known bool) {
	body, ok := r.C.Methods[method]
	if !ok {
		return false, false
	}
	more := false
	var exec func(stmts []mStmt) bool
	exec = func(stmts []mStmt) bool {
		for _, s := range stmts {
			switch s.kind {
			case "if-state":
				if r.State != s.n {
					if exec(s.body) {
						return true
					}
				}
			case "if-notmore":
				if !more {
					if exec(s.body) {
						return true
					}
				}
			case "raise":
				return true
			case "set":
				r.State = s.n
			case "call":
				r.Calls = append(r.Calls, s.name)
				if strings.HasPrefix(s.name, "has_") && r.More != nil {
					more = r.More(s.name)
				}
			}
		}
		return false
	}
	return exec(body), true
}

// ---- reference automata of the documented MATLAB API --------------------------------------------
//
// writer: write_<step>(value) for every step in order (stream steps any number of times), end_<step>()
//         after a stream step, close() once every step is complete
// reader: read_<step>() for every step in order; for stream steps has_<step>() tells whether another
//         item follows and read_<step>() returns it; close() once every step is complete
//
// ops: W (write), E (end stream), R (read), H (has), C (close)

type MatlabWriter struct {
	Shape []bool
	i     int
}

func (a *MatlabWriter) Do(op Op) Verdict {
	n := len(a.Shape)
	switch op.Kind {
	case "C":
		if a.i == n {
			return Accept
		}
		return Reject
	case "W":
		if op.Step != a.i || a.i >= n {
			return Reject
		}
		if !a.Shape[a.i] {
			a.i++
		}
		return Accept
	case "E":
		if !a.Shape[op.Step] {
			return Unspecified // no such method
		}
		if op.Step != a.i || a.i >= n {
			return Reject
		}
		a.i++
		return Accept
	}
	return Unspecified
}

type MatlabReader struct {
	Shape  []bool
	Counts []int
	i      int
	taken  int // items of the current stream already read
}

// Do returns the verdict and, for an accepted H, the boolean it must return.
func (a *MatlabReader) Do(op Op) Outcome {
	n := len(a.Shape)
	switch op.Kind {
	case "C":
		if a.i == n {
			return Outcome{V: Accept}
		}
		return Outcome{V: Reject}
	case "R":
		if op.Step != a.i || a.i >= n {
			return Outcome{V: Reject}
		}
		if !a.Shape[a.i] {
			a.i++
			return Outcome{V: Accept}
		}
		if a.taken >= a.Counts[a.i] {
			return Outcome{V: Unspecified} // reading past the end of a stream without asking has_<step>()
		}
		a.taken++
		return Outcome{V: Accept}
	case "H":
		if !a.Shape[op.Step] {
			return Outcome{V: Unspecified} // no such method
		}
		if op.Step != a.i || a.i >= n {
			return Outcome{V: Reject}
		}
		more := a.taken < a.Counts[a.i]
		if !more {
			a.i++
			a.taken = 0
		}
		return Outcome{V: Accept, Result: more}
	}
	return Outcome{V: Unspecified}
}

// Remaining tells the scripted source how many items of the reader's current stream are left.
func (a *MatlabReader) Remaining() int {
	if a.i < len(a.Shape) && a.Shape[a.i] {
		return a.Counts[a.i] - a.taken
	}
	return 0
}
