package ref

// plan_cpp.go: recovers the serialization plan that the C++ backend generated from the text of
// binary/protocols.cc (compositions of Write…/Read… function templates) and types.h (enum base
// types, `using` aliases, struct member types). Used by C14.
//
// The generated code has a small fixed vocabulary:
//
//	[template<typename T, yardl::binary::Writer<T> WriteT, …>]
//	[[maybe_unused]] void WriteRec(yardl::binary::CodedOutputStream& stream, ns::Rec<T> const& value) {
//	  if constexpr (yardl::binary::IsTriviallySerializable<…>::value) { …; return; }
//	  <fn-expression>(stream, value.<member>);      // record: one statement per field, in order
//	  <fn-expression>(stream, value);               // alias: exactly one statement
//	}
//
// and a <fn-expression> is NAME or NAME<arg, …> whose arguments alternate between C++ types and
// element functions. Anything outside this vocabulary yields ErrUnknown, which the check counts
// and skips (it never alarms on text it cannot read).

import (
	"fmt"
	"regexp"
	"strings"
)

// TExpr is a C++ template expression: Name<Args…>.
type TExpr struct {
	Name string
	Args []*TExpr
}

func (e *TExpr) String() string {
	if e == nil {
		return "?"
	}
	if len(e.Args) == 0 {
		return e.Name
	}
	var as []string
	for _, a := range e.Args {
		as = append(as, a.String())
	}
	return e.Name + "<" + strings.Join(as, ", ") + ">"
}

type tparser struct {
	s   string
	pos int
}

func (p *tparser) ws() {
	for p.pos < len(p.s) && (p.s[p.pos] == ' ' || p.s[p.pos] == '\n' || p.s[p.pos] == '\t') {
		p.pos++
	}
}

func (p *tparser) parse() (*TExpr, error) {
	p.ws()
	start := p.pos
	for p.pos < len(p.s) {
		c := p.s[p.pos]
		if c == '_' || c == ':' || (c >= 'a' && c <= 'z') || (c >= 'A' && c <= 'Z') || (c >= '0' && c <= '9') {
			p.pos++
			continue
		}
		// "unsigned int"-like multi-word types do not occur in generated code; a space ends the name
		break
	}
	if p.pos == start {
		return nil, fmt.Errorf("expected a name at %d in %q", p.pos, trunc(p.s, 160))
	}
	e := &TExpr{Name: p.s[start:p.pos]}
	p.ws()
	if p.pos < len(p.s) && p.s[p.pos] == '<' {
		p.pos++
		for {
			p.ws()
			if p.pos >= len(p.s) {
				return nil, fmt.Errorf("unterminated template argument list in %q", trunc(p.s, 160))
			}
			if p.s[p.pos] == '>' {
				p.pos++
				break
			}
			if p.s[p.pos] == ',' {
				p.pos++
				continue
			}
			a, err := p.parse()
			if err != nil {
				return nil, err
			}
			e.Args = append(e.Args, a)
		}
	}
	return e, nil
}

// ParseTExpr parses a complete template expression (nothing may follow it).
func ParseTExpr(s string) (*TExpr, error) {
	p := &tparser{s: s}
	e, err := p.parse()
	if err != nil {
		return nil, err
	}
	p.ws()
	if p.pos != len(p.s) {
		return nil, fmt.Errorf("trailing text %q after template expression", trunc(p.s[p.pos:], 60))
	}
	return e, nil
}

func (e *TExpr) subst(bind map[string]*TExpr) *TExpr {
	if e == nil {
		return nil
	}
	if len(e.Args) == 0 {
		if r, ok := bind[e.Name]; ok {
			return r
		}
		return e
	}
	out := &TExpr{Name: e.Name}
	for _, a := range e.Args {
		out.Args = append(out.Args, a.subst(bind))
	}
	return out
}

// CppFunc is one generated (de)serialization function of binary/protocols.cc.
type CppFunc struct {
	Ns      string   // e.g. "mdl::binary"
	Name    string   // e.g. "WriteRec"
	Params  []string // template type parameters, in order (T, U, …); the i-th element function is Write<T>/Read<T>
	FnNames []string // names of the element function parameters (WriteT, …)
	ValType *TExpr   // declared type of `value`
	Members []string // "" for an alias statement (value), else the member name, per statement
	Stmts   []*TExpr // function expression per statement
}

// CppUnit is what the C++ extractor knows about one generated tree.
type CppUnit struct {
	Funcs    map[string]*CppFunc // key: ns::Name
	EnumBase map[string]string   // qualified C++ enum/flags type -> base C++ type
	Usings   map[string]*cppUsing
	Structs  map[string][]*TExpr // qualified struct -> member types in order
}

type cppUsing struct {
	Params []string
	Target *TExpr
}

var (
	cppNsRe     = regexp.MustCompile(`^namespace ([A-Za-z0-9_:]+) \{$`)
	cppNsEndRe  = regexp.MustCompile(`^\} ?// ?namespace ([A-Za-z0-9_:]+)\s*$`)
	cppTmplRe   = regexp.MustCompile(`^template ?<(.*)>$`)
	cppFuncRe   = regexp.MustCompile(`^(?:\[\[maybe_unused\]\] )?void ((?:Write|Read)\w+)\(yardl::binary::Coded(?:Out|In)putStream& stream, (.+?)(?: const)?& value\) \{$`)
	cppStmtRe   = regexp.MustCompile(`^  (.+)\(stream, value(?:\.(\w+))?\);$`)
	cppEnumRe   = regexp.MustCompile(`^enum class (\w+)(?: : ([\w:]+))? \{$`)
	cppFlagsRe  = regexp.MustCompile(`^struct (\w+) : yardl::BaseFlags<([\w:]+), (\w+)> \{$`)
	cppUsingRe  = regexp.MustCompile(`^using (\w+) = (.+);$`)
	cppStructRe = regexp.MustCompile(`^struct (\w+) \{$`)
	cppMemberRe = regexp.MustCompile(`^  ([^()=]+?) (\w+)\{\};$`)
	cppTypeName = regexp.MustCompile(`typename (\w+)`)
	cppFnParam  = regexp.MustCompile(`yardl::binary::(?:Writer|Reader)<(\w+)> (\w+)`)
)

// ParseCppUnit reads types.h and binary/protocols.cc of one generated tree.
func ParseCppUnit(typesH, protocolsCc string) *CppUnit {
	u := &CppUnit{Funcs: map[string]*CppFunc{}, EnumBase: map[string]string{}, Usings: map[string]*cppUsing{}, Structs: map[string][]*TExpr{}}
	// ---- types.h
	ns := ""
	var tparams []string
	curStruct := ""
	for _, line := range strings.Split(typesH, "\n") {
		line = strings.TrimRight(line, " \r")
		if m := cppNsRe.FindStringSubmatch(line); m != nil {
			ns = m[1]
			continue
		}
		if m := cppTmplRe.FindStringSubmatch(strings.TrimSpace(line)); m != nil && !strings.HasPrefix(line, " ") {
			tparams = nil
			for _, tm := range cppTypeName.FindAllStringSubmatch(m[1], -1) {
				tparams = append(tparams, tm[1])
			}
			continue
		}
		if m := cppEnumRe.FindStringSubmatch(line); m != nil {
			if m[2] == "" {
				m[2] = "int32_t" // `enum class E {`: the C++ default underlying type int
			}
			u.EnumBase[ns+"::"+m[1]] = m[2]
			tparams = nil
			continue
		}
		if m := cppFlagsRe.FindStringSubmatch(line); m != nil {
			u.EnumBase[ns+"::"+m[1]] = m[2]
			tparams = nil
			continue
		}
		if m := cppUsingRe.FindStringSubmatch(line); m != nil {
			if t, err := ParseTExpr(m[2]); err == nil {
				u.Usings[ns+"::"+m[1]] = &cppUsing{Params: tparams, Target: t}
			}
			tparams = nil
			continue
		}
		if m := cppStructRe.FindStringSubmatch(line); m != nil {
			curStruct = ns + "::" + m[1]
			u.Structs[curStruct] = []*TExpr{}
			tparams = nil
			continue
		}
		if curStruct != "" {
			if line == "};" {
				curStruct = ""
				continue
			}
			if m := cppMemberRe.FindStringSubmatch(line); m != nil {
				t, err := ParseTExpr(m[1])
				if err != nil {
					t = nil
				}
				u.Structs[curStruct] = append(u.Structs[curStruct], t)
			}
		}
	}
	// ---- binary/protocols.cc
	ns = ""
	var cur *CppFunc
	var pendingT []string
	var pendingF []string
	skipDepth := 0
	for _, line := range strings.Split(protocolsCc, "\n") {
		line = strings.TrimRight(line, " \r")
		if cur == nil {
			if m := cppNsRe.FindStringSubmatch(line); m != nil {
				ns = m[1]
				continue
			}
			if m := cppNsEndRe.FindStringSubmatch(line); m != nil && m[1] == ns {
				ns = ""
				continue
			}
			if m := cppTmplRe.FindStringSubmatch(line); m != nil {
				pendingT, pendingF = nil, nil
				for _, tm := range cppTypeName.FindAllStringSubmatch(m[1], -1) {
					pendingT = append(pendingT, tm[1])
				}
				for _, fm := range cppFnParam.FindAllStringSubmatch(m[1], -1) {
					pendingF = append(pendingF, fm[2])
				}
				continue
			}
			if m := cppFuncRe.FindStringSubmatch(line); m != nil {
				vt, err := ParseTExpr(m[2])
				if err != nil {
					vt = nil
				}
				cur = &CppFunc{Ns: ns, Name: m[1], Params: pendingT, FnNames: pendingF, ValType: vt}
				pendingT, pendingF = nil, nil
				skipDepth = 0
				continue
			}
			if line != "" && !strings.HasPrefix(line, "//") {
				pendingT, pendingF = nil, nil
			}
			continue
		}
		// inside a function body
		if line == "}" {
			if _, dup := u.Funcs[cur.Ns+"::"+cur.Name]; !dup {
				u.Funcs[cur.Ns+"::"+cur.Name] = cur
			}
			cur = nil
			continue
		}
		if strings.HasPrefix(line, "  if constexpr (yardl::binary::IsTriviallySerializable<") {
			skipDepth = 1
			continue
		}
		if skipDepth > 0 {
			if line == "  }" {
				skipDepth = 0
			}
			continue
		}
		if line == "" {
			continue
		}
		if m := cppStmtRe.FindStringSubmatch(line); m != nil {
			e, err := ParseTExpr(m[1])
			if err != nil {
				e = &TExpr{Name: "<unparsed>"}
			}
			cur.Members = append(cur.Members, m[2])
			cur.Stmts = append(cur.Stmts, e)
			continue
		}
		// a statement outside the vocabulary: remember it as unknown
		cur.Members = append(cur.Members, "?")
		cur.Stmts = append(cur.Stmts, &TExpr{Name: "<unparsed>"})
	}
	return u
}

// IsAlias: the function forwards `value` as a whole (generated for named aliases).
func (f *CppFunc) IsAlias() bool { return len(f.Stmts) == 1 && f.Members[0] == "" }

// resolve expands `using` aliases at the head of a type until a non-alias type is reached.
func (u *CppUnit) resolve(t *TExpr) *TExpr {
	for i := 0; t != nil && i < 64; i++ {
		us, ok := u.Usings[t.Name]
		if !ok {
			return t
		}
		bind := map[string]*TExpr{}
		for j, p := range us.Params {
			if j < len(t.Args) {
				bind[p] = t.Args[j]
			}
		}
		// names inside a using target are written fully qualified, except template parameters
		t = us.Target.subst(bind)
	}
	return t
}

var cppInt = map[string]string{
	"bool": "bool", "int8_t": "int8", "uint8_t": "uint8", "int16_t": "int16", "uint16_t": "uint16", "int32_t": "int32", "uint32_t": "uint32",
	"int64_t": "int64", "uint64_t": "uint64", "yardl::Size": "size",
}

func stripRW(name string) (kind, rest string, ok bool) {
	seg := name
	if i := strings.LastIndex(seg, "::"); i >= 0 {
		seg = seg[i+2:]
	}
	switch {
	case strings.HasPrefix(seg, "Write"):
		return "Write", seg[5:], true
	case strings.HasPrefix(seg, "Read"):
		return "Read", seg[4:], true
	}
	return "", "", false
}

// Plan of (element function, C++ type of the element). ty may be nil when the text does not name it.
// params maps element-function parameter names of the enclosing template (WriteT) to type parameter names.
func (u *CppUnit) Plan(fn, ty *TExpr, params map[string]string, depth int) (string, error) {
	if depth > 40 {
		return "", fmt.Errorf("alias expansion too deep at %s", fn)
	}
	if fn == nil {
		return "", &ErrUnknown{"<nil>"}
	}
	if p, ok := params[fn.Name]; ok && len(fn.Args) == 0 {
		return "param:" + p, nil
	}
	rw, base, ok := stripRW(fn.Name)
	if !ok {
		return "", &ErrUnknown{fn.Name}
	}
	sub := func(f, t *TExpr) (string, error) { return u.Plan(f, t, params, depth+1) }
	need := func(n int) error {
		if len(fn.Args) < n {
			return fmt.Errorf("%s: %d template arguments, expected at least %d", fn.Name, len(fn.Args), n)
		}
		return nil
	}
	if strings.HasPrefix(fn.Name, "yardl::binary::") {
		switch base {
		case "Integer":
			rt := u.resolve(ty)
			if rt == nil {
				return "", &ErrUnknown{"Integer without a type"}
			}
			if p, ok := cppInt[rt.Name]; ok && len(rt.Args) == 0 {
				return "prim:" + p, nil
			}
			if _, isParam := reverse(params)[rt.Name]; isParam {
				return "", &ErrUnknown{"Integer on a type parameter"}
			}
			return "", fmt.Errorf("%sInteger applied to the non-integer C++ type %s", rw, rt)
		case "FloatingPoint":
			rt := u.resolve(ty)
			if rt == nil {
				return "", &ErrUnknown{"FloatingPoint without a type"}
			}
			switch rt.String() {
			case "float":
				return "prim:float32", nil
			case "double":
				return "prim:float64", nil
			case "std::complex<float>":
				return "prim:complexfloat32", nil
			case "std::complex<double>":
				return "prim:complexfloat64", nil
			}
			return "", fmt.Errorf("%sFloatingPoint applied to the C++ type %s", rw, rt)
		case "String":
			return "prim:string", nil
		case "Date":
			return "prim:date", nil
		case "Time":
			return "prim:time", nil
		case "DateTime":
			return "prim:datetime", nil
		case "Monostate":
			return "null", nil
		case "Enum", "Flags":
			if err := need(1); err != nil {
				return "", err
			}
			et := u.resolve(fn.Args[0])
			b, ok := u.EnumBase[et.Name]
			if !ok {
				return "", &ErrUnknown{"enum type " + et.Name}
			}
			if rb := u.resolve(&TExpr{Name: b}); rb != nil && len(rb.Args) == 0 {
				b = rb.Name // the base may be spelled through a using-alias
			}
			p, ok := cppInt[b]
			if !ok {
				return "", fmt.Errorf("enum %s has the non-integer base %s", et.Name, b)
			}
			return "enum(prim:" + p + ")", nil
		case "Optional", "Vector", "DynamicNDArray", "Block":
			if err := need(2); err != nil {
				return "", err
			}
			a, err := sub(fn.Args[1], fn.Args[0])
			if err != nil {
				return "", err
			}
			return map[string]string{"Optional": "optional", "Vector": "vector", "DynamicNDArray": "dynarray", "Block": "stream"}[base] + "(" + a + ")", nil
		case "Array", "NDArray":
			if err := need(3); err != nil {
				return "", err
			}
			a, err := sub(fn.Args[1], fn.Args[0])
			if err != nil {
				return "", err
			}
			if base == "Array" {
				return fmt.Sprintf("fixedvector(%s,%s)", a, fn.Args[2].Name), nil
			}
			return fmt.Sprintf("ndarray(%s,%s)", a, fn.Args[2].Name), nil
		case "FixedNDArray":
			if err := need(3); err != nil {
				return "", err
			}
			a, err := sub(fn.Args[1], fn.Args[0])
			if err != nil {
				return "", err
			}
			var ds []string
			for _, d := range fn.Args[2:] {
				ds = append(ds, d.Name)
			}
			return "fixedarray(" + a + ",[" + strings.Join(ds, " ") + "])", nil
		case "Map":
			if err := need(4); err != nil {
				return "", err
			}
			k, err := sub(fn.Args[2], fn.Args[0])
			if err != nil {
				return "", err
			}
			v, err := sub(fn.Args[3], fn.Args[1])
			if err != nil {
				return "", err
			}
			return "map(" + k + "," + v + ")", nil
		}
		return "", &ErrUnknown{fn.Name}
	}
	if fn.Name == rw+"Union" {
		if len(fn.Args) == 0 || len(fn.Args)%2 != 0 {
			return "", fmt.Errorf("%s: odd number of template arguments", fn.Name)
		}
		var cs []string
		for i := 0; i < len(fn.Args); i += 2 {
			c, err := sub(fn.Args[i+1], fn.Args[i])
			if err != nil {
				return "", err
			}
			cs = append(cs, c)
		}
		return "union(" + strings.Join(cs, ",") + ")", nil
	}
	// a generated function of some namespace: record or alias
	f, ok := u.Funcs[fn.Name]
	if !ok {
		return "", &ErrUnknown{fn.Name}
	}
	if len(fn.Args) != 2*len(f.Params) {
		return "", fmt.Errorf("%s: %d template arguments for %d type parameters", fn.Name, len(fn.Args), len(f.Params))
	}
	if f.IsAlias() {
		// substitute the caller's (type, function) pairs into the alias body and continue there
		tb := map[string]*TExpr{}
		for i, p := range f.Params {
			tb[p] = fn.Args[2*i]
			if i < len(f.FnNames) {
				tb[f.FnNames[i]] = fn.Args[2*i+1]
			}
		}
		body := f.Stmts[0].subst(tb)
		var vt *TExpr
		if f.ValType != nil {
			vt = f.ValType.subst(tb)
		}
		return u.Plan(body, vt, params, depth+1)
	}
	var as []string
	for i := range f.Params {
		a, err := sub(fn.Args[2*i+1], fn.Args[2*i])
		if err != nil {
			return "", err
		}
		as = append(as, a)
	}
	return "record:" + base + "(" + strings.Join(as, ",") + ")", nil
}

func reverse(m map[string]string) map[string]string {
	r := map[string]string{}
	for k, v := range m {
		r[v] = k
	}
	return r
}

// RecordPlans returns the plan of every field statement of the generated record function
// ns::binary::{Write,Read}<Name>; errs[i] is non-nil where a statement could not be interpreted.
func (u *CppUnit) RecordPlans(cppNs, rw, name string) (plans []string, errs []error, found bool) {
	f, ok := u.Funcs[cppNs+"::binary::"+rw+name]
	if !ok {
		return nil, nil, false
	}
	params := map[string]string{}
	for i, p := range f.Params {
		if i < len(f.FnNames) {
			params[f.FnNames[i]] = p
		}
	}
	members := u.Structs[cppNs+"::"+name]
	for i, st := range f.Stmts {
		var ty *TExpr
		if i < len(members) {
			ty = members[i]
		}
		if f.Members[i] == "?" || f.Members[i] == "" {
			plans = append(plans, "")
			errs = append(errs, &ErrUnknown{"statement outside the vocabulary"})
			continue
		}
		p, err := u.Plan(st, ty, params, 0)
		plans = append(plans, p)
		errs = append(errs, err)
	}
	return plans, errs, true
}

var cppStepRe = regexp.MustCompile(`(?m)^(?:void|bool) (\w+)(Writer|Reader)::(Write|Read)(\w+)Impl\((.+?)(?: const)?& values?\) \{\n((?:  .*\n|\n)*?)\}`)
var cppStepCall = regexp.MustCompile(`(?m)^ *(?:read_block_successful = )?((?:[\w:]+)(?:<.*>)?)\(stream_, (?:current_block_remaining_, )?values?\);$`)

// CppStep is one generated step implementation (an overload of Write<Step>Impl / Read<Step>Impl).
type CppStep struct {
	Protocol, Side, Step string
	ParamType            *TExpr
	Call                 *TExpr
}

// Steps extracts the step implementations of binary/protocols.cc in textual order.
func CppSteps(protocolsCc string) []CppStep {
	var out []CppStep
	for _, m := range cppStepRe.FindAllStringSubmatch(protocolsCc, -1) {
		st := CppStep{Protocol: m[1], Side: m[2], Step: m[4]}
		if t, err := ParseTExpr(m[5]); err == nil {
			st.ParamType = t
		}
		if cm := cppStepCall.FindStringSubmatch(m[6]); cm != nil {
			if e, err := ParseTExpr(cm[1]); err == nil {
				st.Call = e
			}
		}
		out = append(out, st)
	}
	return out
}

// StepPlan interprets one step implementation. Stream steps have two overloads: the single-item one
// (Write/ReadBlock) and the batch one (WriteVector / ReadBlocksIntoVector over std::vector<item>);
// both are reported as stream(<item plan>).
func (u *CppUnit) StepPlan(st CppStep, isStream bool) (string, error) {
	if st.Call == nil {
		return "", &ErrUnknown{"step body outside the vocabulary"}
	}
	_, base, _ := stripRW(st.Call.Name)
	batch := st.ParamType != nil && st.ParamType.Name == "std::vector"
	if strings.HasPrefix(st.Call.Name, "yardl::binary::") && isStream && batch && (base == "BlocksIntoVector" || base == "Vector") {
		if len(st.Call.Args) < 2 {
			return "", fmt.Errorf("%s: bad template arguments", st.Call.Name)
		}
		a, err := u.Plan(st.Call.Args[1], st.Call.Args[0], nil, 0)
		if err != nil {
			return "", err
		}
		return "stream(" + a + ")", nil
	}
	return u.Plan(st.Call, st.ParamType, nil, 0)
}
