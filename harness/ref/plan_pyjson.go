package ref

// plan_pyjson.go: recovers the plan of the Python NDJSON backend from the converter constructor
// expressions in generated ndjson.py. Besides the composition (which must equal the plan the
// schema prescribes, as for the binary backends) every UnionConverter carries the decision
// "simple" (untagged) and, per case, the list of JSON datatypes that select it; these are
// returned separately so that C14 can compare them with the documented rule.

import (
	"fmt"
	"strings"
)

// PyUnionInfo is what a generated UnionConverter says about one union.
type PyUnionInfo struct {
	Plan      string     // plan of the union
	Simple    bool       // written untagged
	CaseKinds [][]string // per non-null case: python type names that select it (int, float, str, bool, list, dict)
}

var npBase = map[string]string{
	"np.int8": "int8", "np.uint8": "uint8", "np.int16": "int16", "np.uint16": "uint16", "np.int32": "int32", "np.uint32": "uint32",
	"np.int64": "int64", "np.uint64": "uint64",
}

// PyJsonPlan converts a Python _ndjson converter expression into a plan string; unions met on
// the way are appended to *unions.
func PyJsonPlan(e *Expr, unions *[]PyUnionInfo) (string, error) {
	seg := lastSeg(e.Name)
	if e.Kind == "ident" {
		if strings.HasSuffix(seg, "_converter") {
			base := strings.TrimSuffix(seg, "_converter")
			if strings.HasPrefix(e.Name, "_ndjson.") {
				if p, ok := primOf[base]; ok {
					return "prim:" + p, nil
				}
				return "", &ErrUnknown{e.Name}
			}
			return "param:" + strings.ToUpper(base), nil
		}
		if seg == "None" {
			return "null", nil
		}
		return "", &ErrUnknown{e.Name}
	}
	if e.Kind != "call" {
		return "", &ErrUnknown{e.Kind + ":" + e.Name}
	}
	arg := func(i int) (string, error) {
		if i >= len(e.Args) {
			return "", fmt.Errorf("%s: missing argument %d", e.Name, i)
		}
		return PyJsonPlan(e.Args[i], unions)
	}
	if strings.HasPrefix(e.Name, "_ndjson.") {
		switch seg {
		case "OptionalConverter", "VectorConverter", "DynamicNDArrayConverter":
			a, err := arg(0)
			if err != nil {
				return "", err
			}
			return map[string]string{"OptionalConverter": "optional", "VectorConverter": "vector", "DynamicNDArrayConverter": "dynarray"}[seg] + "(" + a + ")", nil
		case "FixedVectorConverter", "NDArrayConverter":
			a, err := arg(0)
			if err != nil || len(e.Args) < 2 {
				return "", fmt.Errorf("%s: bad arguments (%v)", seg, err)
			}
			if seg == "FixedVectorConverter" {
				return fmt.Sprintf("fixedvector(%s,%s)", a, e.Args[1].Name), nil
			}
			return fmt.Sprintf("ndarray(%s,%s)", a, e.Args[1].Name), nil
		case "FixedNDArrayConverter":
			a, err := arg(0)
			if err != nil || len(e.Args) < 2 {
				return "", fmt.Errorf("%s: bad arguments (%v)", seg, err)
			}
			var ds []string
			for _, d := range e.Args[1].Args {
				ds = append(ds, d.Name)
			}
			return "fixedarray(" + a + ",[" + strings.Join(ds, " ") + "])", nil
		case "MapConverter":
			k, err := arg(0)
			if err != nil {
				return "", err
			}
			v, err := arg(1)
			if err != nil {
				return "", err
			}
			return "map(" + k + "," + v + ")", nil
		case "EnumConverter", "FlagsConverter":
			if len(e.Args) < 2 {
				return "", fmt.Errorf("%s: bad arguments", seg)
			}
			b, ok := npBase[e.Args[1].Name]
			if !ok {
				return "", &ErrUnknown{seg + " base " + e.Args[1].Name}
			}
			if seg == "FlagsConverter" {
				return "flags(prim:" + b + ")", nil
			}
			return "enum(prim:" + b + ")", nil
		case "UnionConverter":
			if len(e.Args) < 3 || e.Args[1].Kind != "list" {
				return "", fmt.Errorf("UnionConverter: bad arguments")
			}
			info := PyUnionInfo{}
			switch e.Args[2].Name {
			case "True":
				info.Simple = true
			case "False":
			default:
				return "", fmt.Errorf("UnionConverter: third argument %q is not a boolean literal", e.Args[2].Name)
			}
			var cs []string
			for _, c := range e.Args[1].Args {
				if c.Kind == "ident" && lastSeg(c.Name) == "None" {
					cs = append(cs, "null")
					continue
				}
				if c.Kind != "list" || len(c.Args) != 3 || c.Args[2].Kind != "list" {
					return "", fmt.Errorf("UnionConverter: unexpected case form")
				}
				p, err := PyJsonPlan(c.Args[1], unions)
				if err != nil {
					return "", err
				}
				cs = append(cs, p)
				var ks []string
				for _, k := range c.Args[2].Args {
					ks = append(ks, k.Name)
				}
				info.CaseKinds = append(info.CaseKinds, ks)
			}
			info.Plan = "union(" + strings.Join(cs, ",") + ")"
			if unions != nil {
				*unions = append(*unions, info)
			}
			return info.Plan, nil
		}
		return "", &ErrUnknown{e.Name}
	}
	if strings.HasSuffix(seg, "Converter") {
		var as []string
		for _, a := range e.Args {
			p, err := PyJsonPlan(a, unions)
			if err != nil {
				return "", err
			}
			as = append(as, p)
		}
		return "record:" + strings.TrimSuffix(seg, "Converter") + "(" + strings.Join(as, ",") + ")", nil
	}
	return "", &ErrUnknown{e.Name}
}
