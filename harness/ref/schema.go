package ref

// schema.go: the *content* a protocol schema must carry according to
// docs/reference/protocol-schema.md (and the literal examples in binary.md / ndjson.md),
// derived from the model IR, and a tolerant extractor that recovers the same content from
// the JSON yardl emits. Form is free (wrapped or unwrapped type entries, "tag" or "label",
// undocumented extra keys are ignored), content is strict. See D3 in DESIGN.md.

import (
	"encoding/json"
	"fmt"
	"sort"
	"strings"

	"verif/harness/model"
)

// SchemaContent is the canonical content of a schema.
type SchemaContent struct {
	Protocol string
	Steps    []string          // "name: <type>"
	Types    map[string]string // type name -> canonical body
}

// addType records a type of the schema's "types" list. The list carries simple names only, so
// two namespaces that define a type of the same name give two entries under one name: they are
// kept as a sorted set (which entry belongs to which namespace cannot be told from the schema).
func (s *SchemaContent) addType(name, body string) {
	old, ok := s.Types[name]
	if !ok {
		s.Types[name] = body
		return
	}
	parts := strings.Split(old, "\n   | ")
	for _, p := range parts {
		if p == body {
			return
		}
	}
	parts = append(parts, body)
	sort.Strings(parts)
	s.Types[name] = strings.Join(parts, "\n   | ")
}

func (s *SchemaContent) String() string {
	var b strings.Builder
	fmt.Fprintf(&b, "protocol %s\n", s.Protocol)
	for _, st := range s.Steps {
		b.WriteString("  " + st + "\n")
	}
	var names []string
	for n := range s.Types {
		names = append(names, n)
	}
	sort.Strings(names)
	for _, n := range names {
		fmt.Fprintf(&b, "type %s = %s\n", n, s.Types[n])
	}
	return b.String()
}

func canonType(t *model.Type) string {
	if t == nil {
		return "null"
	}
	switch t.Kind {
	case model.KPrim:
		return t.Prim
	case model.KParam:
		return t.Name
	case model.KRef:
		s := t.Ns + "." + t.Name
		if len(t.Args) > 0 {
			var as []string
			for _, a := range t.Args {
				as = append(as, canonType(a))
			}
			s += "<" + strings.Join(as, ",") + ">"
		}
		return s
	case model.KOptional:
		return "[null," + canonType(t.Elem) + "]"
	case model.KUnion:
		var cs []string
		for i, c := range t.Cases {
			if c == nil {
				cs = append(cs, "null")
			} else {
				cs = append(cs, Tag(t, i)+":"+canonType(c))
			}
		}
		return "[" + strings.Join(cs, "|") + "]"
	case model.KVector:
		if t.Len != nil {
			return fmt.Sprintf("vector(%s,%d)", canonType(t.Elem), *t.Len)
		}
		return "vector(" + canonType(t.Elem) + ")"
	case model.KArray:
		if !t.HasDims {
			return "array(" + canonType(t.Elem) + ")"
		}
		var ds []string
		for _, d := range t.Dims {
			s := d.Name
			if d.Len != nil {
				s += fmt.Sprintf("=%d", *d.Len)
			}
			ds = append(ds, s)
		}
		return "array(" + canonType(t.Elem) + ";" + strings.Join(ds, ",") + ")"
	case model.KMap:
		return "map(" + canonType(t.Key) + "," + canonType(t.Elem) + ")"
	case model.KStream:
		return "stream(" + canonType(t.Elem) + ")"
	}
	return "?"
}

func canonDef(d *model.Def) string {
	tp := ""
	if len(d.TypeParams) > 0 {
		tp = "<" + strings.Join(d.TypeParams, ",") + ">"
	}
	switch d.Kind {
	case model.DRecord:
		var fs []string
		for _, f := range d.Fields {
			fs = append(fs, f.Name+":"+canonType(f.Type))
		}
		return "record" + tp + "{" + strings.Join(fs, ";") + "}"
	case model.DEnum, model.DFlags:
		// enums and flags are not distinguishable in the unwrapped form yardl emits (D4)
		var vs []string
		for _, v := range d.Values {
			if v.Unsigned {
				vs = append(vs, fmt.Sprintf("%s=%d", v.Symbol, v.UValue))
			} else {
				vs = append(vs, fmt.Sprintf("%s=%d", v.Symbol, v.Value))
			}
		}
		base := d.Base
		if d.BaseRef != nil && base != "" {
			base = canonType(d.BaseRef) // the schema names the alias; the alias is part of the closure
		}
		return "enum(" + base + "){" + strings.Join(vs, ",") + "}"
	case model.DAlias:
		return "alias" + tp + "=" + canonType(d.Type)
	}
	return "?"
}

// ExpectedSchema derives the content from the IR: the protocol, and the transitive closure of
// the named types it uses.
func ExpectedSchema(env *model.Env, proto *model.Def) *SchemaContent {
	s := &SchemaContent{Protocol: proto.Name, Types: map[string]string{}}
	seen := map[string]bool{}
	var visitT func(t *model.Type)
	visitT = func(t *model.Type) {
		model.Walk(t, func(x *model.Type) {
			if x.Kind != model.KRef {
				return
			}
			key := x.Ns + "." + x.Name
			if seen[key] {
				return
			}
			seen[key] = true
			d := env.Lookup(x.Ns, x.Name)
			if d == nil {
				return
			}
			s.addType(d.Name, canonDef(d))
			model.DefTypes(d, visitT)
			if d.BaseRef != nil && d.Base != "" {
				visitT(d.BaseRef)
			}
		})
	}
	for _, st := range proto.Fields {
		s.Steps = append(s.Steps, st.Name+": "+canonType(st.Type))
		visitT(st.Type)
	}
	return s
}

// ---------------------------------------------------------------------------------------
// extractor

func extractType(x any) (string, error) {
	switch v := x.(type) {
	case nil:
		return "null", nil
	case string:
		return v, nil
	case []any:
		// optional [null, T] or union
		if len(v) == 2 && v[0] == nil {
			if _, isObj := v[1].(map[string]any); !isObj {
				t, err := extractType(v[1])
				return "[null," + t + "]", err
			}
			if m := v[1].(map[string]any); m["tag"] == nil && m["label"] == nil {
				t, err := extractType(v[1])
				return "[null," + t + "]", err
			}
		}
		var cs []string
		for _, c := range v {
			if c == nil {
				cs = append(cs, "null")
				continue
			}
			m, ok := c.(map[string]any)
			if !ok {
				return "", fmt.Errorf("union case is not an object: %v", c)
			}
			tag, _ := m["tag"].(string)
			if tag == "" {
				tag, _ = m["label"].(string)
			}
			t, err := extractType(m["type"])
			if err != nil {
				return "", err
			}
			cs = append(cs, tag+":"+t)
		}
		return "[" + strings.Join(cs, "|") + "]", nil
	case map[string]any:
		if n, ok := v["name"].(string); ok {
			args, _ := v["typeArguments"].([]any)
			var as []string
			for _, a := range args {
				t, err := extractType(a)
				if err != nil {
					return "", err
				}
				as = append(as, t)
			}
			if len(as) > 0 {
				return n + "<" + strings.Join(as, ",") + ">", nil
			}
			return n, nil
		}
		if inner, ok := v["vector"].(map[string]any); ok {
			t, err := extractType(inner["items"])
			if l, has := inner["length"]; has {
				return fmt.Sprintf("vector(%s,%v)", t, l), err
			}
			return "vector(" + t + ")", err
		}
		if inner, ok := v["array"].(map[string]any); ok {
			t, err := extractType(inner["items"])
			if err != nil {
				return "", err
			}
			dims, has := inner["dimensions"]
			if !has || dims == nil {
				return "array(" + t + ")", nil
			}
			var ds []string
			switch d := dims.(type) {
			case json.Number:
				n, _ := d.Int64()
				for i := int64(0); i < n; i++ {
					ds = append(ds, "")
				}
			case []any:
				for _, e := range d {
					m, _ := e.(map[string]any)
					s, _ := m["name"].(string)
					if l, has := m["length"]; has {
						s += fmt.Sprintf("=%v", l)
					}
					ds = append(ds, s)
				}
			default:
				return "", fmt.Errorf("unexpected dimensions %v", dims)
			}
			return "array(" + t + ";" + strings.Join(ds, ",") + ")", nil
		}
		if inner, ok := v["map"].(map[string]any); ok {
			k, err := extractType(inner["keys"])
			if err != nil {
				return "", err
			}
			e, err := extractType(inner["values"])
			return "map(" + k + "," + e + ")", err
		}
		if inner, ok := v["stream"].(map[string]any); ok {
			t, err := extractType(inner["items"])
			return "stream(" + t + ")", err
		}
	}
	return "", fmt.Errorf("unrecognised type form %v", x)
}

func typeParams(m map[string]any) string {
	tps, _ := m["typeParameters"].([]any)
	if len(tps) == 0 {
		return ""
	}
	var ns []string
	for _, t := range tps {
		ns = append(ns, fmt.Sprint(t))
	}
	return "<" + strings.Join(ns, ",") + ">"
}

// ExtractSchema recovers the content from yardl's schema JSON.
func ExtractSchema(text string) (*SchemaContent, error) {
	dec := json.NewDecoder(strings.NewReader(text))
	dec.UseNumber()
	var top map[string]any
	if err := dec.Decode(&top); err != nil {
		return nil, fmt.Errorf("schema is not JSON: %v", err)
	}
	p, ok := top["protocol"].(map[string]any)
	if !ok {
		return nil, fmt.Errorf("no protocol object")
	}
	s := &SchemaContent{Types: map[string]string{}}
	s.Protocol, _ = p["name"].(string)
	seq, _ := p["sequence"].([]any)
	for _, e := range seq {
		m, _ := e.(map[string]any)
		t, err := extractType(m["type"])
		if err != nil {
			return nil, err
		}
		s.Steps = append(s.Steps, fmt.Sprintf("%v: %s", m["name"], t))
	}
	types, _ := top["types"].([]any)
	for _, e := range types {
		m, _ := e.(map[string]any)
		// wrapped form {"record": {...}} / {"enum": {...}} / {"flags": ...} / {"alias": ...}
		for _, k := range []string{"record", "enum", "flags", "alias"} {
			if inner, ok := m[k].(map[string]any); ok && len(m) == 1 {
				m = inner
			}
		}
		name, _ := m["name"].(string)
		switch {
		case m["fields"] != nil:
			var fs []string
			for _, f := range m["fields"].([]any) {
				fm, _ := f.(map[string]any)
				t, err := extractType(fm["type"])
				if err != nil {
					return nil, err
				}
				fs = append(fs, fmt.Sprintf("%v:%s", fm["name"], t))
			}
			s.addType(name, "record"+typeParams(m)+"{"+strings.Join(fs, ";")+"}")
		case m["values"] != nil:
			var vs []string
			for _, v := range m["values"].([]any) {
				vm, _ := v.(map[string]any)
				vs = append(vs, fmt.Sprintf("%v=%v", vm["symbol"], vm["value"]))
			}
			base, _ := m["base"].(string)
			s.addType(name, "enum("+base+"){"+strings.Join(vs, ",")+"}")
		case m["type"] != nil:
			t, err := extractType(m["type"])
			if err != nil {
				return nil, err
			}
			s.addType(name, "alias"+typeParams(m)+"="+t)
		default:
			return nil, fmt.Errorf("unrecognised type entry %v", m)
		}
	}
	return s, nil
}
