// Package ref holds the reference models (oracles). Nothing here imports yardl.
//
// binary.go: the compact binary format as published in docs/reference/binary.md (with the
// 8-bit integer correction D1 of DESIGN.md: (u)int8 occupy one raw byte).
package ref

import (
	"encoding/binary"
	"errors"
	"fmt"
	"math"

	"verif/harness/model"
	"verif/harness/value"
)

type Writer struct{ Buf []byte }

func (w *Writer) byte_(b byte) { w.Buf = append(w.Buf, b) }
func (w *Writer) uvarint(x uint64) {
	for x >= 0x80 {
		w.Buf = append(w.Buf, byte(x)|0x80)
		x >>= 7
	}
	w.Buf = append(w.Buf, byte(x))
}
func (w *Writer) svarint(x int64) { w.uvarint(uint64(x<<1) ^ uint64(x>>63)) }

func (w *Writer) signed(bits int, x int64) {
	if bits == 8 {
		w.byte_(byte(int8(x)))
		return
	}
	w.svarint(x)
}

func (w *Writer) unsigned(bits int, x uint64) {
	if bits == 8 {
		w.byte_(byte(x))
		return
	}
	w.uvarint(x)
}

func (w *Writer) float(bits int, f float64) {
	if bits == 32 {
		w.Buf = binary.LittleEndian.AppendUint32(w.Buf, math.Float32bits(float32(f)))
	} else {
		w.Buf = binary.LittleEndian.AppendUint64(w.Buf, math.Float64bits(f))
	}
}

// EncodeValue appends the encoding of v (of type t).
func EncodeValue(w *Writer, env *model.Env, t *model.Type, v *value.Value) {
	switch t.Kind {
	case model.KPrim:
		encodePrim(w, t.Prim, v)
	case model.KRef:
		d := env.Lookup(t.Ns, t.Name)
		switch d.Kind {
		case model.DAlias:
			EncodeValue(w, env, model.Subst(d.Type, model.Bind(d, t.Args)), v)
		case model.DRecord:
			for i, f := range env.RecordFields(t) {
				EncodeValue(w, env, f.Type, v.Items[i])
			}
		case model.DEnum, model.DFlags:
			base := d.EffectiveBase()
			if model.IsSignedInt(base) {
				w.signed(model.IntBits(base), v.I)
			} else {
				w.unsigned(model.IntBits(base), v.U)
			}
		}
	case model.KOptional:
		// "Unions are written as the 0-based index of the type followed by the value": an optional
		// is the union [null, T]; index 0 / 1 fit one byte either way
		w.byte_(byte(v.Case))
		if v.Case == 1 {
			EncodeValue(w, env, t.Elem, v.Items[0])
		}
	case model.KUnion:
		w.uvarint(uint64(v.Case))
		if t.Cases[v.Case] != nil {
			EncodeValue(w, env, t.Cases[v.Case], v.Items[0])
		}
	case model.KVector:
		if t.Len == nil {
			w.uvarint(uint64(len(v.Items)))
		}
		for _, x := range v.Items {
			EncodeValue(w, env, t.Elem, x)
		}
	case model.KArray:
		switch {
		case t.IsFixedArray():
		case t.HasDims:
			for _, s := range v.Shape {
				w.uvarint(s)
			}
		default:
			w.uvarint(uint64(len(v.Shape)))
			for _, s := range v.Shape {
				w.uvarint(s)
			}
		}
		for _, x := range v.Items {
			EncodeValue(w, env, t.Elem, x)
		}
	case model.KMap:
		w.uvarint(uint64(len(v.Keys)))
		for i, k := range v.Keys {
			EncodeValue(w, env, t.Key, k)
			EncodeValue(w, env, t.Elem, v.Items[i])
		}
	default:
		panic(fmt.Sprintf("EncodeValue: kind %d", t.Kind))
	}
}

func encodePrim(w *Writer, p string, v *value.Value) {
	switch p {
	case "bool":
		if v.B {
			w.byte_(1)
		} else {
			w.byte_(0)
		}
	case "int8", "int16", "int32", "int64":
		w.signed(model.IntBits(p), v.I)
	case "uint8", "uint16", "uint32", "uint64", "size":
		w.unsigned(model.IntBits(p), v.U)
	case "float32":
		w.float(32, v.F)
	case "float64":
		w.float(64, v.F)
	case "complexfloat32":
		w.float(32, v.Re())
		w.float(32, v.Im())
	case "complexfloat64":
		w.float(64, v.Re())
		w.float(64, v.Im())
	case "string":
		w.uvarint(uint64(len(v.S)))
		w.Buf = append(w.Buf, v.S...)
	case "date", "time", "datetime":
		w.svarint(v.I)
	default:
		panic("encodePrim " + p)
	}
}

var Magic = []byte("yardl")

// EncodeProtocol writes a complete stream: header (magic, LE int32 version 1, schema string)
// followed by the step values; stream steps use the block partition in StepValues.Blocks.
func EncodeProtocol(env *model.Env, proto *model.Def, schema string, steps []value.StepValues) []byte {
	w := &Writer{}
	w.Buf = append(w.Buf, Magic...)
	w.Buf = binary.LittleEndian.AppendUint32(w.Buf, 1)
	w.uvarint(uint64(len(schema)))
	w.Buf = append(w.Buf, schema...)
	EncodeSteps(w, env, proto, steps)
	return w.Buf
}

func EncodeSteps(w *Writer, env *model.Env, proto *model.Def, steps []value.StepValues) {
	for i, st := range proto.Fields {
		sv := steps[i]
		if st.Type.Kind == model.KStream {
			blocks := sv.Blocks
			if len(blocks) == 0 {
				for range sv.Items {
					blocks = append(blocks, 1)
				}
			}
			pos := 0
			for _, b := range blocks {
				w.uvarint(uint64(b))
				for j := 0; j < b; j++ {
					EncodeValue(w, env, st.Type.Elem, sv.Items[pos])
					pos++
				}
			}
			w.uvarint(0)
		} else {
			EncodeValue(w, env, st.Type, sv.Value)
		}
	}
}

// ---------------------------------------------------------------------------------------

type Reader struct {
	Buf []byte
	Pos int
}

var ErrShort = errors.New("unexpected end of data")

func (r *Reader) byte_() (byte, error) {
	if r.Pos >= len(r.Buf) {
		return 0, ErrShort
	}
	b := r.Buf[r.Pos]
	r.Pos++
	return b, nil
}

func (r *Reader) uvarint() (uint64, error) {
	var x uint64
	var s uint
	for i := 0; ; i++ {
		b, err := r.byte_()
		if err != nil {
			return 0, err
		}
		if i == 9 && b > 1 {
			return 0, errors.New("varint overflows 64 bits")
		}
		x |= uint64(b&0x7f) << s
		if b < 0x80 {
			return x, nil
		}
		s += 7
		if i >= 9 {
			return 0, errors.New("varint too long")
		}
	}
}

func (r *Reader) svarint() (int64, error) {
	u, err := r.uvarint()
	return int64(u>>1) ^ -int64(u&1), err
}

func (r *Reader) bytes(n uint64) ([]byte, error) {
	if uint64(len(r.Buf)-r.Pos) < n {
		return nil, ErrShort
	}
	b := r.Buf[r.Pos : r.Pos+int(n)]
	r.Pos += int(n)
	return b, nil
}

func (r *Reader) signed(bits int) (int64, error) {
	if bits == 8 {
		b, err := r.byte_()
		return int64(int8(b)), err
	}
	x, err := r.svarint()
	if err != nil {
		return 0, err
	}
	if bits < 64 && (x < -(int64(1)<<uint(bits-1)) || x > (int64(1)<<uint(bits-1))-1) {
		return 0, fmt.Errorf("value %d out of range for int%d", x, bits)
	}
	return x, nil
}

func (r *Reader) unsigned(bits int) (uint64, error) {
	if bits == 8 {
		b, err := r.byte_()
		return uint64(b), err
	}
	x, err := r.uvarint()
	if err != nil {
		return 0, err
	}
	if bits < 64 && x >= uint64(1)<<uint(bits) {
		return 0, fmt.Errorf("value %d out of range for uint%d", x, bits)
	}
	return x, nil
}

func (r *Reader) float(bits int) (float64, error) {
	if bits == 32 {
		b, err := r.bytes(4)
		if err != nil {
			return 0, err
		}
		return float64(math.Float32frombits(binary.LittleEndian.Uint32(b))), nil
	}
	b, err := r.bytes(8)
	if err != nil {
		return 0, err
	}
	return math.Float64frombits(binary.LittleEndian.Uint64(b)), nil
}

const maxLen = 1 << 28

func DecodeValue(r *Reader, env *model.Env, t *model.Type) (*value.Value, error) {
	switch t.Kind {
	case model.KPrim:
		return decodePrim(r, t.Prim)
	case model.KRef:
		d := env.Lookup(t.Ns, t.Name)
		switch d.Kind {
		case model.DAlias:
			return DecodeValue(r, env, model.Subst(d.Type, model.Bind(d, t.Args)))
		case model.DRecord:
			v := &value.Value{K: value.Record}
			for _, f := range env.RecordFields(t) {
				x, err := DecodeValue(r, env, f.Type)
				if err != nil {
					return nil, fmt.Errorf("%s.%s: %w", d.Name, f.Name, err)
				}
				v.Items = append(v.Items, x)
			}
			return v, nil
		case model.DEnum, model.DFlags:
			base := d.EffectiveBase()
			if model.IsSignedInt(base) {
				x, err := r.signed(model.IntBits(base))
				return &value.Value{K: value.Int, I: x}, err
			}
			x, err := r.unsigned(model.IntBits(base))
			return &value.Value{K: value.Uint, U: x}, err
		}
	case model.KOptional, model.KUnion:
		cases := value.UnionCases(t)
		idx, err := r.uvarint()
		if err != nil {
			return nil, err
		}
		if idx >= uint64(len(cases)) {
			return nil, fmt.Errorf("union index %d out of range (%d cases)", idx, len(cases))
		}
		v := &value.Value{K: value.Union, Case: int(idx)}
		if cases[idx] != nil {
			x, err := DecodeValue(r, env, cases[idx])
			if err != nil {
				return nil, err
			}
			v.Items = []*value.Value{x}
		}
		return v, nil
	case model.KVector:
		var n uint64
		if t.Len != nil {
			n = *t.Len
		} else {
			var err error
			if n, err = r.uvarint(); err != nil {
				return nil, err
			}
		}
		if n > maxLen {
			return nil, fmt.Errorf("vector length %d implausible", n)
		}
		v := &value.Value{K: value.Seq, Items: []*value.Value{}}
		for i := uint64(0); i < n; i++ {
			x, err := DecodeValue(r, env, t.Elem)
			if err != nil {
				return nil, err
			}
			v.Items = append(v.Items, x)
		}
		return v, nil
	case model.KArray:
		v := &value.Value{K: value.Array, Items: []*value.Value{}, Shape: []uint64{}}
		switch {
		case t.IsFixedArray():
			for _, d := range t.Dims {
				v.Shape = append(v.Shape, *d.Len)
			}
		default:
			nd := uint64(len(t.Dims))
			if !t.HasDims {
				var err error
				if nd, err = r.uvarint(); err != nil {
					return nil, err
				}
				if nd > 64 {
					return nil, fmt.Errorf("array rank %d implausible", nd)
				}
			}
			for i := uint64(0); i < nd; i++ {
				s, err := r.uvarint()
				if err != nil {
					return nil, err
				}
				v.Shape = append(v.Shape, s)
			}
		}
		total := uint64(1)
		for _, s := range v.Shape {
			total *= s
			if total > maxLen {
				return nil, fmt.Errorf("array size implausible")
			}
		}
		for i := uint64(0); i < total; i++ {
			x, err := DecodeValue(r, env, t.Elem)
			if err != nil {
				return nil, err
			}
			v.Items = append(v.Items, x)
		}
		return v, nil
	case model.KMap:
		n, err := r.uvarint()
		if err != nil {
			return nil, err
		}
		if n > maxLen {
			return nil, fmt.Errorf("map length %d implausible", n)
		}
		v := &value.Value{K: value.Map, Items: []*value.Value{}, Keys: []*value.Value{}}
		for i := uint64(0); i < n; i++ {
			k, err := DecodeValue(r, env, t.Key)
			if err != nil {
				return nil, err
			}
			x, err := DecodeValue(r, env, t.Elem)
			if err != nil {
				return nil, err
			}
			v.Keys = append(v.Keys, k)
			v.Items = append(v.Items, x)
		}
		return v, nil
	}
	return nil, fmt.Errorf("DecodeValue: kind %d", t.Kind)
}

func decodePrim(r *Reader, p string) (*value.Value, error) {
	switch p {
	case "bool":
		b, err := r.byte_()
		if err == nil && b > 1 {
			return nil, fmt.Errorf("bool byte %d", b)
		}
		return &value.Value{K: value.Bool, B: b == 1}, err
	case "int8", "int16", "int32", "int64":
		x, err := r.signed(model.IntBits(p))
		return &value.Value{K: value.Int, I: x}, err
	case "uint8", "uint16", "uint32", "uint64", "size":
		x, err := r.unsigned(model.IntBits(p))
		return &value.Value{K: value.Uint, U: x}, err
	case "float32":
		f, err := r.float(32)
		return value.NewFloat(f), err
	case "float64":
		f, err := r.float(64)
		return value.NewFloat(f), err
	case "complexfloat32":
		re, err := r.float(32)
		if err != nil {
			return nil, err
		}
		im, err := r.float(32)
		return value.NewComplex(re, im), err
	case "complexfloat64":
		re, err := r.float(64)
		if err != nil {
			return nil, err
		}
		im, err := r.float(64)
		return value.NewComplex(re, im), err
	case "string":
		n, err := r.uvarint()
		if err != nil {
			return nil, err
		}
		b, err := r.bytes(n)
		if err != nil {
			return nil, err
		}
		return &value.Value{K: value.String, S: string(b)}, nil
	case "date", "time", "datetime":
		x, err := r.svarint()
		return &value.Value{K: value.Int, I: x}, err
	}
	return nil, fmt.Errorf("decodePrim %s", p)
}

// Decoded is a parsed stream.
type Decoded struct {
	Schema string
	Steps  []value.StepValues
	// BlockSizes per stream step as found in the data.
	HeaderLen int
}

// DecodeProtocol parses a complete stream and demands that nothing follows the last step.
func DecodeProtocol(env *model.Env, proto *model.Def, data []byte) (*Decoded, error) {
	r := &Reader{Buf: data}
	m, err := r.bytes(5)
	if err != nil || string(m) != "yardl" {
		return nil, fmt.Errorf("bad magic %q", m)
	}
	vb, err := r.bytes(4)
	if err != nil {
		return nil, err
	}
	if binary.LittleEndian.Uint32(vb) != 1 {
		return nil, fmt.Errorf("format version %d", binary.LittleEndian.Uint32(vb))
	}
	n, err := r.uvarint()
	if err != nil {
		return nil, err
	}
	sb, err := r.bytes(n)
	if err != nil {
		return nil, fmt.Errorf("schema: %w", err)
	}
	out := &Decoded{Schema: string(sb), HeaderLen: r.Pos}
	for i, st := range proto.Fields {
		if st.Type.Kind == model.KStream {
			sv := value.StepValues{Stream: true, Items: []*value.Value{}}
			for {
				b, err := r.uvarint()
				if err != nil {
					return out, fmt.Errorf("step %d (%s) block header: %w", i, st.Name, err)
				}
				if b == 0 {
					break
				}
				if b > maxLen {
					return out, fmt.Errorf("step %d block length %d implausible", i, b)
				}
				sv.Blocks = append(sv.Blocks, int(b))
				for j := uint64(0); j < b; j++ {
					x, err := DecodeValue(r, env, st.Type.Elem)
					if err != nil {
						return out, fmt.Errorf("step %d (%s) item %d: %w", i, st.Name, len(sv.Items), err)
					}
					sv.Items = append(sv.Items, x)
				}
			}
			out.Steps = append(out.Steps, sv)
		} else {
			x, err := DecodeValue(r, env, st.Type)
			if err != nil {
				return out, fmt.Errorf("step %d (%s): %w", i, st.Name, err)
			}
			out.Steps = append(out.Steps, value.StepValues{Value: x})
		}
	}
	if r.Pos != len(data) {
		return out, fmt.Errorf("%d trailing bytes after the last step", len(data)-r.Pos)
	}
	return out, nil
}
