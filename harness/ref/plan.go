package ref

// plan.go: the serialization plan of a type - the composition of element encodings the schema
// prescribes - derived from the IR, and parsers that recover the plan each backend actually
// generated from the constructor expressions in generated Python (binary.py) and MATLAB
// (+binary/*.m) code. Used by C14.

import (
	"fmt"
	"strings"

	"verif/harness/model"
)

// Plan derives the canonical plan string of a type. Aliases are transparent; a reference to a
// record is record:<Name>(<plans of the type arguments>); type parameters are param:<T>.
func Plan(env *model.Env, t *model.Type) string { return plan(env, t, false) }

// JsonPlan is Plan with flags kept apart from enums (flags(prim:<base>)): the two are laid out
// identically in the binary format but map to different JSON forms.
func JsonPlan(env *model.Env, t *model.Type) string { return plan(env, t, true) }

func plan(env *model.Env, t *model.Type, js bool) string {
	if t == nil {
		return "null"
	}
	switch t.Kind {
	case model.KPrim:
		return "prim:" + t.Prim
	case model.KParam:
		return "param:" + t.Name
	case model.KRef:
		d := env.Lookup(t.Ns, t.Name)
		if d == nil {
			return "?"
		}
		switch d.Kind {
		case model.DAlias:
			return plan(env, model.Subst(d.Type, model.Bind(d, t.Args)), js)
		case model.DEnum, model.DFlags:
			if js {
				// the JSON form of an enum/flags value does not depend on size vs uint64
				b := d.EffectiveBase()
				if b == "size" {
					b = "uint64"
				}
				if d.Kind == model.DFlags {
					return "flags(prim:" + b + ")"
				}
				return "enum(prim:" + b + ")"
			}
			return "enum(prim:" + d.EffectiveBase() + ")"
		case model.DRecord:
			var as []string
			for _, a := range t.Args {
				as = append(as, plan(env, a, js))
			}
			return "record:" + d.Name + "(" + strings.Join(as, ",") + ")"
		}
	case model.KOptional:
		return "optional(" + plan(env, t.Elem, js) + ")"
	case model.KUnion:
		var cs []string
		for _, c := range t.Cases {
			cs = append(cs, plan(env, c, js))
		}
		return "union(" + strings.Join(cs, ",") + ")"
	case model.KVector:
		if t.Len != nil {
			return fmt.Sprintf("fixedvector(%s,%d)", plan(env, t.Elem, js), *t.Len)
		}
		return "vector(" + plan(env, t.Elem, js) + ")"
	case model.KArray:
		switch {
		case t.IsFixedArray():
			var ds []string
			for _, d := range t.Dims {
				ds = append(ds, fmt.Sprint(*d.Len))
			}
			return "fixedarray(" + plan(env, t.Elem, js) + ",[" + strings.Join(ds, " ") + "])"
		case t.HasDims:
			return fmt.Sprintf("ndarray(%s,%d)", plan(env, t.Elem, js), len(t.Dims))
		default:
			return "dynarray(" + plan(env, t.Elem, js) + ")"
		}
	case model.KMap:
		return "map(" + plan(env, t.Key, js) + "," + plan(env, t.Elem, js) + ")"
	case model.KStream:
		return "stream(" + plan(env, t.Elem, js) + ")"
	}
	return "?"
}

// ---------------------------------------------------------------------------------------
// expression parser shared by the Python and MATLAB extractors

type Expr struct {
	Name string  // identifier (dotted), string literal content, number, or "" for a bare group
	Kind string  // ident | str | num | list | call
	Args []*Expr // call arguments or list elements
}

type exprParser struct {
	s   string
	pos int
}

func (p *exprParser) ws() {
	for p.pos < len(p.s) && (p.s[p.pos] == ' ' || p.s[p.pos] == '\t' || p.s[p.pos] == '\n') {
		p.pos++
	}
}

func isIdent(c byte) bool {
	return c == '_' || c == '.' || c == '@' || (c >= 'a' && c <= 'z') || (c >= 'A' && c <= 'Z') || (c >= '0' && c <= '9')
}

func (p *exprParser) parse() (*Expr, error) {
	p.ws()
	if p.pos >= len(p.s) {
		return nil, fmt.Errorf("unexpected end")
	}
	c := p.s[p.pos]
	switch {
	case c == '\'' || c == '"':
		end := strings.IndexByte(p.s[p.pos+1:], c)
		if end < 0 {
			return nil, fmt.Errorf("unterminated string")
		}
		e := &Expr{Kind: "str", Name: p.s[p.pos+1 : p.pos+1+end]}
		p.pos += end + 2
		return e, nil
	case c == '(' || c == '[' || c == '{':
		closer := map[byte]byte{'(': ')', '[': ']', '{': '}'}[c]
		p.pos++
		e := &Expr{Kind: "list"}
		for {
			p.ws()
			if p.pos >= len(p.s) {
				return nil, fmt.Errorf("unterminated group")
			}
			if p.s[p.pos] == closer {
				p.pos++
				return e, nil
			}
			if p.s[p.pos] == ',' {
				p.pos++
				continue
			}
			a, err := p.parse()
			if err != nil {
				return nil, err
			}
			e.Args = append(e.Args, a)
		}
	case isIdent(c) || c == '-':
		start := p.pos
		p.pos++
		var nameB strings.Builder
		nameB.WriteByte(c)
		numeric := (c >= '0' && c <= '9') || c == '-'
		for p.pos < len(p.s) {
			ch := p.s[p.pos]
			if isIdent(ch) {
				nameB.WriteByte(ch)
				p.pos++
				continue
			}
			if ch == '[' && !numeric {
				// generic subscripts such as Int32OrT[T].Int32 or RecordSerializer[G[T]] are skipped
				depth := 0
				for p.pos < len(p.s) {
					if p.s[p.pos] == '[' {
						depth++
					}
					if p.s[p.pos] == ']' {
						depth--
						if depth == 0 {
							p.pos++
							break
						}
					}
					p.pos++
				}
				continue
			}
			break
		}
		_ = start
		name := nameB.String()
		kind := "ident"
		if numeric {
			kind = "num"
		}
		e := &Expr{Kind: kind, Name: name}
		if p.pos < len(p.s) && p.s[p.pos] == '(' && kind == "ident" {
			args, err := p.parse()
			if err != nil {
				return nil, err
			}
			e.Kind = "call"
			e.Args = args.Args
		}
		return e, nil
	}
	return nil, fmt.Errorf("unexpected %q at %d in %q", c, p.pos, trunc(p.s, 120))
}

func trunc(s string, n int) string {
	if len(s) > n {
		return s[:n] + "…"
	}
	return s
}

func ParseExpr(s string) (*Expr, error) {
	p := &exprParser{s: s}
	return p.parse()
}

var primOf = map[string]string{
	"bool": "bool", "int8": "int8", "uint8": "uint8", "int16": "int16", "uint16": "uint16", "int32": "int32", "uint32": "uint32", "int64": "int64", "uint64": "uint64",
	"size": "size", "float32": "float32", "float64": "float64", "complexfloat32": "complexfloat32", "complexfloat64": "complexfloat64", "string": "string", "date": "date",
	"time": "time", "datetime": "datetime",
}

func lastSeg(name string) string {
	if i := strings.LastIndexByte(name, '.'); i >= 0 {
		return name[i+1:]
	}
	return name
}

// ErrUnknown marks a constructor the table does not know (skipped by the check, not alarmed).
type ErrUnknown struct{ Name string }

func (e *ErrUnknown) Error() string { return "unrecognised constructor " + e.Name }

// PyPlan converts a Python _binary constructor expression into a plan string.
func PyPlan(e *Expr) (string, error) {
	seg := lastSeg(e.Name)
	if e.Kind == "ident" {
		if strings.HasSuffix(seg, "_serializer") {
			base := strings.TrimSuffix(seg, "_serializer")
			if p, ok := primOf[base]; ok {
				return "prim:" + p, nil
			}
			// a serializer passed into a generic record serializer: t_serializer
			return "param:" + strings.ToUpper(base), nil
		}
		if seg == "None" {
			return "null", nil
		}
		return "", &ErrUnknown{e.Name}
	}
	if e.Kind != "call" {
		return "", &ErrUnknown{e.Kind + ":" + e.Name}
	}
	arg := func(i int) (string, error) {
		if i >= len(e.Args) {
			return "", fmt.Errorf("%s: missing argument %d", e.Name, i)
		}
		return PyPlan(e.Args[i])
	}
	switch seg {
	case "OptionalSerializer", "VectorSerializer", "DynamicNDArraySerializer", "StreamSerializer":
		a, err := arg(0)
		if err != nil {
			return "", err
		}
		return map[string]string{"OptionalSerializer": "optional", "VectorSerializer": "vector", "DynamicNDArraySerializer": "dynarray", "StreamSerializer": "stream"}[seg] + "(" + a + ")", nil
	case "FixedVectorSerializer", "NDArraySerializer":
		a, err := arg(0)
		if err != nil || len(e.Args) < 2 {
			return "", fmt.Errorf("%s: bad arguments (%v)", seg, err)
		}
		if seg == "FixedVectorSerializer" {
			return fmt.Sprintf("fixedvector(%s,%s)", a, e.Args[1].Name), nil
		}
		return fmt.Sprintf("ndarray(%s,%s)", a, e.Args[1].Name), nil
	case "FixedNDArraySerializer":
		a, err := arg(0)
		if err != nil || len(e.Args) < 2 {
			return "", fmt.Errorf("%s: bad arguments (%v)", seg, err)
		}
		var ds []string
		for _, d := range e.Args[1].Args {
			ds = append(ds, d.Name)
		}
		return "fixedarray(" + a + ",[" + strings.Join(ds, " ") + "])", nil
	case "MapSerializer":
		k, err := arg(0)
		if err != nil {
			return "", err
		}
		v, err := arg(1)
		if err != nil {
			return "", err
		}
		return "map(" + k + "," + v + ")", nil
	case "EnumSerializer":
		b, err := arg(0)
		if err != nil {
			return "", err
		}
		return "enum(" + b + ")", nil
	case "UnionSerializer":
		if len(e.Args) < 2 {
			return "", fmt.Errorf("UnionSerializer: bad arguments")
		}
		var cs []string
		for _, c := range e.Args[1].Args {
			if c.Kind == "ident" && lastSeg(c.Name) == "None" {
				cs = append(cs, "null")
				continue
			}
			if c.Kind != "list" || len(c.Args) != 2 {
				return "", fmt.Errorf("UnionSerializer: unexpected case form")
			}
			p, err := PyPlan(c.Args[1])
			if err != nil {
				return "", err
			}
			cs = append(cs, p)
		}
		return "union(" + strings.Join(cs, ",") + ")", nil
	}
	if strings.HasSuffix(seg, "Serializer") {
		var as []string
		for _, a := range e.Args {
			p, err := PyPlan(a)
			if err != nil {
				return "", err
			}
			as = append(as, p)
		}
		return "record:" + strings.TrimSuffix(seg, "Serializer") + "(" + strings.Join(as, ",") + ")", nil
	}
	return "", &ErrUnknown{e.Name}
}

var matlabPrim = map[string]string{
	"BoolSerializer": "bool", "Int8Serializer": "int8", "Uint8Serializer": "uint8", "Int16Serializer": "int16", "Uint16Serializer": "uint16", "Int32Serializer": "int32",
	"Uint32Serializer": "uint32", "Int64Serializer": "int64", "Uint64Serializer": "uint64", "SizeSerializer": "size", "Float32Serializer": "float32", "Float64Serializer": "float64",
	"Complexfloat32Serializer": "complexfloat32", "Complexfloat64Serializer": "complexfloat64", "StringSerializer": "string", "DateSerializer": "date", "TimeSerializer": "time",
	"DatetimeSerializer": "datetime",
}

// MatlabPlan converts a MATLAB yardl.binary constructor expression into a plan string.
// MATLAB arrays are column-major, so the generated fixed shapes are reversed; this is undone.
func MatlabPlan(e *Expr) (string, error) {
	seg := lastSeg(e.Name)
	if e.Kind == "ident" || (e.Kind == "call" && len(e.Args) == 0 && strings.HasPrefix(e.Name, "yardl.binary.")) {
		if p, ok := matlabPrim[seg]; ok {
			return "prim:" + p, nil
		}
		if seg == "NoneSerializer" {
			return "null", nil
		}
		if strings.HasSuffix(seg, "_serializer") {
			return "param:" + strings.ToUpper(strings.TrimSuffix(seg, "_serializer")), nil
		}
		if e.Kind == "ident" {
			return "", &ErrUnknown{e.Name}
		}
	}
	if e.Kind != "call" {
		return "", &ErrUnknown{e.Kind + ":" + e.Name}
	}
	arg := func(i int) (string, error) {
		if i >= len(e.Args) {
			return "", fmt.Errorf("%s: missing argument %d", e.Name, i)
		}
		return MatlabPlan(e.Args[i])
	}
	if strings.HasPrefix(e.Name, "yardl.binary.") {
		switch seg {
		case "OptionalSerializer", "VectorSerializer", "DynamicNDArraySerializer", "StreamSerializer":
			a, err := arg(0)
			if err != nil {
				return "", err
			}
			return map[string]string{"OptionalSerializer": "optional", "VectorSerializer": "vector", "DynamicNDArraySerializer": "dynarray", "StreamSerializer": "stream"}[seg] + "(" + a + ")", nil
		case "FixedVectorSerializer", "NDArraySerializer":
			a, err := arg(0)
			if err != nil || len(e.Args) < 2 {
				return "", fmt.Errorf("%s: bad arguments (%v)", seg, err)
			}
			if seg == "FixedVectorSerializer" {
				return fmt.Sprintf("fixedvector(%s,%s)", a, e.Args[1].Name), nil
			}
			return fmt.Sprintf("ndarray(%s,%s)", a, e.Args[1].Name), nil
		case "FixedNDArraySerializer":
			a, err := arg(0)
			if err != nil || len(e.Args) < 2 {
				return "", fmt.Errorf("%s: bad arguments (%v)", seg, err)
			}
			var ds []string
			for _, d := range e.Args[1].Args {
				ds = append([]string{d.Name}, ds...) // reversed back to row-major order
			}
			return "fixedarray(" + a + ",[" + strings.Join(ds, " ") + "])", nil
		case "MapSerializer":
			k, err := arg(0)
			if err != nil {
				return "", err
			}
			v, err := arg(1)
			if err != nil {
				return "", err
			}
			return "map(" + k + "," + v + ")", nil
		case "EnumSerializer":
			if len(e.Args) < 3 {
				return "", fmt.Errorf("EnumSerializer: bad arguments")
			}
			b, err := MatlabPlan(e.Args[2])
			if err != nil {
				return "", err
			}
			return "enum(" + b + ")", nil
		case "UnionSerializer":
			if len(e.Args) < 2 {
				return "", fmt.Errorf("UnionSerializer: bad arguments")
			}
			var cs []string
			for _, c := range e.Args[1].Args {
				p, err := MatlabPlan(c)
				if err != nil {
					return "", err
				}
				cs = append(cs, p)
			}
			return "union(" + strings.Join(cs, ",") + ")", nil
		}
		return "", &ErrUnknown{e.Name}
	}
	if strings.HasSuffix(seg, "Serializer") {
		var as []string
		for _, a := range e.Args {
			p, err := MatlabPlan(a)
			if err != nil {
				return "", err
			}
			as = append(as, p)
		}
		return "record:" + strings.TrimSuffix(seg, "Serializer") + "(" + strings.Join(as, ",") + ")", nil
	}
	return "", &ErrUnknown{e.Name}
}
