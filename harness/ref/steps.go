package ref

// steps.go: reference step automata of a protocol for the generated reader/writer APIs (C07).
// A protocol shape is the list of "is stream" flags. Every operation gets one of three verdicts:
// Accept, Reject (the generated code must raise), Unspecified (corner the documents leave open).

type Verdict int

const (
	Accept Verdict = iota
	Reject
	Unspecified
)

func (v Verdict) String() string { return [...]string{"accept", "reject", "unspecified"}[v] }

// Op is one API call.
//
//	writer: W (write one value to step), B (write a batch of N to a stream step), E (end stream,
//	        C++ only), C (close)
//	reader: R (read step; C++ stream: read one item; Python stream: obtain the iterable),
//	        B (C++: batch read with capacity N), I (Python: pull up to N items from the current
//	        iterable; N<0 = exhaust it), C (close)
type Op struct {
	Kind string `json:"kind"`
	Step int    `json:"step"`
	N    int    `json:"n,omitempty"`
}

// Outcome of a reader op: the items it must deliver, and for C++ stream reads the boolean result.
type Outcome struct {
	V      Verdict
	Items  []int // values delivered (non-stream: one value)
	Result bool  // C++ stream read: the bool returned (when V == Accept)
}

func StepValue(step int) int     { return 100 + step }
func StreamItem(step, j int) int { return 1000*(step+1) + j }

// ---- writers ----------------------------------------------------------------------------

type CppWriter struct {
	Shape []bool
	i     int
}

func (a *CppWriter) Do(op Op) Verdict {
	n := len(a.Shape)
	switch op.Kind {
	case "C":
		if a.i == n {
			return Accept
		}
		return Reject
	case "W", "B":
		if op.Step != a.i || a.i >= n {
			return Reject
		}
		if op.Kind == "B" && !a.Shape[a.i] {
			return Reject
		}
		if !a.Shape[a.i] {
			a.i++
		}
		return Accept
	case "E":
		if op.Step != a.i || a.i >= n || !a.Shape[a.i] {
			return Reject
		}
		a.i++
		return Accept
	}
	return Reject
}

type PyWriter struct {
	Shape   []bool
	i       int
	started bool
}

func (a *PyWriter) Do(op Op) Verdict {
	n := len(a.Shape)
	switch op.Kind {
	case "C":
		if a.i == n || (a.i == n-1 && a.Shape[a.i] && a.started) {
			return Accept
		}
		return Reject
	case "W", "B":
		k := op.Step
		if a.i < n && k == a.i+1 && a.Shape[a.i] {
			if !a.started {
				// a stream step that never received a call: "any number of times" includes zero, but
				// the Python API has no explicit end call - left open
				return Unspecified
			}
			a.i++
			a.started = false
		}
		if k != a.i || a.i >= n {
			return Reject
		}
		if a.Shape[a.i] {
			a.started = true
		} else {
			a.i++
		}
		return Accept
	}
	return Reject
}

// ---- readers ----------------------------------------------------------------------------

// CppReader models ReadX(value) / ReadX(vector) / Close of the C++ abstract reader fed by a
// scripted source (Counts[k] items in stream k).
type CppReader struct {
	Shape  []bool
	Counts []int
	i      int
	pos    int  // items of the current stream already delivered
	implEO bool // the implementation has seen the end of the current stream, the caller not yet
	// batchEnded: step whose end was reported by a batch read that delivered nothing; one more read
	// of that step is tolerated by the generated code (it answers false again) - not judged
	batchEnded int
}

func (a *CppReader) advance() {
	a.i++
	a.pos = 0
	a.implEO = false
}

func (a *CppReader) Do(op Op) Outcome {
	n := len(a.Shape)
	switch op.Kind {
	case "C":
		if a.i == n {
			return Outcome{V: Accept}
		}
		if a.i == n-1 && a.Shape[a.i] && (a.implEO || a.pos == a.Counts[a.i]) {
			// every item was delivered but the caller has not been told "false" yet
			return Outcome{V: Unspecified}
		}
		return Outcome{V: Reject}
	case "R", "B":
		k := op.Step
		if a.batchEnded > 0 && k == a.batchEnded-1 && k == a.i-1 {
			return Outcome{V: Unspecified}
		}
		a.batchEnded = 0
		if a.i < n && k == a.i+1 && a.Shape[a.i] {
			switch {
			case a.implEO:
				a.advance() // documented by the generated code: exhaustion observed by the implementation
			case a.pos == a.Counts[a.i]:
				return Outcome{V: Unspecified} // all items delivered, end not observed by anyone
			}
		}
		if k != a.i || a.i >= n {
			return Outcome{V: Reject}
		}
		if !a.Shape[k] {
			if op.Kind == "B" {
				return Outcome{V: Reject}
			}
			a.advance()
			return Outcome{V: Accept, Items: []int{StepValue(k)}}
		}
		if a.implEO {
			a.advance()
			return Outcome{V: Accept, Result: false}
		}
		left := a.Counts[k] - a.pos
		if op.Kind == "R" {
			if left == 0 {
				a.advance()
				return Outcome{V: Accept, Result: false}
			}
			it := StreamItem(k, a.pos)
			a.pos++
			return Outcome{V: Accept, Result: true, Items: []int{it}}
		}
		capN := op.N
		if capN < 1 {
			return Outcome{V: Unspecified} // zero capacity is rejected by the generated code as an argument error
		}
		take := left
		if take > capN {
			take = capN
		}
		var items []int
		for j := 0; j < take; j++ {
			items = append(items, StreamItem(k, a.pos+j))
		}
		a.pos += take
		if take == capN {
			return Outcome{V: Accept, Result: true, Items: items}
		}
		// fewer than the capacity: the source is exhausted
		if take == 0 {
			a.advance()
			a.batchEnded = k + 1
			return Outcome{V: Accept, Result: false}
		}
		a.implEO = true
		return Outcome{V: Accept, Result: true, Items: items}
	}
	return Outcome{V: Reject}
}

// PyReader models read_x() / iteration / close of the Python abstract reader.
type PyReader struct {
	Shape     []bool
	Counts    []int
	i         int
	iterating bool // an iterable of stream i has been handed out and is not exhausted
	pos       int
}

func (a *PyReader) Do(op Op) Outcome {
	n := len(a.Shape)
	switch op.Kind {
	case "C":
		if a.i == n && !a.iterating {
			return Outcome{V: Accept}
		}
		return Outcome{V: Reject}
	case "R":
		if a.iterating || op.Step != a.i || a.i >= n {
			return Outcome{V: Reject}
		}
		if !a.Shape[a.i] {
			v := StepValue(a.i)
			a.i++
			return Outcome{V: Accept, Items: []int{v}}
		}
		a.iterating = true
		a.pos = 0
		return Outcome{V: Accept}
	case "X":
		// the consumer drops the iterable (break out of the loop): nothing is consumed and the
		// stream stays open, so every later call is out of order
		if !a.iterating {
			return Outcome{V: Unspecified}
		}
		return Outcome{V: Accept}
	case "I":
		if !a.iterating {
			return Outcome{V: Unspecified} // the driver never issues this
		}
		left := a.Counts[a.i] - a.pos
		take := op.N
		exhaust := op.N < 0 || op.N > left
		if exhaust {
			take = left
		}
		var items []int
		for j := 0; j < take; j++ {
			items = append(items, StreamItem(a.i, a.pos+j))
		}
		a.pos += take
		if exhaust {
			a.iterating = false
			a.i++
		}
		return Outcome{V: Accept, Items: items, Result: exhaust}
	}
	return Outcome{V: Reject}
}
