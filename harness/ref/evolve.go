package ref

// evolve.go: the documented conversion of a value between two versions of a model
// (docs/cpp/evolution.md), three-valued: exactly this value / a runtime error is required /
// the document does not say. Used by C05.

import (
	"fmt"
	"math"
	"strconv"

	"verif/harness/model"
	"verif/harness/value"
)

type EvoStatus int

const (
	Exactly EvoStatus = iota
	MustError
	Unspec
)

type EvoResult struct {
	S   EvoStatus
	V   *value.Value
	Why string
}

func exactly(v *value.Value) EvoResult { return EvoResult{S: Exactly, V: v} }
func unspec(why string) EvoResult      { return EvoResult{S: Unspec, Why: why} }
func mustError(why string) EvoResult   { return EvoResult{S: MustError, Why: why} }

// Zero is the documented "zero value" of a type: 0, "", empty vector, null optional/union...
func Zero(env *model.Env, t *model.Type) (*value.Value, bool) {
	switch t.Kind {
	case model.KPrim:
		switch t.Prim {
		case "bool":
			return &value.Value{K: value.Bool}, true
		case "string":
			return &value.Value{K: value.String}, true
		case "float32", "float64":
			return value.NewFloat(0), true
		case "complexfloat32", "complexfloat64":
			return value.NewComplex(0, 0), true
		case "uint8", "uint16", "uint32", "uint64", "size":
			return &value.Value{K: value.Uint}, true
		default:
			return &value.Value{K: value.Int}, true
		}
	case model.KOptional:
		return &value.Value{K: value.Union, Case: 0}, true
	case model.KUnion:
		if t.HasNull() {
			return &value.Value{K: value.Union, Case: 0}, true
		}
		return nil, false // which case a null-less union defaults to is not documented
	case model.KVector:
		if t.Len != nil {
			v := &value.Value{K: value.Seq, Items: []*value.Value{}}
			for i := uint64(0); i < *t.Len; i++ {
				z, ok := Zero(env, t.Elem)
				if !ok {
					return nil, false
				}
				v.Items = append(v.Items, z)
			}
			return v, true
		}
		return &value.Value{K: value.Seq, Items: []*value.Value{}}, true
	case model.KMap:
		return &value.Value{K: value.Map, Items: []*value.Value{}, Keys: []*value.Value{}}, true
	case model.KRef:
		d := env.Lookup(t.Ns, t.Name)
		if d == nil {
			return nil, false
		}
		switch d.Kind {
		case model.DAlias:
			return Zero(env, model.Subst(d.Type, model.Bind(d, t.Args)))
		case model.DRecord:
			v := &value.Value{K: value.Record}
			for _, f := range env.RecordFields(t) {
				z, ok := Zero(env, f.Type)
				if !ok {
					return nil, false
				}
				v.Items = append(v.Items, z)
			}
			return v, true
		case model.DEnum, model.DFlags:
			if model.IsSignedInt(d.EffectiveBase()) {
				return &value.Value{K: value.Int}, true
			}
			return &value.Value{K: value.Uint}, true
		}
	}
	return nil, false // arrays: the default shape is not documented
}

func primClass(p string) string {
	switch p {
	case "int8", "int16", "int32", "int64":
		return "int"
	case "uint8", "uint16", "uint32", "uint64", "size":
		return "uint"
	case "float32", "float64":
		return "float"
	}
	return p
}

func fitsPrim(p string, isInt bool, i int64, u uint64) bool {
	bits := model.IntBits(p)
	if model.IsSignedInt(p) {
		if !isInt {
			return u <= uint64(math.MaxInt64) && (bits == 64 || u < uint64(1)<<uint(bits-1))
		}
		if bits == 64 {
			return true
		}
		return i >= -(int64(1)<<uint(bits-1)) && i <= (int64(1)<<uint(bits-1))-1
	}
	if isInt {
		if i < 0 {
			return false
		}
		u = uint64(i)
	}
	return bits == 64 || u < uint64(1)<<uint(bits)
}

func convertPrim(from, to string, v *value.Value) EvoResult {
	if from == to || (primClass(from) == "uint" && primClass(to) == "uint" && model.IntBits(from) == model.IntBits(to)) {
		return exactly(v)
	}
	cf, ct := primClass(from), primClass(to)
	switch {
	case (cf == "int" || cf == "uint") && (ct == "int" || ct == "uint"):
		isInt := cf == "int"
		if !fitsPrim(to, isInt, v.I, v.U) {
			return mustError("numeric overflow converting " + from + " to " + to)
		}
		if ct == "int" {
			if isInt {
				return exactly(&value.Value{K: value.Int, I: v.I})
			}
			return exactly(&value.Value{K: value.Int, I: int64(v.U)})
		}
		if isInt {
			return exactly(&value.Value{K: value.Uint, U: uint64(v.I)})
		}
		return exactly(&value.Value{K: value.Uint, U: v.U})
	case (cf == "int" || cf == "uint") && ct == "float":
		var f float64
		if cf == "int" {
			f = float64(v.I)
			if int64(f) != v.I {
				return unspec("integer not exactly representable as a float")
			}
		} else {
			f = float64(v.U)
			if f >= 1<<63 || uint64(f) != v.U {
				return unspec("integer not exactly representable as a float")
			}
		}
		if to == "float32" && float64(float32(f)) != f {
			return unspec("integer not exactly representable as float32")
		}
		return exactly(value.NewFloat(f))
	case cf == "float" && (ct == "int" || ct == "uint"):
		f := v.F
		if math.IsNaN(f) || math.IsInf(f, 0) {
			return unspec("NaN/inf to integer")
		}
		if f != math.Trunc(f) {
			return unspec("\"may round\": rounding of non-integral values is not pinned down")
		}
		if math.Abs(f) >= 1<<62 {
			return unspec("near the edge of the integer range")
		}
		if !fitsPrim(to, true, int64(f), 0) {
			return unspec("float out of the integer range: overflow handling of float->int is not documented")
		}
		if ct == "int" {
			return exactly(&value.Value{K: value.Int, I: int64(f)})
		}
		return exactly(&value.Value{K: value.Uint, U: uint64(f)})
	case cf == "float" && ct == "float":
		if to == "float32" && float64(float32(v.F)) != v.F && !math.IsNaN(v.F) {
			return unspec("loss of precision float64 -> float32")
		}
		return exactly(value.NewFloat(v.F))
	case (cf == "int" || cf == "uint") && to == "string":
		if cf == "int" {
			return exactly(&value.Value{K: value.String, S: strconv.FormatInt(v.I, 10)})
		}
		return exactly(&value.Value{K: value.String, S: strconv.FormatUint(v.U, 10)})
	case cf == "float" && to == "string":
		return unspec("the text of a float is delegated to the standard library")
	case from == "string" && (ct == "int" || ct == "uint"):
		if ct == "int" {
			n, err := strconv.ParseInt(v.S, 10, 64)
			if err != nil || strconv.FormatInt(n, 10) != v.S {
				if isPlainNonNumeric(v.S) {
					return mustError("string is not a number")
				}
				return unspec("non-canonical numeric text")
			}
			if !fitsPrim(to, true, n, 0) {
				return unspec("numeric text out of range")
			}
			return exactly(&value.Value{K: value.Int, I: n})
		}
		n, err := strconv.ParseUint(v.S, 10, 64)
		if err != nil || strconv.FormatUint(n, 10) != v.S {
			if isPlainNonNumeric(v.S) {
				return mustError("string is not a number")
			}
			return unspec("non-canonical numeric text")
		}
		if !fitsPrim(to, false, 0, n) {
			return unspec("numeric text out of range")
		}
		return exactly(&value.Value{K: value.Uint, U: n})
	case from == "string" && ct == "float":
		if isPlainNonNumeric(v.S) {
			return mustError("string is not a number")
		}
		return unspec("parsing of float text is delegated to the standard library")
	}
	return unspec("conversion " + from + " -> " + to + " is not documented")
}

// isPlainNonNumeric: text no number parser would accept even partially (no leading digit, sign,
// dot, whitespace, "inf"/"nan" prefix).
func isPlainNonNumeric(s string) bool {
	if s == "" {
		return true
	}
	c := s[0]
	if (c >= '0' && c <= '9') || c == '-' || c == '+' || c == '.' || c == ' ' || c == '\t' || c == '\n' {
		return false
	}
	l := s
	if len(l) > 3 {
		l = l[:3]
	}
	switch l {
	case "inf", "Inf", "INF", "nan", "NaN", "NAN":
		return false
	}
	return true
}

// Evolve converts v of type tf (in model envF) to type tt (in model envT).
func Evolve(envF *model.Env, tf *model.Type, envT *model.Env, tt *model.Type, v *value.Value) EvoResult {
	uf, ut := envF.Underlying(tf), envT.Underlying(tt)
	switch {
	case uf.Kind == model.KPrim && ut.Kind == model.KPrim:
		return convertPrim(uf.Prim, ut.Prim, v)
	case uf.Kind == model.KRef && ut.Kind == model.KRef:
		df, dt := envF.Lookup(uf.Ns, uf.Name), envT.Lookup(ut.Ns, ut.Name)
		if df == nil || dt == nil || df.Kind != dt.Kind {
			return unspec("different kinds of named types")
		}
		if df.Kind == model.DEnum || df.Kind == model.DFlags {
			return exactly(v)
		}
		if df.Kind != model.DRecord {
			return unspec("unexpected named type")
		}
		ff, ft := envF.RecordFields(uf), envT.RecordFields(ut)
		out := &value.Value{K: value.Record}
		for _, nf := range ft {
			found := false
			for i, of := range ff {
				if of.Name == nf.Name {
					found = true
					r := Evolve(envF, of.Type, envT, nf.Type, v.Items[i])
					if r.S != Exactly {
						return r
					}
					out.Items = append(out.Items, r.V)
				}
			}
			if !found {
				// added field: "yardl defaults to the zero value"
				z, ok := Zero(envT, nf.Type)
				if !ok {
					return unspec("zero value of the added field's type is not documented")
				}
				out.Items = append(out.Items, z)
			}
		}
		return exactly(out)
	case uf.Kind == model.KOptional && ut.Kind == model.KOptional:
		if v.Case == 0 {
			return exactly(v)
		}
		r := Evolve(envF, uf.Elem, envT, ut.Elem, v.Items[0])
		if r.S != Exactly {
			return r
		}
		return exactly(&value.Value{K: value.Union, Case: 1, Items: []*value.Value{r.V}})
	case uf.Kind != model.KOptional && uf.Kind != model.KUnion && ut.Kind == model.KOptional:
		// T -> T?
		r := Evolve(envF, uf, envT, ut.Elem, v)
		if r.S != Exactly {
			return r
		}
		return exactly(&value.Value{K: value.Union, Case: 1, Items: []*value.Value{r.V}})
	case uf.Kind == model.KOptional && ut.Kind != model.KOptional && ut.Kind != model.KUnion:
		// T? -> T: "default zero value" when absent
		if v.Case == 0 {
			if envF.Canon(envF.Underlying(uf.Elem)) != envT.Canon(ut) || !sameDefs(envF, uf.Elem, envT, ut) {
				// the document does not say whether the zero value is taken before or after a
				// further conversion of the payload ("" does not parse as a number, for instance)
				return unspec("zero value combined with a further conversion")
			}
			z, ok := Zero(envT, ut)
			if !ok {
				return unspec("zero value not documented for this type")
			}
			return exactly(z)
		}
		return Evolve(envF, uf.Elem, envT, ut, v.Items[0])
	case (uf.Kind == model.KOptional || uf.Kind == model.KUnion) && (ut.Kind == model.KOptional || ut.Kind == model.KUnion):
		cf, ct := value.UnionCases(uf), value.UnionCases(ut)
		c := cf[v.Case]
		if c == nil {
			if ct[0] == nil {
				return exactly(&value.Value{K: value.Union, Case: 0})
			}
			return unspec("null into a union without null")
		}
		for j, x := range ct {
			// the same case: equal after alias resolution in either model (a type renamed through
			// an alias keeps its old name as an alias in the newer model)
			if x != nil && ((resolvable(envT, c) && envT.Canon(c) == envT.Canon(x)) || (resolvable(envF, x) && envF.Canon(c) == envF.Canon(x))) {
				r := Evolve(envF, c, envT, x, v.Items[0])
				if r.S != Exactly {
					return r
				}
				return exactly(&value.Value{K: value.Union, Case: j, Items: []*value.Value{r.V}})
			}
		}
		return mustError("union case " + envF.Canon(c) + " does not exist in the other version")
	case uf.Kind == model.KVector && ut.Kind == model.KVector:
		out := &value.Value{K: value.Seq, Items: []*value.Value{}}
		for _, x := range v.Items {
			r := Evolve(envF, uf.Elem, envT, ut.Elem, x)
			if r.S != Exactly {
				return r
			}
			out.Items = append(out.Items, r.V)
		}
		return exactly(out)
	}
	if envF.Canon(uf) == envT.Canon(ut) && sameDefs(envF, uf, envT, ut) {
		return exactly(v)
	}
	return unspec(fmt.Sprintf("conversion between %s and %s is not documented", envF.Canon(uf), envT.Canon(ut)))
}

// resolvable: every named type mentioned in t exists in env.
func resolvable(env *model.Env, t *model.Type) bool {
	ok := true
	model.Walk(t, func(x *model.Type) {
		if x.Kind == model.KRef && env.Lookup(x.Ns, x.Name) == nil {
			ok = false
		}
	})
	return ok
}

// sameDefs: every named type reachable from the type (transitively, through aliases, record
// fields and type arguments) has the same definition in both models.
func sameDefs(envF *model.Env, tf *model.Type, envT *model.Env, tt *model.Type) bool {
	same := true
	seen := map[string]bool{}
	var visitT func(t *model.Type)
	visitT = func(t *model.Type) {
		model.Walk(t, func(x *model.Type) {
			if x.Kind != model.KRef {
				return
			}
			k := x.Ns + "." + x.Name
			if seen[k] {
				return
			}
			seen[k] = true
			df, dt := envF.Lookup(x.Ns, x.Name), envT.Lookup(x.Ns, x.Name)
			if df == nil || dt == nil || canonDef(df) != canonDef(dt) {
				same = false
				return
			}
			model.DefTypes(df, visitT)
		})
	}
	visitT(tf)
	return same
}

// EvolveSteps converts the values of a whole protocol run. Steps are matched by name; a step
// that exists only in the target version gets its zero value (empty stream / empty vector /
// null), a step that exists only in the source version is dropped.
func EvolveSteps(envF *model.Env, pf *model.Def, envT *model.Env, pt *model.Def, steps []value.StepValues) ([]value.StepValues, EvoStatus, string) {
	var out []value.StepValues
	for _, st := range pt.Fields {
		idx := -1
		for i, sf := range pf.Fields {
			if sf.Name == st.Name {
				idx = i
			}
		}
		if idx < 0 {
			if st.Type.Kind == model.KStream {
				out = append(out, value.StepValues{Stream: true, Items: []*value.Value{}})
				continue
			}
			z, ok := Zero(envT, st.Type)
			if !ok {
				return nil, Unspec, "zero value of an added step"
			}
			out = append(out, value.StepValues{Value: z})
			continue
		}
		sf := pf.Fields[idx]
		if (sf.Type.Kind == model.KStream) != (st.Type.Kind == model.KStream) {
			return nil, Unspec, "stream-ness of a step changed"
		}
		if st.Type.Kind == model.KStream {
			sv := value.StepValues{Stream: true, Items: []*value.Value{}}
			for _, it := range steps[idx].Items {
				r := Evolve(envF, sf.Type.Elem, envT, st.Type.Elem, it)
				if r.S != Exactly {
					return nil, r.S, r.Why
				}
				sv.Items = append(sv.Items, r.V)
			}
			out = append(out, sv)
		} else {
			r := Evolve(envF, sf.Type, envT, st.Type, steps[idx].Value)
			if r.S != Exactly {
				return nil, r.S, r.Why
			}
			out = append(out, value.StepValues{Value: r.V})
		}
	}
	return out, Exactly, ""
}
