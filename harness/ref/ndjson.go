package ref

// ndjson.go: the NDJSON mapping as published in docs/reference/ndjson.md.
//   Emit  - reference serialization of a value (fed to generated readers)
//   Match - checks that a JSON value produced by a generated writer is the documented
//           mapping of a given value (type-directed, numbers compared at declared width,
//           maps unordered, date/time/datetime compared by the instant they denote - D2)

import (
	"bytes"
	"encoding/json"
	"fmt"
	"math"
	"math/big"
	"regexp"
	"sort"
	"strconv"
	"strings"

	"verif/harness/model"
	"verif/harness/value"
)

// JSON kinds as the document names them.
const (
	jNull = 1 << iota
	jBool
	jNumber
	jString
	jArray
	jObject
)

// Kinds returns the set of JSON datatypes the documented mapping of type t can produce.
func Kinds(env *model.Env, t *model.Type) int {
	if t == nil {
		return jNull
	}
	switch t.Kind {
	case model.KPrim:
		switch t.Prim {
		case "bool":
			return jBool
		case "string", "date", "time", "datetime":
			return jString
		case "complexfloat32", "complexfloat64":
			return jArray
		default:
			return jNumber
		}
	case model.KRef:
		d := env.Lookup(t.Ns, t.Name)
		switch d.Kind {
		case model.DAlias:
			return Kinds(env, model.Subst(d.Type, model.Bind(d, t.Args)))
		case model.DRecord:
			return jObject
		case model.DEnum:
			return jString | jNumber // symbol, or the integer when outside the defined values
		case model.DFlags:
			return jArray | jNumber // array of symbols, or the integer when outside the defined values
		}
	case model.KOptional:
		return jNull | Kinds(env, t.Elem)
	case model.KUnion:
		// a union that is a case of another union (through an alias): the document's rule speaks of "the"
		// JSON datatype of a case and says nothing about a case that has several. Taken here: every datatype
		// any of its cases can produce, plus object when it is itself written with tags (an
		// over-approximation, which is also what yardl computes; see CaseIsUnion for what is asserted)
		k := 0
		for _, c := range t.Cases {
			k |= Kinds(env, c)
		}
		if !UnionIsSimple(env, t) {
			k |= jObject
		}
		return k
	case model.KVector:
		return jArray
	case model.KArray:
		if t.IsFixedArray() {
			return jArray
		}
		return jObject
	case model.KMap:
		u := env.Underlying(t.Key)
		if u.Kind == model.KPrim && u.Prim == "string" {
			return jObject
		}
		return jArray
	}
	return jObject
}

// CaseIsUnion: some case of the union is itself a union or an optional (possible through an alias only). The
// documented tagging rule does not cover such unions; whether they are written with tags is not asserted.
func CaseIsUnion(env *model.Env, t *model.Type) bool {
	if t.Kind != model.KUnion {
		return false
	}
	for _, c := range t.Cases {
		if c == nil {
			continue
		}
		if u := env.Underlying(c); u != nil && (u.Kind == model.KUnion || u.Kind == model.KOptional) {
			return true
		}
	}
	return false
}

// UnionIsSimple: "If each type case of a union serializes to a distinct JSON datatype ... the
// inner value is serialized directly."
func UnionIsSimple(env *model.Env, t *model.Type) bool {
	if t.OpenCases {
		return false // reference input uses the tagged form; Match accepts both (see there)
	}
	seen := 0
	for _, c := range t.Cases {
		k := Kinds(env, c)
		if seen&k != 0 {
			return false
		}
		seen |= k
	}
	return true
}

// Tag of union case i: the explicit tag, else the name of the case type.
func Tag(t *model.Type, i int) string {
	if t.Kind == model.KOptional {
		return ""
	}
	if t.ExplicitTags {
		return t.Tags[i]
	}
	c := t.Cases[i]
	if c == nil {
		return "null"
	}
	if c.Kind == model.KPrim {
		return c.Prim
	}
	return c.Name
}

func fmtFloat(f float64, bits int) string {
	s := strconv.FormatFloat(f, 'g', -1, bits)
	if !strings.ContainsAny(s, ".e") {
		s += ".0" // keep it a JSON real ("-0" would be read as the integer 0 and lose its sign)
	}
	return s
}

func jsonString(s string) string {
	var b bytes.Buffer
	enc := json.NewEncoder(&b)
	enc.SetEscapeHTML(false)
	enc.Encode(s)
	return strings.TrimRight(b.String(), "\n")
}

// civil date arithmetic (Hinnant's algorithms)
func civilFromDays(z int64) (y int64, m, d int) {
	z += 719468
	era := z / 146097
	if z < 0 {
		era = (z - 146096) / 146097
	}
	doe := z - era*146097
	yoe := (doe - doe/1460 + doe/36524 - doe/146096) / 365
	y = yoe + era*400
	doy := doe - (365*yoe + yoe/4 - yoe/100)
	mp := (5*doy + 2) / 153
	d = int(doy - (153*mp+2)/5 + 1)
	if mp < 10 {
		m = int(mp + 3)
	} else {
		m = int(mp - 9)
	}
	if m <= 2 {
		y++
	}
	return
}

func daysFromCivil(y int64, m, d int) int64 {
	if m <= 2 {
		y--
	}
	era := y / 400
	if y < 0 {
		era = (y - 399) / 400
	}
	yoe := y - era*400
	mm := int64(m)
	var doy int64
	if mm > 2 {
		doy = (153*(mm-3)+2)/5 + int64(d) - 1
	} else {
		doy = (153*(mm+9)+2)/5 + int64(d) - 1
	}
	doe := yoe*365 + yoe/4 - yoe/100 + doy
	return era*146097 + doe - 719468
}

func fmtDate(days int64) string {
	y, m, d := civilFromDays(days)
	return fmt.Sprintf("%04d-%02d-%02d", y, m, d)
}

func fmtTime(ns int64) string {
	s := ns / 1e9
	return fmt.Sprintf("%02d:%02d:%02d.%09d", s/3600, (s/60)%60, s%60, ns%1e9)
}

func fmtDateTime(ns int64) string {
	days := ns / 86400e9
	rem := ns % 86400e9
	if rem < 0 {
		rem += 86400e9
		days--
	}
	return fmtDate(days) + "T" + fmtTime(rem)
}

// Emit writes the documented JSON form of v.
func Emit(b *strings.Builder, env *model.Env, t *model.Type, v *value.Value) {
	switch t.Kind {
	case model.KPrim:
		switch t.Prim {
		case "bool":
			fmt.Fprint(b, v.B)
		case "int8", "int16", "int32", "int64":
			fmt.Fprint(b, v.I)
		case "uint8", "uint16", "uint32", "uint64", "size":
			fmt.Fprint(b, v.U)
		case "float32":
			b.WriteString(fmtFloat(v.F, 32))
		case "float64":
			b.WriteString(fmtFloat(v.F, 64))
		case "complexfloat32":
			fmt.Fprintf(b, "[%s,%s]", fmtFloat(v.Re(), 32), fmtFloat(v.Im(), 32))
		case "complexfloat64":
			fmt.Fprintf(b, "[%s,%s]", fmtFloat(v.Re(), 64), fmtFloat(v.Im(), 64))
		case "string":
			b.WriteString(jsonString(v.S))
		case "date":
			b.WriteString(jsonString(fmtDate(v.I)))
		case "time":
			b.WriteString(jsonString(fmtTime(v.I)))
		case "datetime":
			b.WriteString(jsonString(fmtDateTime(v.I)))
		}
	case model.KRef:
		d := env.Lookup(t.Ns, t.Name)
		switch d.Kind {
		case model.DAlias:
			Emit(b, env, model.Subst(d.Type, model.Bind(d, t.Args)), v)
		case model.DRecord:
			b.WriteByte('{')
			first := true
			for i, f := range env.RecordFields(t) {
				fv := v.Items[i]
				if omitField(env, f.Type, fv) {
					continue
				}
				if !first {
					b.WriteByte(',')
				}
				first = false
				b.WriteString(jsonString(f.Name) + ":")
				Emit(b, env, f.Type, fv)
			}
			b.WriteByte('}')
		case model.DEnum:
			if s, ok := enumSymbol(d, v); ok {
				b.WriteString(jsonString(s))
			} else {
				emitInt(b, v)
			}
		case model.DFlags:
			if syms, ok := flagSymbols(d, v); ok {
				b.WriteByte('[')
				for i, s := range syms {
					if i > 0 {
						b.WriteByte(',')
					}
					b.WriteString(jsonString(s))
				}
				b.WriteByte(']')
			} else {
				emitInt(b, v)
			}
		}
	case model.KOptional:
		if v.Case == 0 {
			b.WriteString("null")
		} else {
			Emit(b, env, t.Elem, v.Items[0])
		}
	case model.KUnion:
		c := t.Cases[v.Case]
		if c == nil {
			b.WriteString("null")
			return
		}
		if UnionIsSimple(env, t) {
			Emit(b, env, c, v.Items[0])
			return
		}
		b.WriteString("{" + jsonString(Tag(t, v.Case)) + ":")
		Emit(b, env, c, v.Items[0])
		b.WriteByte('}')
	case model.KVector:
		emitSeq(b, env, t.Elem, v.Items)
	case model.KArray:
		if t.IsFixedArray() {
			emitSeq(b, env, t.Elem, v.Items)
			return
		}
		b.WriteString("{\"shape\":[")
		for i, s := range v.Shape {
			if i > 0 {
				b.WriteByte(',')
			}
			fmt.Fprint(b, s)
		}
		b.WriteString("],\"data\":")
		emitSeq(b, env, t.Elem, v.Items)
		b.WriteByte('}')
	case model.KMap:
		u := env.Underlying(t.Key)
		if u.Kind == model.KPrim && u.Prim == "string" {
			b.WriteByte('{')
			for i, k := range v.Keys {
				if i > 0 {
					b.WriteByte(',')
				}
				b.WriteString(jsonString(k.S) + ":")
				Emit(b, env, t.Elem, v.Items[i])
			}
			b.WriteByte('}')
			return
		}
		b.WriteByte('[')
		for i, k := range v.Keys {
			if i > 0 {
				b.WriteByte(',')
			}
			b.WriteByte('[')
			Emit(b, env, t.Key, k)
			b.WriteByte(',')
			Emit(b, env, t.Elem, v.Items[i])
			b.WriteByte(']')
		}
		b.WriteByte(']')
	}
}

func emitSeq(b *strings.Builder, env *model.Env, et *model.Type, items []*value.Value) {
	b.WriteByte('[')
	for i, x := range items {
		if i > 0 {
			b.WriteByte(',')
		}
		Emit(b, env, et, x)
	}
	b.WriteByte(']')
}

func emitInt(b *strings.Builder, v *value.Value) {
	if v.K == value.Uint {
		fmt.Fprint(b, v.U)
	} else {
		fmt.Fprint(b, v.I)
	}
}

// omitField: "Fields are skipped if they are options or unions with null as a option and
// the value is null."
func omitField(env *model.Env, t *model.Type, v *value.Value) bool {
	u := env.Underlying(t)
	switch u.Kind {
	case model.KOptional:
		return v.Case == 0
	case model.KUnion:
		return u.HasNull() && v.Case == 0
	}
	return false
}

func enumSymbol(d *model.Def, v *value.Value) (string, bool) {
	for _, ev := range d.Values {
		if v.K == value.Uint {
			if (ev.Unsigned && ev.UValue == v.U) || (!ev.Unsigned && ev.Value >= 0 && uint64(ev.Value) == v.U) {
				return ev.Symbol, true
			}
		} else {
			if (!ev.Unsigned && ev.Value == v.I) || (ev.Unsigned && v.I >= 0 && ev.UValue == uint64(v.I)) {
				return ev.Symbol, true
			}
		}
	}
	return "", false
}

func flagBits(v *value.Value) uint64 {
	if v.K == value.Uint {
		return v.U
	}
	return uint64(v.I)
}

func evBits(ev model.EnumVal) uint64 {
	if ev.Unsigned {
		return ev.UValue
	}
	return uint64(ev.Value)
}

// flagSymbols decomposes a flags value into declared symbols; ok=false when some bit is not
// covered by a declared symbol (then the integer is written).
func flagSymbols(d *model.Def, v *value.Value) ([]string, bool) {
	bits := flagBits(v)
	syms := []string{}
	if bits == 0 {
		for _, ev := range d.Values {
			if evBits(ev) == 0 {
				return []string{ev.Symbol}, true
			}
		}
		return syms, true
	}
	rem := bits
	for _, ev := range d.Values {
		b := evBits(ev)
		if b != 0 && rem&b == b {
			syms = append(syms, ev.Symbol)
			rem &^= b
		}
	}
	return syms, rem == 0
}

// flagsComposite: some member of the flags type is not a single bit (and not zero).
func flagsComposite(d *model.Def) bool {
	for _, ev := range d.Values {
		if b := evBits(ev); b&(b-1) != 0 {
			return true
		}
	}
	return false
}

// EmitProtocol writes a complete NDJSON stream: header line, then one line per value.
func EmitProtocol(env *model.Env, proto *model.Def, schema string, steps []value.StepValues) string {
	var b strings.Builder
	b.WriteString("{\"yardl\":{\"version\":1,\"schema\":" + schema + "}}\n")
	for i, st := range proto.Fields {
		key := jsonString(st.Name)
		if st.Type.Kind == model.KStream {
			for _, it := range steps[i].Items {
				b.WriteString("{" + key + ":")
				Emit(&b, env, st.Type.Elem, it)
				b.WriteString("}\n")
			}
		} else {
			b.WriteString("{" + key + ":")
			Emit(&b, env, st.Type, steps[i].Value)
			b.WriteString("}\n")
		}
	}
	return b.String()
}

// ---------------------------------------------------------------------------------------
// Match

func num(got any) (*big.Float, *big.Int, bool) {
	n, ok := got.(json.Number)
	if !ok {
		return nil, nil, false
	}
	s := string(n)
	if i, ok := new(big.Int).SetString(s, 10); ok {
		return new(big.Float).SetInt(i), i, true
	}
	f, _, err := big.ParseFloat(s, 10, 200, big.ToNearestEven)
	if err != nil {
		return nil, nil, false
	}
	if f.IsInt() {
		i, _ := f.Int(nil)
		return f, i, true
	}
	return f, nil, true
}

func matchInt(v *value.Value, got any) error {
	_, i, ok := num(got)
	if !ok || i == nil {
		return fmt.Errorf("expected integer %s, got %s", v, show(got))
	}
	var want *big.Int
	if v.K == value.Uint {
		want = new(big.Int).SetUint64(v.U)
	} else {
		want = big.NewInt(v.I)
	}
	if want.Cmp(i) != 0 {
		return fmt.Errorf("expected %s, got %s", want, i)
	}
	return nil
}

func matchFloat(f float64, bits int, got any) error {
	g, _, ok := num(got)
	if !ok {
		return fmt.Errorf("expected number %g, got %s", f, show(got))
	}
	g64, _ := g.Float64()
	if bits == 32 {
		if float32(g64) == float32(f) && math.Signbit(g64) == math.Signbit(f) {
			return nil
		}
	} else if g64 == f && math.Signbit(g64) == math.Signbit(f) {
		return nil
	}
	if f == 0 && g64 == 0 {
		return nil // sign of zero: JSON writers may print -0.0 as 0 (not asserted)
	}
	return fmt.Errorf("expected %v (float%d), got %s", f, bits, show(got))
}

func show(x any) string {
	b, _ := json.Marshal(x)
	s := string(b)
	if len(s) > 200 {
		s = s[:200] + "…"
	}
	return s
}

var (
	dateRe     = regexp.MustCompile(`^(-?\d{4,})-(\d{2})-(\d{2})$`)
	timeRe     = regexp.MustCompile(`^(\d{2}):(\d{2}):(\d{2})(?:[.:](\d{1,9}))?$`)
	datetimeRe = regexp.MustCompile(`^(-?\d{4,})-(\d{2})-(\d{2})[T ](\d{2}):(\d{2}):(\d{2})(?:[.:](\d{1,9}))?Z?$`)
)

func atoi(s string) int64 { n, _ := strconv.ParseInt(s, 10, 64); return n }

func fracNs(s string) int64 {
	for len(s) < 9 {
		s += "0"
	}
	return atoi(s)
}

// ParseDate etc. return the denoted instant.
func ParseDate(s string) (int64, bool) {
	m := dateRe.FindStringSubmatch(s)
	if m == nil {
		return 0, false
	}
	return daysFromCivil(atoi(m[1]), int(atoi(m[2])), int(atoi(m[3]))), true
}

func ParseTime(s string) (int64, bool) {
	m := timeRe.FindStringSubmatch(s)
	if m == nil {
		return 0, false
	}
	return ((atoi(m[1])*60+atoi(m[2]))*60+atoi(m[3]))*1e9 + fracNs(m[4]), true
}

func ParseDateTime(s string) (int64, bool) {
	m := datetimeRe.FindStringSubmatch(s)
	if m == nil {
		return 0, false
	}
	days := daysFromCivil(atoi(m[1]), int(atoi(m[2])), int(atoi(m[3])))
	ns := ((atoi(m[4])*60+atoi(m[5]))*60+atoi(m[6]))*1e9 + fracNs(m[7])
	total := new(big.Int).Mul(big.NewInt(days), big.NewInt(86400e9))
	total.Add(total, big.NewInt(ns))
	if !total.IsInt64() {
		return 0, false
	}
	return total.Int64(), true
}

// Match checks that got (parsed with UseNumber) is the documented JSON form of v.
func Match(env *model.Env, t *model.Type, v *value.Value, got any) error {
	switch t.Kind {
	case model.KPrim:
		switch t.Prim {
		case "bool":
			g, ok := got.(bool)
			if !ok || g != v.B {
				return fmt.Errorf("expected %v, got %s", v.B, show(got))
			}
		case "int8", "int16", "int32", "int64", "uint8", "uint16", "uint32", "uint64", "size":
			return matchInt(v, got)
		case "float32":
			return matchFloat(v.F, 32, got)
		case "float64":
			return matchFloat(v.F, 64, got)
		case "complexfloat32", "complexfloat64":
			bits := 64
			if t.Prim == "complexfloat32" {
				bits = 32
			}
			a, ok := got.([]any)
			if !ok || len(a) != 2 {
				return fmt.Errorf("expected [re, im], got %s", show(got))
			}
			if err := matchFloat(v.Re(), bits, a[0]); err != nil {
				return err
			}
			return matchFloat(v.Im(), bits, a[1])
		case "string":
			g, ok := got.(string)
			if !ok || g != v.S {
				return fmt.Errorf("expected string %q, got %s", v.S, show(got))
			}
		case "date", "time", "datetime":
			g, ok := got.(string)
			if !ok {
				return fmt.Errorf("%s must be formatted as a string, got %s", t.Prim, show(got))
			}
			var inst int64
			var pok bool
			switch t.Prim {
			case "date":
				inst, pok = ParseDate(g)
			case "time":
				inst, pok = ParseTime(g)
			default:
				inst, pok = ParseDateTime(g)
			}
			if !pok || inst != v.I {
				return fmt.Errorf("%s %d written as %q (denotes %d, parsed=%v)", t.Prim, v.I, g, inst, pok)
			}
		}
		return nil
	case model.KRef:
		d := env.Lookup(t.Ns, t.Name)
		switch d.Kind {
		case model.DAlias:
			return Match(env, model.Subst(d.Type, model.Bind(d, t.Args)), v, got)
		case model.DRecord:
			obj, ok := got.(map[string]any)
			if !ok {
				return fmt.Errorf("record %s must be a JSON object, got %s", d.Name, show(got))
			}
			used := 0
			for i, f := range env.RecordFields(t) {
				g, present := obj[f.Name]
				if omitField(env, f.Type, v.Items[i]) {
					if present && g != nil {
						return fmt.Errorf("%s.%s is null but the object carries %s", d.Name, f.Name, show(g))
					}
					if present {
						used++ // an explicit null instead of omission: tolerated on the writer side? the document says skipped
						return fmt.Errorf("%s.%s: null optional fields are documented to be skipped, got an explicit null", d.Name, f.Name)
					}
					continue
				}
				if !present {
					return fmt.Errorf("%s.%s missing from %s", d.Name, f.Name, show(got))
				}
				used++
				if err := Match(env, f.Type, v.Items[i], g); err != nil {
					return fmt.Errorf("%s.%s: %w", d.Name, f.Name, err)
				}
			}
			if used != len(obj) {
				return fmt.Errorf("record %s: unexpected extra keys in %s", d.Name, show(got))
			}
			return nil
		case model.DEnum:
			if s, ok := enumSymbol(d, v); ok {
				if g, isStr := got.(string); !isStr || g != s {
					return fmt.Errorf("enum %s value %s must be written as symbol %q, got %s", d.Name, v, s, show(got))
				}
				return nil
			}
			return matchInt(v, got)
		case model.DFlags:
			syms, ok := flagSymbols(d, v)
			if !flagsComposite(d) {
				if ok {
					a, isArr := got.([]any)
					if !isArr {
						return fmt.Errorf("flags %s value %s must be an array of symbols %v, got %s", d.Name, v, syms, show(got))
					}
					var gs []string
					for _, x := range a {
						s, _ := x.(string)
						gs = append(gs, s)
					}
					sort.Strings(gs)
					ws := append([]string{}, syms...)
					sort.Strings(ws)
					if strings.Join(gs, ",") != strings.Join(ws, ",") {
						return fmt.Errorf("flags %s value %s: expected symbols %v, got %s", d.Name, v, syms, show(got))
					}
					return nil
				}
				return matchInt(v, got)
			}
			// a type with a member that is not a single bit: "an array of the symbolic values that are
			// set" admits several arrays (read|write as [read, write] or [readWrite]). Accepted: any array of
			// declared symbols that are all set in the value and together make up exactly the value. The
			// integer is required when the symbols that are set do not make up the value, and an array when
			// taking the members in declaration order does; in between (a cover exists, but not that way)
			// the document does not decide and both forms are accepted.
			bits := flagBits(v)
			var cover uint64
			for _, ev := range d.Values {
				if b := evBits(ev); b != 0 && bits&b == b {
					cover |= b
				}
			}
			if a, isArr := got.([]any); isArr {
				if cover != bits && bits != 0 {
					return fmt.Errorf("flags %s value %s is outside the defined values (the members that are set make up %d) and must be written as the integer, got %s", d.Name, v, cover, show(got))
				}
				var or uint64
				for _, x := range a {
					s, _ := x.(string)
					found := false
					for _, ev := range d.Values {
						if ev.Symbol == s {
							found = true
							b := evBits(ev)
							if bits&b != b {
								return fmt.Errorf("flags %s value %s: symbol %q is not set in the value, got %s", d.Name, v, s, show(got))
							}
							or |= b
						}
					}
					if !found {
						return fmt.Errorf("flags %s value %s: %s is not a declared symbol, got %s", d.Name, v, show(x), show(got))
					}
				}
				if or != bits {
					return fmt.Errorf("flags %s value %s: the symbols written make up %d, got %s", d.Name, v, or, show(got))
				}
				return nil
			}
			if ok {
				return fmt.Errorf("flags %s value %s must be an array of symbols (e.g. %v), got %s", d.Name, v, syms, show(got))
			}
			return matchInt(v, got)
		}
	case model.KOptional:
		if v.Case == 0 {
			if got != nil {
				return fmt.Errorf("expected null, got %s", show(got))
			}
			return nil
		}
		return Match(env, t.Elem, v.Items[0], got)
	case model.KUnion:
		c := t.Cases[v.Case]
		if c == nil {
			if got == nil {
				return nil
			}
			// the document does not say how the null case of a tagged union is written; the tagged
			// form {"null": null} is accepted as well (cross-language agreement is C03's subject)
			if obj, ok := got.(map[string]any); ok && len(obj) == 1 && !UnionIsSimple(env, t) {
				if x, has := obj["null"]; has && x == nil {
					return nil
				}
			}
			return fmt.Errorf("expected null, got %s", show(got))
		}
		if UnionIsSimple(env, t) {
			return Match(env, c, v.Items[0], got)
		}
		obj, ok := got.(map[string]any)
		tag := Tag(t, v.Case)
		if t.OpenCases || CaseIsUnion(env, t) {
			// a union of a generic definition with a type-parameter case, or a union with a case that is
			// itself a union: tagged or untagged
			if ok && len(obj) == 1 {
				if g, has := obj[tag]; has && Match(env, c, v.Items[0], g) == nil {
					return nil
				}
			}
			return Match(env, c, v.Items[0], got)
		}
		if !ok || len(obj) != 1 {
			return fmt.Errorf("union whose cases share a JSON datatype must be written as {%q: ...}, got %s", tag, show(got))
		}
		g, ok := obj[tag]
		if !ok {
			return fmt.Errorf("expected tag %q, got %s", tag, show(got))
		}
		return Match(env, c, v.Items[0], g)
	case model.KVector:
		return matchSeq(env, t.Elem, v.Items, got)
	case model.KArray:
		if t.IsFixedArray() {
			return matchSeq(env, t.Elem, v.Items, got)
		}
		obj, ok := got.(map[string]any)
		if !ok {
			return fmt.Errorf("array must be {shape, data}, got %s", show(got))
		}
		sh, ok := obj["shape"].([]any)
		if !ok || len(sh) != len(v.Shape) {
			return fmt.Errorf("array shape %v, got %s", v.Shape, show(obj["shape"]))
		}
		for i, s := range v.Shape {
			if err := matchInt(&value.Value{K: value.Uint, U: s}, sh[i]); err != nil {
				return fmt.Errorf("shape[%d]: %w", i, err)
			}
		}
		return matchSeq(env, t.Elem, v.Items, obj["data"])
	case model.KMap:
		u := env.Underlying(t.Key)
		if u.Kind == model.KPrim && u.Prim == "string" {
			obj, ok := got.(map[string]any)
			if !ok || len(obj) != len(v.Keys) {
				return fmt.Errorf("map with %d string keys must be an object with as many members, got %s", len(v.Keys), show(got))
			}
			for i, k := range v.Keys {
				g, ok := obj[k.S]
				if !ok {
					return fmt.Errorf("map key %q missing", k.S)
				}
				if err := Match(env, t.Elem, v.Items[i], g); err != nil {
					return fmt.Errorf("map[%q]: %w", k.S, err)
				}
			}
			return nil
		}
		arr, ok := got.([]any)
		if !ok || len(arr) != len(v.Keys) {
			return fmt.Errorf("map with %d entries must be an array of [key, value] pairs, got %s", len(v.Keys), show(got))
		}
		usedIdx := map[int]bool{}
		for i, k := range v.Keys {
			found := false
			for j, e := range arr {
				pair, ok := e.([]any)
				if !ok || len(pair) != 2 || usedIdx[j] {
					continue
				}
				if Match(env, t.Key, k, pair[0]) == nil {
					if err := Match(env, t.Elem, v.Items[i], pair[1]); err != nil {
						return fmt.Errorf("map[%s]: %w", k, err)
					}
					usedIdx[j] = true
					found = true
					break
				}
			}
			if !found {
				return fmt.Errorf("map key %s missing from %s", k, show(got))
			}
		}
		return nil
	}
	return fmt.Errorf("Match: unsupported kind %d", t.Kind)
}

func matchSeq(env *model.Env, et *model.Type, items []*value.Value, got any) error {
	arr, ok := got.([]any)
	if !ok {
		return fmt.Errorf("expected an array of %d items, got %s", len(items), show(got))
	}
	if len(arr) != len(items) {
		return fmt.Errorf("expected %d items, got %d", len(items), len(arr))
	}
	for i := range items {
		if err := Match(env, et, items[i], arr[i]); err != nil {
			return fmt.Errorf("[%d]: %w", i, err)
		}
	}
	return nil
}

// MatchProtocol checks a complete NDJSON stream written by a generated writer.
func MatchProtocol(env *model.Env, proto *model.Def, schema string, steps []value.StepValues, text string) error {
	lines := strings.Split(strings.TrimRight(text, "\n"), "\n")
	if len(lines) == 0 || strings.TrimSpace(lines[0]) == "" {
		return fmt.Errorf("empty output")
	}
	parse := func(s string) (any, error) {
		dec := json.NewDecoder(strings.NewReader(s))
		dec.UseNumber()
		var x any
		if err := dec.Decode(&x); err != nil {
			return nil, err
		}
		if dec.More() {
			return nil, fmt.Errorf("more than one JSON document on a line")
		}
		return x, nil
	}
	hdr, err := parse(lines[0])
	if err != nil {
		return fmt.Errorf("header line is not JSON: %v", err)
	}
	want, _ := parse("{\"yardl\":{\"version\":1,\"schema\":" + schema + "}}")
	hb, _ := json.Marshal(hdr)
	wb, _ := json.Marshal(want)
	if string(hb) != string(wb) {
		return fmt.Errorf("header line %s differs from {\"yardl\":{\"version\":1,\"schema\":<schema>}}", core200(lines[0]))
	}
	pos := 1
	next := func(step string) (any, error) {
		if pos >= len(lines) {
			return nil, fmt.Errorf("output ends before a value of step %s", step)
		}
		x, err := parse(lines[pos])
		if err != nil {
			return nil, fmt.Errorf("line %d is not JSON: %v", pos+1, err)
		}
		pos++
		obj, ok := x.(map[string]any)
		if !ok || len(obj) != 1 {
			return nil, fmt.Errorf("line %d must be an object with the single key %q: %s", pos, step, show(x))
		}
		g, ok := obj[step]
		if !ok {
			return nil, fmt.Errorf("line %d: expected step %q, got %s", pos, step, show(x))
		}
		return g, nil
	}
	for i, st := range proto.Fields {
		if st.Type.Kind == model.KStream {
			for j, it := range steps[i].Items {
				g, err := next(st.Name)
				if err != nil {
					return err
				}
				if err := Match(env, st.Type.Elem, it, g); err != nil {
					return fmt.Errorf("step %s item %d: %w", st.Name, j, err)
				}
			}
		} else {
			g, err := next(st.Name)
			if err != nil {
				return err
			}
			if err := Match(env, st.Type, steps[i].Value, g); err != nil {
				return fmt.Errorf("step %s: %w", st.Name, err)
			}
		}
	}
	if pos != len(lines) {
		return fmt.Errorf("%d extra line(s) after the last value: %s", len(lines)-pos, core200(lines[pos]))
	}
	return nil
}

func core200(s string) string {
	if len(s) > 200 {
		return s[:200] + "…"
	}
	return s
}
