package ref

// expr.go: computed-field expressions - AST, yardl text, and an exact evaluator over the
// rationals (C19). The evaluator computes the mathematical value of an expression; it knows
// nothing about target-language arithmetic. Only two typing facts are used, both stated in the
// language documentation: integer literals and integer-typed fields are integers, `**` and any
// operation with a floating-point operand are real-valued.

import (
	"fmt"
	"math"
	"math/big"
	"strings"

	"verif/harness/model"
)

type Expr2 struct {
	Kind  string `json:"kind"`           // field | int | float | bin | cast | neg | index | size | paren
	Name  string `json:"name,omitempty"` // field name / cast target primitive
	Prim  string `json:"prim,omitempty"` // field: its primitive type
	Lit   string `json:"lit,omitempty"`  // literal text
	Op    string `json:"op,omitempty"`   // + - * / **
	L     *Expr2 `json:"l,omitempty"`
	R     *Expr2 `json:"r,omitempty"`
	Index int    `json:"index,omitempty"` // index: literal index into the vector field Name
}

// Text renders the expression in yardl syntax with exactly the parentheses the tree demands
// (a Paren node forces a pair even where precedence would not need one).
func (e *Expr2) Text() string {
	switch e.Kind {
	case "field":
		return e.Name
	case "int", "float":
		return e.Lit
	case "neg":
		return "-(" + e.L.Text() + ")"
	case "paren":
		return "(" + e.L.Text() + ")"
	case "cast":
		return "(" + e.L.Text() + ") as " + e.Name
	case "index":
		return fmt.Sprintf("%s[%d]", e.Name, e.Index)
	case "switch":
		// not an expression text: the model builder turns it into a !switch computed field over the
		// union field Name whose cases (in the order given by Lit) each return their variable
		return "!switch " + e.Name + " " + e.Lit
	case "size":
		return "size(" + e.Name + ")"
	case "atom":
		// an operand whose text is given and whose value the check derives from the record value:
		// array subscripts (positional / by dimension name), size / dimensionIndex / dimensionCount
		// calls, member accesses
		return e.Lit
	case "switch2":
		// like "switch": a !switch computed field over the optional / nullable union field Name,
		// in the variant named by Lit (built by the model builder)
		return "!switch2 " + e.Name + " " + e.Lit
	case "bin":
		return e.L.Text() + " " + e.Op + " " + e.R.Text()
	}
	return "?"
}

// Tree renders the fully parenthesised reading (for messages).
func (e *Expr2) Tree() string {
	switch e.Kind {
	case "bin":
		return "(" + e.L.Tree() + " " + e.Op + " " + e.R.Tree() + ")"
	case "paren":
		return e.L.Tree()
	case "neg":
		return "-(" + e.L.Tree() + ")"
	case "cast":
		return "(" + e.L.Tree() + " as " + e.Name + ")"
	}
	return e.Text()
}

// prec/assoc of yardl's expression grammar: ** binds tighter than * /, which bind tighter than
// + -; ** is right-associative, the others left-associative (docs: "Simple arithmetic
// expressions"; tests/parser: "2 ** 2 ** 3", "1 * 2 / 3 + 4").
func prec(op string) int {
	switch op {
	case "**":
		return 3
	case "*", "/":
		return 2
	}
	return 1
}

// Normalize rebuilds the tree the way yardl's grammar parses Text(): explicit Paren nodes keep
// their grouping, unparenthesised operands are re-associated by precedence. The generator
// only builds trees whose Text() parses back to the same tree, by inserting Paren nodes where
// needed; this function is the check of that claim.
func NeedsParen(parent string, child *Expr2, right bool) bool {
	if child.Kind != "bin" {
		return false
	}
	pc, pp := prec(child.Op), prec(parent)
	if pc < pp {
		return true
	}
	if pc > pp {
		return false
	}
	if parent == "**" {
		return !right // right-associative: a ** (b ** c) is the default reading
	}
	return right // left-associative: a - (b - c) needs the parentheses
}

// IsIntTyped reports whether the expression is integer-valued by the documented rules.
func (e *Expr2) IsIntTyped() bool {
	switch e.Kind {
	case "field", "index", "atom":
		return model.IsIntPrim(e.Prim)
	case "int", "size", "switch", "switch2":
		return true
	case "float":
		return false
	case "neg", "paren":
		return e.L.IsIntTyped()
	case "cast":
		return model.IsIntPrim(e.Name)
	case "bin":
		if e.Op == "**" {
			return false
		}
		return e.L.IsIntTyped() && e.R.IsIntTyped()
	}
	return false
}

// IsUnsignedTyped: every leaf is unsigned (integer literals count as compatible). Such an
// expression is evaluated in unsigned arithmetic by C-like targets, so a negative
// mathematical value is out of range for it.
func (e *Expr2) IsUnsignedTyped() bool {
	switch e.Kind {
	case "field", "index", "atom":
		return model.IsIntPrim(e.Prim) && !model.IsSignedInt(e.Prim)
	case "size":
		return true
	case "int":
		return true
	case "cast":
		return model.IsIntPrim(e.Name) && !model.IsSignedInt(e.Name)
	case "neg", "paren":
		return e.L.IsUnsignedTyped()
	case "bin":
		return e.Op != "**" && e.L.IsUnsignedTyped() && e.R.IsUnsignedTyped()
	}
	return false
}

// gate: intermediate integer results must stay within what every plausible static type of the
// sub-expression can hold (non-negative when unsigned-typed, below 2^31 in magnitude);
// otherwise the evaluation is "not in range" and is not judged.
func (e *Expr2) gate(r EvalResult) EvalResult {
	if r.Undefined == "" && r.IsFloat && (math.IsInf(r.Float, 0) || math.IsNaN(r.Float) || math.Abs(r.Float) > 1e300) {
		return EvalResult{Undefined: "intermediate real value overflows"}
	}
	if r.Undefined != "" || r.IsFloat || !e.IsIntTyped() {
		return r
	}
	if e.IsUnsignedTyped() && r.Val.Sign() < 0 && e.Kind != "int" {
		return EvalResult{Undefined: "negative intermediate value in an unsigned sub-expression"}
	}
	lim := big.NewRat(1<<31-1, 1)
	if new(big.Rat).Abs(r.Val).Cmp(lim) > 0 {
		return EvalResult{Undefined: "intermediate value beyond 32 bits"}
	}
	return r
}

// IntDivUndefined is the reason given for an integer division whose quotient is not an integer.
const IntDivUndefined = "integer division with a non-integral quotient (rounding is not documented)"

// DivRounding selects what such a division evaluates to: "" = undefined (the default), "floor" or
// "trunc". The documents do not say; the two candidates are used to tell apart the evaluations on
// which every rounding rule agrees (non-negative quotients) from the rest. Not safe for concurrent
// use (the checks evaluate sequentially).
var DivRounding = ""

// EvalRounded evaluates with the given rounding rule for inexact integer divisions.
func (e *Expr2) EvalRounded(mode string, fields map[string]*big.Rat, vecs map[string][]*big.Rat) EvalResult {
	old := DivRounding
	DivRounding = mode
	defer func() { DivRounding = old }()
	return e.Eval(fields, vecs)
}

// EvalResult of the exact evaluator.
type EvalResult struct {
	Val       *big.Rat
	Float     float64 // used when the value left the rationals (** with non-integer exponent)
	IsFloat   bool    // Float is authoritative (inexact)
	Undefined string  // non-empty: the documents do not define the value (reason)
}

// Eval computes the mathematical value. fields: name -> value (integers and dyadic rationals),
// vecs: vector field name -> elements.
func (e *Expr2) Eval(fields map[string]*big.Rat, vecs map[string][]*big.Rat) EvalResult {
	return e.gate(e.eval(fields, vecs))
}

func (e *Expr2) eval(fields map[string]*big.Rat, vecs map[string][]*big.Rat) EvalResult {
	switch e.Kind {
	case "field":
		return EvalResult{Val: fields[e.Name]}
	case "switch":
		// the value held by the union field, whichever case holds it
		return EvalResult{Val: fields["#"+e.Name]}
	case "atom":
		if v, ok := fields["@"+e.Lit]; ok {
			return EvalResult{Val: v}
		}
		return EvalResult{Undefined: "operand without a value in this record"}
	case "switch2":
		if v, ok := fields["#"+e.Name+":"+e.Lit]; ok {
			return EvalResult{Val: v}
		}
		return EvalResult{Undefined: "switch variant without a value in this record"}
	case "int":
		r, _ := new(big.Rat).SetString(e.Lit)
		return EvalResult{Val: r}
	case "float":
		r, _ := new(big.Rat).SetString(e.Lit)
		return EvalResult{Val: r}
	case "index":
		v := vecs[e.Name]
		if e.Index >= len(v) {
			return EvalResult{Undefined: "index out of range"}
		}
		return EvalResult{Val: v[e.Index]}
	case "size":
		return EvalResult{Val: big.NewRat(int64(len(vecs[e.Name])), 1)}
	case "paren":
		return e.L.Eval(fields, vecs)
	case "neg":
		x := e.L.Eval(fields, vecs)
		if x.Undefined != "" {
			return x
		}
		if x.IsFloat {
			return EvalResult{IsFloat: true, Float: -x.Float}
		}
		return EvalResult{Val: new(big.Rat).Neg(x.Val)}
	case "cast":
		x := e.L.Eval(fields, vecs)
		if x.Undefined != "" {
			return x
		}
		if model.IsIntPrim(e.Name) {
			if x.IsFloat || !x.Val.IsInt() {
				return EvalResult{Undefined: "conversion of a non-integral value to an integer type (rounding is not documented)"}
			}
			if !fitsInt(x.Val, e.Name) {
				return EvalResult{Undefined: "value out of range of the cast target"}
			}
			return x
		}
		if e.Name == "float32" {
			// must be exactly representable, else the conversion rounds (not an exact value any more)
			f, exact := ratFloat(x)
			if float64(float32(f)) != f || !exact {
				return EvalResult{IsFloat: true, Float: float64(float32(f))}
			}
		}
		return x
	case "bin":
		l := e.L.Eval(fields, vecs)
		if l.Undefined != "" {
			return l
		}
		r := e.R.Eval(fields, vecs)
		if r.Undefined != "" {
			return r
		}
		if e.Op == "**" {
			lf, _ := ratFloat(l)
			rf, _ := ratFloat(r)
			if lf == 0 && rf < 0 {
				return EvalResult{Undefined: "0 to a negative power"}
			}
			if lf < 0 && rf != math.Trunc(rf) {
				return EvalResult{Undefined: "negative base with a fractional exponent"}
			}
			return EvalResult{IsFloat: true, Float: math.Pow(lf, rf)}
		}
		if l.IsFloat || r.IsFloat {
			lf, _ := ratFloat(l)
			rf, _ := ratFloat(r)
			switch e.Op {
			case "+":
				return EvalResult{IsFloat: true, Float: lf + rf}
			case "-":
				return EvalResult{IsFloat: true, Float: lf - rf}
			case "*":
				return EvalResult{IsFloat: true, Float: lf * rf}
			default:
				if rf == 0 {
					return EvalResult{Undefined: "division by zero"}
				}
				return EvalResult{IsFloat: true, Float: lf / rf}
			}
		}
		z := new(big.Rat)
		switch e.Op {
		case "+":
			z.Add(l.Val, r.Val)
		case "-":
			z.Sub(l.Val, r.Val)
		case "*":
			z.Mul(l.Val, r.Val)
		case "/":
			if r.Val.Sign() == 0 {
				return EvalResult{Undefined: "division by zero"}
			}
			z.Quo(l.Val, r.Val)
			if e.L.IsIntTyped() && e.R.IsIntTyped() && !z.IsInt() {
				switch DivRounding {
				case "floor", "trunc":
					q := new(big.Int).Quo(z.Num(), z.Denom()) // truncates toward zero
					if DivRounding == "floor" && z.Sign() < 0 {
						q.Sub(q, big.NewInt(1))
					}
					return EvalResult{Val: new(big.Rat).SetInt(q)}
				}
				return EvalResult{Undefined: IntDivUndefined}
			}
		}
		return EvalResult{Val: z}
	}
	return EvalResult{Undefined: "unknown node"}
}

func ratFloat(x EvalResult) (float64, bool) {
	if x.IsFloat {
		return x.Float, false
	}
	return x.Val.Float64()
}

func fitsInt(v *big.Rat, prim string) bool {
	if !v.IsInt() {
		return false
	}
	n := v.Num()
	bits := model.IntBits(prim)
	if model.IsSignedInt(prim) {
		min := new(big.Int).Neg(new(big.Int).Lsh(big.NewInt(1), uint(bits-1)))
		max := new(big.Int).Sub(new(big.Int).Lsh(big.NewInt(1), uint(bits-1)), big.NewInt(1))
		return n.Cmp(min) >= 0 && n.Cmp(max) <= 0
	}
	max := new(big.Int).Sub(new(big.Int).Lsh(big.NewInt(1), uint(bits)), big.NewInt(1))
	return n.Sign() >= 0 && n.Cmp(max) <= 0
}

// FitsDeclared: can the declared primitive hold the exact value?
func FitsDeclared(x EvalResult, prim string) bool {
	if model.IsIntPrim(prim) {
		return !x.IsFloat && fitsInt(x.Val, prim)
	}
	f, _ := ratFloat(x)
	if prim == "float32" {
		return math.Abs(f) <= math.MaxFloat32
	}
	return !math.IsInf(f, 0) && !math.IsNaN(f)
}

func CppTypeToPrim(s string) string {
	m := map[string]string{"int8_t": "int8", "uint8_t": "uint8", "int16_t": "int16", "uint16_t": "uint16", "int32_t": "int32", "uint32_t": "uint32", "int64_t": "int64",
		"uint64_t": "uint64", "yardl::Size": "size", "float": "float32", "double": "float64", "bool": "bool", "std::string": "string"}
	return m[strings.TrimSpace(s)]
}

func PyAnnotationToPrim(s string) string {
	m := map[string]string{"yardl.Int8": "int8", "yardl.UInt8": "uint8", "yardl.Int16": "int16", "yardl.UInt16": "uint16", "yardl.Int32": "int32", "yardl.UInt32": "uint32",
		"yardl.Int64": "int64", "yardl.UInt64": "uint64", "yardl.Size": "size", "yardl.Float32": "float32", "yardl.Float64": "float64", "bool": "bool", "str": "string"}
	return m[strings.TrimSpace(s)]
}
