module verif/harness

go 1.24.0

require (
	github.com/microsoft/yardl/tooling v0.0.0
	gopkg.in/yaml.v3 v3.0.1
	pgregory.net/rapid v1.3.0
)

replace github.com/microsoft/yardl/tooling => /repo/tooling

replace gopkg.in/yaml.v3 => github.com/johnstairs/go-yaml-yaml v0.0.0-20221109150101-483fca0d3ee9
